//go:build verifrt

// Package rt gives the harness control over the two sources of environment
// nondeterminism inside the replicated core: Go's map iteration order and the wall
// clock.  It only works in binaries built with the overlay of tools/rtpatch.py.
package rt

import (
	"runtime"
	"time"
)

func setMapHook(fn func(count int, b uint8) uint64) { time.VerifSetMapHook(fn) }

// Choice describes one map-iteration choice point observed while the hook was armed.
type Choice struct {
	Count int   // number of elements in the map
	B     uint8 // log2 of the number of buckets
	Alts  int   // number of distinct start positions the runtime can pick (8 << B)
	Taken uint64
}

// Recorder answers map-iteration choice points from a script and records them.
type Recorder struct {
	Script  map[int]uint64 // choice index -> forced value; others get 0
	Choices []Choice
}

// Arm installs the recorder for the calling goroutine (which must stay on its OS
// thread-independent g: the hook is keyed by goroutine) until Disarm.
func (r *Recorder) Arm() {
	setMapHook(func(count int, b uint8) uint64 {
		if count < 2 {
			return 0
		}
		idx := len(r.Choices)
		v := r.Script[idx]
		r.Choices = append(r.Choices, Choice{Count: count, B: b, Alts: 8 << b, Taken: v})
		return v
	})
}

func Disarm() { setMapHook(nil) }

// SetClockOffset shifts time.Now by sec seconds (process-global).
func SetClockOffset(sec int64) { time.VerifOffsetSec = sec }

// SetFixedNow makes time.Now return exactly ns (Unix nanoseconds); 0 restores the real clock.
func SetFixedNow(ns int64) { time.VerifFixedNano = ns }

var _ = runtime.GOOS
