//go:build verif

// Package vsync (race-mode variant, mounted as internal/verif/vsyncr) is a drop-in for the parts of package sync that the repository
// uses (Mutex, RWMutex, Cond), under the control of a cooperative scheduler
// (DESIGN.md section 1.4).  Repository files are compiled against it by rewriting
// their import of "sync" at check time (tools/rewrite.py).
//
// While no schedule is running every operation forwards to the real primitive, so
// set-up code behaves as usual.  While a schedule is running exactly one harness
// thread executes at any time; every operation is a scheduling point, the
// scheduler keeps a logical model of each lock (holder, readers, announced writer --
// Go's writer preference included) and of each condition variable's wait set, and
// only resumes a thread whose pending operation is enabled.
package vsync

import (
	"fmt"
	"runtime"
	"runtime/debug"
	"sync"
	"time"
)

type opKind int

const (
	opNone opKind = iota
	opStart
	opLock
	opUnlock
	opRLock
	opRUnlock
	opWAnnounce
	opWAcquire
	opWait
	opWaitSignal
	opBroadcast
	opSleep
	opYield
)

var opNames = map[opKind]string{opStart: "start", opLock: "Lock", opUnlock: "Unlock", opRLock: "RLock", opRUnlock: "RUnlock", opWAnnounce: "Lock(announce)", opWAcquire: "Lock(acquire)",
	opWait: "Wait", opWaitSignal: "Wait(wake)", opBroadcast: "Broadcast", opSleep: "Sleep", opYield: "Yield"}

type pending struct {
	kind opKind
	mu   *Mutex
	rw   *RWMutex
	cond *Cond
}

type thread struct {
	id        int
	name      string
	fn        func()
	wake      int32 // handed over with plain loads/stores in norace code: no happens-before edge for the race detector
	done      bool
	started   bool
	pend      pending
	signalled bool
	sleeps    int
	panicked  interface{}
	stack     string
}

// Point is one recorded scheduling decision.
type Point struct {
	Enabled        []int // canonical order: running thread first if still enabled, then ascending ids
	Chosen         int   // index into Enabled
	Running        int   // id of the thread that reached the point (-1 at start / after an exit)
	RunningEnabled bool
	Op             string
}

type abortSentinel struct{}

// Sched runs one schedule.
type Sched struct {
	threads []*thread
	cur     *thread
	prefix  []int
	Points  []Point
	Steps   int
	Horizon int // maximum number of scheduling points before the execution is cut
	// Outcome is "done", "deadlock" (no enabled thread although some have not finished) or "horizon".
	Outcome  string
	Blocked  []string // names of the unfinished threads with their pending operation at the end
	aborted  bool
	finishedFlag int32
	wg       sync.WaitGroup
	Diverged bool
	Log      []string
	TraceOn  bool
}

var active *Sched

// New creates a scheduler that replays prefix and then follows the default policy
// (keep running the current thread while it is enabled, else the lowest enabled id).
//go:norace
func New(prefix []int) *Sched {
	return &Sched{prefix: prefix, Horizon: 2000}
}

// Go registers a harness thread.  Must be called before Run.
//go:norace
func (s *Sched) Go(name string, fn func()) {
	t := &thread{id: len(s.threads), name: name, fn: fn}
	t.pend = pending{kind: opStart}
	s.threads = append(s.threads, t)
}

// Panics returns the panics of the threads (nil entries for threads that did not panic).
//go:norace
func (s *Sched) Panics() []interface{} {
	out := make([]interface{}, len(s.threads))
	for k, t := range s.threads {
		out[k] = t.panicked
	}
	return out
}

//go:norace
func (s *Sched) PanicStack(id int) string { return s.threads[id].stack }

// Sleeps returns the number of Sleep calls made by all threads.
//go:norace
func (s *Sched) Sleeps() int {
	n := 0
	for _, t := range s.threads {
		n += t.sleeps
	}
	return n
}

// Done reports whether thread id ran to completion.
//go:norace
func (s *Sched) Done(id int) bool { return s.threads[id].done }

// Run executes the schedule and returns when every thread finished or the execution
// was cut (deadlock / horizon); in the latter case the remaining threads are unwound.
//go:norace
func (s *Sched) Run() {
	if active != nil {
		panic("vsync: nested Run")
	}
	active = s
	for _, t := range s.threads {
		s.wg.Add(1)
		go s.threadMain(t)
	}
	s.cur = nil
	next := s.choose(nil)
	if next != nil {
		s.cur = next
		setFlag(&next.wake)
		waitFlag(&s.finishedFlag)
	}
	s.wg.Wait()
	active = nil
}

// threadMain is the body of a harness thread.  It is a named norace function (not a closure) so
// that its accesses to scheduler data are not instrumented.
//
//go:norace
func (s *Sched) threadMain(t *thread) {
	defer s.wg.Done()
	waitFlag(&t.wake)
	if s.aborted {
		return
	}
	defer s.threadRecover(t)
	t.started = true
	t.fn()
	t.done = true
	s.exit(t)
}

//go:norace
func (s *Sched) threadRecover(t *thread) {
	if r := recover(); r != nil {
		if _, ok := r.(abortSentinel); ok {
			return
		}
		t.panicked = r
		t.stack = string(debug.Stack())
		t.done = true
		s.exit(t)
	}
}

// exit is called by a thread that finished (normally or by panic).
//go:norace
func (s *Sched) exit(t *thread) {
	if s.aborted {
		return
	}
	next := s.choose(nil)
	if next == nil {
		return // choose already finished the execution
	}
	s.cur = next
	setFlag(&next.wake)
}

//go:norace
func (s *Sched) enabled(t *thread) bool {
	if t.done {
		return false
	}
	p := t.pend
	switch p.kind {
	case opLock:
		return !p.mu.held
	case opRLock:
		return !p.rw.announced
	case opWAnnounce:
		return !p.rw.announced
	case opWAcquire:
		return p.rw.readers == 0
	case opWaitSignal:
		return t.signalled
	}
	return true
}

// choose picks the next thread to run at a scheduling point reached by `running` (nil
// when no thread is running).  It returns nil after finishing the execution.
//go:norace
func (s *Sched) choose(running *thread) *thread {
	var en []int
	runEnabled := false
	if running != nil && s.enabled(running) {
		en = append(en, running.id)
		runEnabled = true
	}
	for _, t := range s.threads {
		if (running == nil || t.id != running.id) && s.enabled(t) {
			en = append(en, t.id)
		}
	}
	s.Steps++
	if len(en) == 0 || s.Steps > s.Horizon {
		allDone := true
		for _, t := range s.threads {
			if !t.done {
				allDone = false
				s.Blocked = append(s.Blocked, fmt.Sprintf("%s@%s", t.name, opNames[t.pend.kind]))
			}
		}
		switch {
		case allDone:
			s.Outcome = "done"
			s.Blocked = nil
		case len(en) == 0:
			s.Outcome = "deadlock"
		default:
			s.Outcome = "horizon"
		}
		s.finish(running)
		return nil
	}
	idx := 0
	if len(s.Points) < len(s.prefix) {
		idx = s.prefix[len(s.Points)]
		if idx >= len(en) {
			s.Diverged = true
			idx = 0
		}
	}
	rid := -1
	op := ""
	if running != nil {
		rid = running.id
		op = opNames[running.pend.kind]
	}
	s.Points = append(s.Points, Point{Enabled: en, Chosen: idx, Running: rid, RunningEnabled: runEnabled, Op: op})
	if s.TraceOn {
		s.Log = append(s.Log, fmt.Sprintf("point %d: running=%d op=%s enabled=%v -> %d", len(s.Points)-1, rid, op, en, en[idx]))
	}
	return s.threads[en[idx]]
}

// finish ends the execution: unfinished threads are woken with the abort flag set and unwind.
//go:norace
func (s *Sched) finish(running *thread) {
	s.aborted = s.Outcome != "done"
	for _, t := range s.threads {
		if !t.done && (running == nil || t != running) {
			setFlag(&t.wake)
		}
	}
	setFlag(&s.finishedFlag)
	if running != nil && !running.done {
		panic(abortSentinel{})
	}
}

// point is called by the running thread before it performs an operation.
//go:norace
func (s *Sched) point(p pending) {
	t := s.cur
	t.pend = p
	next := s.choose(t)
	if next == nil {
		return // unreachable: finish panics for a running unfinished thread
	}
	if next != t {
		s.cur = next
		setFlag(&next.wake)
		waitFlag(&t.wake)
		if s.aborted {
			panic(abortSentinel{})
		}
	}
}

//go:norace
func sched() *Sched {
	s := active
	if s == nil || s.aborted {
		return nil
	}
	return s
}

//go:norace
func unwinding() bool { s := active; return s != nil && s.aborted }

// ---- Mutex ------------------------------------------------------------------------

type Mutex struct {
	real sync.Mutex
	held bool
}

//go:norace
func (m *Mutex) Lock() {
	if unwinding() {
		return
	}
	s := sched()
	if s == nil {
		m.real.Lock()
		return
	}
	s.point(pending{kind: opLock, mu: m})
	m.held = true
	m.real.Lock()
}

//go:norace
func (m *Mutex) Unlock() {
	if unwinding() {
		return
	}
	s := sched()
	if s == nil {
		m.real.Unlock()
		return
	}
	s.point(pending{kind: opUnlock, mu: m})
	if !m.held {
		panic("vsync: unlock of unlocked mutex")
	}
	m.held = false
	m.real.Unlock()
}

//go:norace
func (m *Mutex) unlockNoPoint() { m.held = false; m.real.Unlock() }

// ---- RWMutex -----------------------------------------------------------------------

type RWMutex struct {
	real      sync.RWMutex
	announced bool // a writer announced itself (or holds the lock): new readers block
	writer    bool
	readers   int
}

//go:norace
func (rw *RWMutex) RLock() {
	if unwinding() {
		return
	}
	s := sched()
	if s == nil {
		rw.real.RLock()
		return
	}
	s.point(pending{kind: opRLock, rw: rw})
	rw.readers++
	rw.real.RLock()
}

//go:norace
func (rw *RWMutex) RUnlock() {
	if unwinding() {
		return
	}
	s := sched()
	if s == nil {
		rw.real.RUnlock()
		return
	}
	s.point(pending{kind: opRUnlock, rw: rw})
	if rw.readers <= 0 {
		panic("vsync: RUnlock of unlocked RWMutex")
	}
	rw.readers--
	rw.real.RUnlock()
}

//go:norace
func (rw *RWMutex) Lock() {
	if unwinding() {
		return
	}
	s := sched()
	if s == nil {
		rw.real.Lock()
		return
	}
	s.point(pending{kind: opWAnnounce, rw: rw})
	rw.announced = true
	s.point(pending{kind: opWAcquire, rw: rw})
	rw.writer = true
	rw.real.Lock()
}

//go:norace
func (rw *RWMutex) Unlock() {
	if unwinding() {
		return
	}
	s := sched()
	if s == nil {
		rw.real.Unlock()
		return
	}
	s.point(pending{kind: opUnlock, rw: rw})
	if !rw.writer {
		panic("vsync: Unlock of unlocked RWMutex")
	}
	rw.writer = false
	rw.announced = false
	rw.real.Unlock()
}

//go:norace
func (rw *RWMutex) unlockNoPoint() { rw.writer = false; rw.announced = false; rw.real.Unlock() }

// RLocker mirrors sync.RWMutex.RLocker.
//go:norace
func (rw *RWMutex) RLocker() Locker { return (*rlocker)(rw) }

type rlocker RWMutex

//go:norace
func (r *rlocker) Lock()   { (*RWMutex)(r).RLock() }
//go:norace
func (r *rlocker) Unlock() { (*RWMutex)(r).RUnlock() }

// ---- Cond ----------------------------------------------------------------------------

type Locker interface {
	Lock()
	Unlock()
}

type Cond struct {
	L       Locker
	real    *sync.Cond
	once    sync.Once
	waiters []*thread
}

//go:norace
func NewCond(l Locker) *Cond { return &Cond{L: l} }

//go:norace
func (c *Cond) realCond() *sync.Cond {
	c.once.Do(func() { c.real = sync.NewCond(c.L) })
	return c.real
}

//go:norace
func (c *Cond) Wait() {
	if unwinding() {
		return
	}
	s := sched()
	if s == nil {
		c.realCond().Wait()
		return
	}
	s.point(pending{kind: opWait, cond: c})
	t := s.cur
	// join the wait set *before* releasing the lock, release without a scheduling point in
	// between -- exactly like sync.Cond, otherwise the shim itself would lose wake-ups
	t.signalled = false
	c.waiters = append(c.waiters, t)
	switch l := c.L.(type) {
	case *Mutex:
		l.unlockNoPoint()
	case *RWMutex:
		l.unlockNoPoint()
	default:
		panic("vsync: Cond with an unknown Locker")
	}
	s.point(pending{kind: opWaitSignal, cond: c})
	c.L.Lock()
}

//go:norace
func (c *Cond) Broadcast() {
	if unwinding() {
		return
	}
	s := sched()
	if s == nil {
		c.realCond().Broadcast()
		return
	}
	s.point(pending{kind: opBroadcast, cond: c})
	for _, t := range c.waiters {
		t.signalled = true
	}
	c.waiters = nil
}

//go:norace
func (c *Cond) Signal() {
	if unwinding() {
		return
	}
	s := sched()
	if s == nil {
		c.realCond().Signal()
		return
	}
	s.point(pending{kind: opBroadcast, cond: c})
	if len(c.waiters) > 0 {
		c.waiters[0].signalled = true
		c.waiters = c.waiters[1:]
	}
}

// ---- time and explicit yields ------------------------------------------------------------

// Sleep replaces time.Sleep in rewritten files: under a schedule it is a scheduling
// point (logical time passes, other threads may run); otherwise it really sleeps.
//go:norace
func Sleep(d time.Duration) {
	if unwinding() {
		return
	}
	s := sched()
	if s == nil {
		time.Sleep(d)
		return
	}
	s.cur.sleeps++
	s.point(pending{kind: opSleep})
}

// Yield is an explicit scheduling point for harness code.
//go:norace
func Yield() {
	if unwinding() {
		return
	}
	if s := sched(); s != nil {
		s.point(pending{kind: opYield})
	}
}

// WaitGroup and Once are passed through (the rewritten files do not block on them under a schedule).
type WaitGroup = sync.WaitGroup
type Once = sync.Once

// waitFlag and setFlag hand the token over with plain memory accesses inside norace code, so the
// race detector sees no synchronisation between harness threads other than the program's own
// (GOMAXPROCS must be 1: the hand-over relies on cooperative scheduling of goroutines).
//
//go:norace
func waitFlag(p *int32) {
	for *p == 0 {
		runtime.Gosched()
	}
	*p = 0
}

//go:norace
func setFlag(p *int32) { *p = 1 }
