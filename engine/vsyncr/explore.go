//go:build verif

package vsync

import (
	"fmt"
	"time"
)

// Stats describes one exploration.
type Stats struct {
	Executions int
	Truncated  bool // a cap (executions / deadline) stopped the enumeration early
	MaxPoints  int
	Outcomes   map[string]int // "done" / "deadlock" / "horizon"
	Bound      int
}

// Explore enumerates every schedule of a program that needs at most `bound`
// preemptions (switching away from a thread that could have continued); bound < 0
// means unbounded.  run must build a fresh instance of the program, register its
// threads with s.Go, call s.Run and evaluate its oracle.  The enumeration is the
// deviation-bounded depth-first search of the design: replay a prefix of choices,
// continue with the default policy, then branch on every later point.
//go:norace
func Explore(bound int, maxExec int, deadline time.Time, run func(s *Sched)) Stats {
	st := Stats{Outcomes: map[string]int{}, Bound: bound}
	var rec func(prefix []int)
	rec = func(prefix []int) {
		if st.Truncated {
			return
		}
		if (maxExec > 0 && st.Executions >= maxExec) || (!deadline.IsZero() && time.Now().After(deadline)) {
			st.Truncated = true
			return
		}
		s := New(prefix)
		run(s)
		st.Executions++
		if s.Diverged {
			panic(fmt.Sprintf("HARNESS-NONDETERMINISM: schedule prefix %v could not be replayed", prefix))
		}
		st.Outcomes[s.Outcome]++
		pts := s.Points
		if len(pts) > st.MaxPoints {
			st.MaxPoints = len(pts)
		}
		pre := 0
		for i := 0; i < len(pts); i++ {
			p := pts[i]
			if i >= len(prefix) {
				for alt := 1; alt < len(p.Enabled); alt++ {
					cost := pre
					if p.RunningEnabled {
						cost++
					}
					if bound >= 0 && cost > bound {
						continue
					}
					np := make([]int, i+1)
					for j := 0; j < i; j++ {
						np[j] = pts[j].Chosen
					}
					np[i] = alt
					rec(np)
				}
			}
			if p.RunningEnabled && p.Chosen != 0 {
				pre++
			}
		}
	}
	rec(nil)
	return st
}
