//go:build verif

package localnet

// C05, network tier: a three-node network of REAL robustirc binaries (the repository's own localnet
// launcher: TLS listeners, rafthttp transport, main()'s bootstrap/join code, real election timing)
// on loopback.  Every sequence of the given depth over
//
//	postA     A posts a channel message (retried over the live nodes with the same client message id
//	          until one node answers 200, like the bridge does)
//	retryA    the last message of A is posted once more with the same client message id
//	killL     SIGKILL the current leader        (skipped when that would leave fewer than 2 nodes)
//	killF     SIGKILL the lowest live follower  (ditto)
//	killL+postA  SIGKILL the leader and post at once, while the followers still believe in the dead leader
//	          and proxy to it (the window in which a request can be answered without having been committed)
//	restart   start every dead node again on its data directory
//	crashall  SIGKILL all nodes, then start all of them again
//	snapshot  force a raft snapshot on every live node
//
// is executed; after every operation every live node serves B's complete stream up to a marker posted
// by a sentinel session: acknowledged messages exactly once and in post order, unacknowledged ones at
// most once, the same sequence on every node, and the stream a node served before is a prefix of what
// it serves now.  Elections take real time (2 s election timeout), so this tier enumerates fault
// SEQUENCES exhaustively, not the timing inside them; a wait that exceeds its generous bound makes the
// run inconclusive (reported as a cap, never as a violation).

import (
	"bufio"
	"bytes"
	"context"
	"crypto/tls"
	"crypto/x509"
	"encoding/json"
	"flag"
	"fmt"
	"io"
	"log"
	"net"
	"net/http"
	"os"
	"os/exec"
	"path/filepath"
	"strconv"
	"strings"
	"syscall"
	"testing"
	"time"
)

type cnViol struct {
	Sig   string   `json:"sig"`
	Desc  string   `json:"desc"`
	Prop  string   `json:"prop"`
	Count int      `json:"count"`
	Seq   []string `json:"seq"`
}

type cnResult struct {
	Sequences  int            `json:"sequences"`
	Ops        int            `json:"ops"`
	Retries    int            `json:"retries"`
	Restarts   int            `json:"restarts"`
	Snapshots  int            `json:"snapshots"`
	Kills      int            `json:"kills"`
	Elections  int            `json:"leader_changes"`
	Streams    int            `json:"streams_read"`
	EndStates  map[string]int `json:"end_states"`
	Violations []*cnViol      `json:"violations"`
	Samples    []string       `json:"samples"`
	Depth      int            `json:"depth"`
	HarnessErr string         `json:"harness_error,omitempty"`
}

func (r *cnResult) report(sigs map[string]*cnViol, sig, desc string, seq []string) {
	sig = "C05:" + sig
	if v, ok := sigs[sig]; ok {
		v.Count++
		return
	}
	v := &cnViol{Sig: sig, Desc: desc, Prop: "C05", Count: 1, Seq: append([]string{"net"}, seq...)}
	sigs[sig] = v
	r.Violations = append(r.Violations, v)
}

type cnNode struct {
	cmd  *exec.Cmd
	dir  string
	port int
	live bool
}

type cnSession struct {
	Id   string
	Auth string
}

type cnCluster struct {
	l      *localnet
	nodes  []*cnNode
	client *http.Client
	cmid   uint64
}

const cnConfig = `SessionExpiration = "30m0s"
PostMessageCooloff = "0"
[IRC]
`

func cnFreePorts(start int) int {
	for p := start; p < start+2000; p += 3 {
		ok := true
		for k := 0; k < 3; k++ {
			ln, err := net.Listen("tcp", fmt.Sprintf("localhost:%d", p+k))
			if err != nil {
				ok = false
				break
			}
			ln.Close()
		}
		if ok {
			return p
		}
	}
	return -1
}

func cnStart(dir string, port int) (*cnCluster, error) {
	if err := os.MkdirAll(dir, 0700); err != nil {
		return nil, err
	}
	generatecert(dir)
	cert, err := ReadCertificateFile(filepath.Join(dir, "cert.pem"))
	if err != nil {
		return nil, err
	}
	roots := x509.NewCertPool()
	roots.AddCert(cert)
	client := &http.Client{Transport: &http.Transport{TLSClientConfig: &tls.Config{RootCAs: roots}, MaxIdleConnsPerHost: -1, DisableKeepAlives: true}}
	l := &localnet{dir: dir, RandomPort: port, NetworkPassword: "verifnetworkpw", Httpclient: client}
	flag.Set("tls_ca_file", filepath.Join(dir, "cert.pem"))
	c := &cnCluster{l: l, client: client, cmid: 100}
	for k := 0; k < 3; k++ {
		p := l.RandomPort
		cmd, tempdir, _ := l.StartIRCServer(k == 0)
		c.nodes = append(c.nodes, &cnNode{cmd: cmd, dir: tempdir, port: p, live: true})
	}
	if err := c.waitHealthy(3, 90*time.Second); err != nil {
		return c, err
	}
	return c, nil
}

func (c *cnCluster) url(n *cnNode, path string) string {
	return fmt.Sprintf("https://localhost:%d%s", n.port, path)
}

func (c *cnCluster) do(n *cnNode, method, path string, hdr map[string]string, body string, timeout time.Duration) (int, string, http.Header, error) {
	ctx, cancel := context.WithTimeout(context.Background(), timeout)
	defer cancel()
	req, err := http.NewRequestWithContext(ctx, method, c.url(n, path), strings.NewReader(body))
	if err != nil {
		return 0, "", nil, err
	}
	for k, v := range hdr {
		req.Header.Set(k, v)
	}
	if !strings.HasPrefix(path, "/robustirc/v1/") {
		req.SetBasicAuth("robustirc", c.l.NetworkPassword)
	}
	resp, err := c.client.Do(req)
	if err != nil {
		return 0, "", nil, err
	}
	defer resp.Body.Close()
	b, _ := io.ReadAll(resp.Body)
	return resp.StatusCode, string(b), resp.Header, nil
}

func (c *cnCluster) liveNodes() []*cnNode {
	var out []*cnNode
	for _, n := range c.nodes {
		if n.live {
			out = append(out, n)
		}
	}
	return out
}

// leader returns the node every live node names as leader ("" while they disagree or an election runs).
func (c *cnCluster) leader() *cnNode {
	name := ""
	for _, n := range c.liveNodes() {
		code, body, _, err := c.do(n, "GET", "/leader", nil, "", 5*time.Second)
		if err != nil || code != 200 || body == "" {
			return nil
		}
		if name != "" && body != name {
			return nil
		}
		name = body
	}
	for _, n := range c.liveNodes() {
		if name == fmt.Sprintf("localhost:%d", n.port) {
			return n
		}
	}
	return nil
}

// waitHealthy waits until all live nodes agree on a live leader and that leader's raft configuration
// knows `peers` servers.
func (c *cnCluster) waitHealthy(peers int, d time.Duration) error {
	deadline := time.Now().Add(d)
	for time.Now().Before(deadline) {
		if ld := c.leader(); ld != nil {
			code, body, _, err := c.do(ld, "GET", "/", map[string]string{"Accept": "application/json"}, "", 5*time.Second)
			if err == nil && code == 200 {
				var st struct {
					Peers []string
				}
				if json.Unmarshal([]byte(body), &st) == nil && len(st.Peers) >= peers {
					return nil
				}
				if json.Unmarshal([]byte(body), &st) != nil {
					// status page without JSON: count the peers the page lists
					if strings.Count(body, "localhost:") >= peers {
						return nil
					}
				}
			}
		}
		time.Sleep(200 * time.Millisecond)
	}
	return fmt.Errorf("network not healthy within %v", d)
}

func (c *cnCluster) nextCmid() uint64 {
	c.cmid++
	return (c.cmid*2654435761)%1000003 + 1
}

// post sends one line; it is retried over the live nodes with the same client message id until one
// answers 200 or the time is up (what a bridge does).  Returns whether it was acknowledged.
func (c *cnCluster) post(s cnSession, data string, cmid uint64, d time.Duration) (bool, int) {
	type postReq struct {
		Data            string
		ClientMessageId uint64
	}
	b, _ := json.Marshal(postReq{data, cmid})
	deadline := time.Now().Add(d)
	tries := 0
	for time.Now().Before(deadline) {
		for _, n := range c.liveNodes() {
			tries++
			code, _, _, err := c.do(n, "POST", "/robustirc/v1/"+s.Id+"/message", map[string]string{"X-Session-Auth": s.Auth, "Content-Type": "application/json"}, string(b), 15*time.Second)
			if err == nil && code == 200 {
				return true, tries
			}
		}
		time.Sleep(200 * time.Millisecond)
	}
	return false, tries
}

func (c *cnCluster) createSession(d time.Duration) (cnSession, error) {
	deadline := time.Now().Add(d)
	for time.Now().Before(deadline) {
		for _, n := range c.liveNodes() {
			code, body, _, err := c.do(n, "POST", "/robustirc/v1/session", nil, "", 15*time.Second)
			if err == nil && code == 200 {
				var r struct {
					Sessionid   string
					Sessionauth string
				}
				if json.Unmarshal([]byte(body), &r) == nil && r.Sessionid != "" {
					return cnSession{r.Sessionid, r.Sessionauth}, nil
				}
			}
		}
		time.Sleep(200 * time.Millisecond)
	}
	return cnSession{}, fmt.Errorf("could not create a session within %v", d)
}

type cnMsg struct {
	Id   string
	Data string
}

// stream reads the session's messages from node n (from the beginning) until a line ends in marker.
func (c *cnCluster) stream(n *cnNode, s cnSession, marker string, d time.Duration) ([]cnMsg, error) {
	ctx, cancel := context.WithTimeout(context.Background(), d)
	defer cancel()
	req, _ := http.NewRequestWithContext(ctx, "GET", c.url(n, "/robustirc/v1/"+s.Id+"/messages?lastseen=0.0"), nil)
	req.Header.Set("X-Session-Auth", s.Auth)
	resp, err := c.client.Do(req)
	if err != nil {
		return nil, err
	}
	defer resp.Body.Close()
	if resp.StatusCode != 200 {
		b, _ := io.ReadAll(resp.Body)
		return nil, fmt.Errorf("GET messages: %d %s", resp.StatusCode, bytes.TrimSpace(b))
	}
	var out []cnMsg
	sc := bufio.NewScanner(resp.Body)
	sc.Buffer(make([]byte, 1<<20), 1<<20)
	for sc.Scan() {
		var m struct {
			Id   struct{ Id, Reply uint64 }
			Type int
			Data string
		}
		if err := json.Unmarshal(sc.Bytes(), &m); err != nil {
			continue
		}
		if m.Type == 4 { // robust.Ping
			continue
		}
		if strings.HasSuffix(m.Data, marker) {
			return out, nil
		}
		if strings.Contains(m.Data, "drain-") {
			continue
		}
		d := m.Data
		if strings.Contains(d, " 003 ") {
			d = "<003>"
		}
		out = append(out, cnMsg{fmt.Sprintf("%d.%d", m.Id.Id, m.Id.Reply), d})
	}
	return out, fmt.Errorf("stream ended before the marker: %v", sc.Err())
}

func (c *cnCluster) kill(n *cnNode) {
	n.cmd.Process.Signal(syscall.SIGKILL)
	n.cmd.Wait()
	n.live = false
}

func (c *cnCluster) restart(n *cnNode) error {
	cmd := exec.Command(filepath.Join(n.dir, "restart.sh"))
	cmd.SysProcAttr = &syscall.SysProcAttr{Setpgid: true}
	if err := cmd.Start(); err != nil {
		return err
	}
	n.cmd = cmd
	deadline := time.Now().Add(60 * time.Second)
	for time.Now().Before(deadline) {
		if _, _, _, err := c.do(n, "GET", "/leader", nil, "", 2*time.Second); err == nil {
			n.live = true
			return nil
		}
		time.Sleep(100 * time.Millisecond)
	}
	cmd.Process.Signal(syscall.SIGKILL)
	cmd.Wait()
	tail, _ := os.ReadFile(filepath.Join(n.dir, "stderr.txt"))
	if len(tail) > 600 {
		tail = tail[len(tail)-600:]
	}
	return fmt.Errorf("node on port %d is not reachable 60s after its restart: %s", n.port, tail)
}

func (c *cnCluster) shutdown() {
	for _, n := range c.nodes {
		if n.cmd != nil && n.cmd.Process != nil {
			n.cmd.Process.Signal(syscall.SIGKILL)
			n.cmd.Wait()
		}
	}
}

type cnPosted struct {
	text  string
	cmid  uint64
	acked bool
}

func cnSeqs(alphabet []string, depth int) [][]string {
	var out [][]string
	var rec func(cur []string)
	rec = func(cur []string) {
		if len(cur) == depth {
			out = append(out, append([]string(nil), cur...))
			return
		}
		for _, a := range alphabet {
			rec(append(cur, a))
		}
	}
	rec(nil)
	return out
}

func TestVerifC05Net(t *testing.T) {
	log.SetOutput(io.Discard)
	shard, _ := strconv.Atoi(os.Getenv("VERIF_SHARD"))
	nshards, _ := strconv.Atoi(os.Getenv("VERIF_NSHARDS"))
	if nshards == 0 {
		nshards = 1
	}
	depth := 2
	if os.Getenv("VERIF_TIER") == "thorough" {
		depth = 3
	}
	if d := os.Getenv("VERIF_DEPTH"); d != "" {
		depth, _ = strconv.Atoi(d)
	}
	var deadline time.Time
	if d := os.Getenv("VERIF_DEADLINE"); d != "" {
		sec, _ := strconv.ParseInt(d, 10, 64)
		deadline = time.Unix(sec, 0)
	}
	res := &cnResult{EndStates: map[string]int{}, Depth: depth}
	sigs := map[string]*cnViol{}
	base := t.TempDir()
	seqs := cnSeqs([]string{"postA", "retryA", "killL", "killL+postA", "killF", "restart", "snapshot", "crashall"}, depth)
	if rp := os.Getenv("VERIF_REPLAY"); rp != "" {
		b, _ := os.ReadFile(rp)
		var v cnViol
		json.Unmarshal(b, &v)
		seqs = nil
		if len(v.Seq) > 0 && v.Seq[0] == "net" {
			seqs = [][]string{v.Seq[1:]}
		}
		nshards, shard = 1, 0
	}
	portBase := 10000 + (shard%24)*900
	port := portBase
	for si, seq := range seqs {
		if si%nshards != shard {
			continue
		}
		if !deadline.IsZero() && time.Now().After(deadline) {
			res.HarnessErr = "time cap reached"
			break
		}
		// every sequence starts with a post and ends with one, so that a fault always has something to lose
		// and the network has to make progress after it
		full := append(append([]string{"postA"}, seq...), "postA")
		if port+3 > portBase+800 {
			port = portBase
		}
		port = cnFreePorts(port + 3)
		if port < 0 {
			res.HarnessErr = "HARNESS: no free ports"
			break
		}
		c, err := cnStart(fmt.Sprintf("%s/c%d", base, si), port)
		inconclusive := func(why string) {
			if res.HarnessErr == "" {
				res.HarnessErr = "time cap reached (inconclusive wait: " + why + ")"
			}
		}
		if err != nil {
			if c != nil {
				c.shutdown()
			}
			inconclusive("network start: " + err.Error())
			break
		}
		func() {
			defer c.shutdown()
			if err := c.l.SetConfig(cnConfig); err != nil {
				inconclusive("config: " + err.Error())
				return
			}
			var sess [3]cnSession
			for k, nick := range []string{"a", "b", "v"} {
				s, err := c.createSession(60 * time.Second)
				if err != nil {
					inconclusive(err.Error())
					return
				}
				sess[k] = s
				for _, l := range []string{"NICK " + nick, "USER " + nick + " 0 * :" + nick, "JOIN #c"} {
					if ok, _ := c.post(s, l, c.nextCmid(), 60*time.Second); !ok {
						inconclusive("setup line not acknowledged")
						return
					}
				}
			}
			A, B, V := sess[0], sess[1], sess[2]
			var posted []*cnPosted
			var last *cnPosted
			before := map[int][]cnMsg{}
			drains := 0
			res.Sequences++
			lastLeader := -1
			check := func(after string, oi int) bool {
				drains++
				marker := fmt.Sprintf("drain-%d-%d", si, drains)
				if ok, _ := c.post(V, "PRIVMSG #c :"+marker, c.nextCmid(), 90*time.Second); !ok {
					inconclusive("marker not acknowledged after " + after)
					return false
				}
				var ref []cnMsg
				refPort := 0
				for _, n := range c.liveNodes() {
					msgs, err := c.stream(n, B, marker, 90*time.Second)
					res.Streams++
					if err != nil {
						inconclusive(fmt.Sprintf("node %d did not serve the stream up to the marker after %s: %v", n.port, after, err))
						return false
					}
					prev := before[n.port]
					for k := range prev {
						if k >= len(msgs) || msgs[k] != prev[k] {
							res.report(sigs, "stream served by a node after "+after+" is not an extension of what it served before", fmt.Sprintf("sequence %v, after op %d: node %d, message %d", full, oi, n.port, k), full)
							break
						}
					}
					before[n.port] = msgs
					if ref == nil {
						ref, refPort = msgs, n.port
					} else if fmt.Sprint(ref) != fmt.Sprint(msgs) {
						res.report(sigs, "two nodes deliver different sequences to the same session after "+after, fmt.Sprintf("sequence %v, after op %d: node %d serves %d messages, node %d serves %d", full, oi, refPort, len(ref), n.port, len(msgs)), full)
					}
					var got []string
					for _, m := range msgs {
						// (the IRC library omits the colon of a trailing parameter without spaces)
						if i := strings.Index(m.Data, "PRIVMSG #c "); i >= 0 && strings.Contains(m.Data, "msg-") {
							got = append(got, strings.TrimPrefix(m.Data[i+len("PRIVMSG #c "):], ":"))
						}
					}
					gi := 0
					for _, p := range posted {
						cnt := 0
						for _, g := range got {
							if g == p.text {
								cnt++
							}
						}
						switch {
						case p.acked && cnt == 0:
							res.report(sigs, "acknowledged message is not delivered after "+after, fmt.Sprintf("sequence %v, after op %d: %q (acknowledged) is missing from the stream node %d serves: %v", full, oi, p.text, n.port, got), full)
						case cnt > 1:
							res.report(sigs, "message delivered more than once after "+after, fmt.Sprintf("sequence %v, after op %d: %q %d times on node %d", full, oi, p.text, cnt, n.port), full)
						}
						if cnt >= 1 {
							for gi < len(got) && got[gi] != p.text {
								gi++
							}
							if gi == len(got) {
								res.report(sigs, "messages delivered out of the order they were posted in", fmt.Sprintf("sequence %v, after op %d: node %d: %v", full, oi, n.port, got), full)
							}
						}
					}
				}
				return true
			}
			for oi, op := range full {
				res.Ops++
				switch op {
				case "postA":
					p := &cnPosted{text: fmt.Sprintf("msg-%d-%d", si, oi), cmid: c.nextCmid()}
					p.acked, _ = c.post(A, "PRIVMSG #c :"+p.text, p.cmid, 90*time.Second)
					if !p.acked {
						inconclusive("POST not acknowledged within 90s although a majority is alive")
						return
					}
					posted = append(posted, p)
					last = p
				case "retryA":
					if last == nil {
						continue
					}
					res.Retries++
					if ok, _ := c.post(A, "PRIVMSG #c :"+last.text, last.cmid, 90*time.Second); !ok {
						inconclusive("retry not acknowledged")
						return
					}
				case "killL", "killF", "killL+postA":
					if len(c.liveNodes()) < 3 {
						continue // keep a majority
					}
					if err := c.waitHealthy(1, 60*time.Second); err != nil {
						inconclusive(err.Error())
						return
					}
					ld := c.leader()
					if ld == nil {
						inconclusive("no leader")
						return
					}
					victim := ld
					if op == "killF" {
						for _, n := range c.liveNodes() {
							if n != ld {
								victim = n
								break
							}
						}
					}
					c.kill(victim)
					res.Kills++
					if op == "killL+postA" {
						p := &cnPosted{text: fmt.Sprintf("msg-%d-%d", si, oi), cmid: c.nextCmid()}
						p.acked, _ = c.post(A, "PRIVMSG #c :"+p.text, p.cmid, 90*time.Second)
						if !p.acked {
							inconclusive("POST not acknowledged within 90s after the leader was killed")
							return
						}
						posted = append(posted, p)
						last = p
					}
				case "restart", "crashall":
					if op == "crashall" {
						for _, n := range c.liveNodes() {
							c.kill(n)
							res.Kills++
						}
					}
					for _, n := range c.nodes {
						if !n.live {
							if err := c.restart(n); err != nil {
								res.report(sigs, "node does not come up again after a SIGKILL", fmt.Sprintf("sequence %v, op %d: %v", full, oi, err), full)
								return
							}
							res.Restarts++
						}
					}
				case "snapshot":
					for _, n := range c.liveNodes() {
						if code, body, _, err := c.do(n, "GET", "/snapshot", nil, "", 60*time.Second); err != nil || code != 200 {
							inconclusive(fmt.Sprintf("snapshot request: %v %d %s", err, code, body))
							return
						}
						res.Snapshots++
					}
				}
				if err := c.waitHealthy(1, 90*time.Second); err != nil {
					inconclusive("after " + op + ": " + err.Error())
					return
				}
				if ld := c.leader(); ld != nil && ld.port != lastLeader {
					if lastLeader != -1 {
						res.Elections++
					}
					lastLeader = ld.port
				}
				if !check(op, oi) {
					return
				}
			}
			res.EndStates[fmt.Sprintf("%d posted, %d nodes alive at the end", len(posted), len(c.liveNodes()))]++
			if len(res.Samples) < 2 {
				res.Samples = append(res.Samples, fmt.Sprintf("%v: every live node served the same complete stream after every operation", full))
			}
		}()
		os.RemoveAll(fmt.Sprintf("%s/c%d", base, si))
		if res.HarnessErr != "" {
			break
		}
	}
	b, _ := json.Marshal(res)
	if o := os.Getenv("VERIF_OUT"); o != "" {
		os.WriteFile(o, b, 0644)
	} else {
		fmt.Println(string(b))
	}
}

// TestVerifC05NetQuorum: a leader that has lost its quorum.  Both followers are killed, a POST and -- while it is
// still pending -- its retry (same client message id) are sent to the leader, which cannot commit; then the
// leader is killed as well, the two followers come back, elect a leader and commit something, and finally
// the old leader returns (its uncommitted entry is overwritten).  Whatever was answered with success must be
// served by every node afterwards; a message is never served twice.
func TestVerifC05NetQuorum(t *testing.T) {
	log.SetOutput(io.Discard)
	shard, _ := strconv.Atoi(os.Getenv("VERIF_SHARD"))
	res := &cnResult{EndStates: map[string]int{}}
	sigs := map[string]*cnViol{}
	if shard == 0 {
		func() {
			seq := []string{"quorum-loss"}
			inconclusive := func(why string) {
				if res.HarnessErr == "" {
					res.HarnessErr = "time cap reached (inconclusive wait: " + why + ")"
				}
			}
			port := cnFreePorts(31000)
			if port < 0 {
				res.HarnessErr = "HARNESS: no free ports"
				return
			}
			c, err := cnStart(t.TempDir()+"/q", port)
			if c != nil {
				defer c.shutdown()
			}
			if err != nil {
				inconclusive("network start: " + err.Error())
				return
			}
			if err := c.l.SetConfig(cnConfig); err != nil {
				inconclusive("config: " + err.Error())
				return
			}
			var sess [3]cnSession
			for k, nick := range []string{"a", "b", "v"} {
				s, err := c.createSession(60 * time.Second)
				if err != nil {
					inconclusive(err.Error())
					return
				}
				sess[k] = s
				for _, l := range []string{"NICK " + nick, "USER " + nick + " 0 * :" + nick, "JOIN #c"} {
					if ok, _ := c.post(s, l, c.nextCmid(), 60*time.Second); !ok {
						inconclusive("setup line not acknowledged")
						return
					}
				}
			}
			A, B, V := sess[0], sess[1], sess[2]
			res.Sequences++
			ld := c.leader()
			if ld == nil {
				inconclusive("no leader")
				return
			}
			var followers []*cnNode
			for _, n := range c.liveNodes() {
				if n != ld {
					followers = append(followers, n)
				}
			}
			for _, f := range followers {
				c.kill(f)
				res.Kills++
			}
			text := "msg-without-quorum"
			cmid := c.nextCmid()
			body, _ := json.Marshal(struct {
				Data            string
				ClientMessageId uint64
			}{"PRIVMSG #c :" + text, cmid})
			hdr := map[string]string{"X-Session-Auth": A.Auth, "Content-Type": "application/json"}
			first := make(chan int, 1)
			go func() {
				code, _, _, err := c.do(ld, "POST", "/robustirc/v1/"+A.Id+"/message", hdr, string(body), 25*time.Second)
				if err != nil {
					code = -1
				}
				first <- code
			}()
			time.Sleep(time.Second)
			retryCode, _, _, rerr := c.do(ld, "POST", "/robustirc/v1/"+A.Id+"/message", hdr, string(body), 20*time.Second)
			if rerr != nil {
				retryCode = -1
			}
			res.Retries++
			firstCode := <-first
			acked := firstCode == 200 || retryCode == 200
			res.EndStates[fmt.Sprintf("without quorum: first attempt -> %d, retry while it is pending -> %d", firstCode, retryCode)]++
			c.kill(ld)
			res.Kills++
			for _, f := range followers {
				if err := c.restart(f); err != nil {
					inconclusive(err.Error())
					return
				}
				res.Restarts++
			}
			if err := c.waitHealthy(1, 90*time.Second); err != nil {
				inconclusive(err.Error())
				return
			}
			if ok, _ := c.post(V, "PRIVMSG #c :committed-by-the-new-leader", c.nextCmid(), 90*time.Second); !ok {
				inconclusive("the two restarted nodes do not accept a message")
				return
			}
			if err := c.restart(ld); err != nil {
				inconclusive(err.Error())
				return
			}
			res.Restarts++
			if err := c.waitHealthy(1, 90*time.Second); err != nil {
				inconclusive(err.Error())
				return
			}
			marker := "drain-quorum-loss"
			if ok, _ := c.post(V, "PRIVMSG #c :"+marker, c.nextCmid(), 90*time.Second); !ok {
				inconclusive("marker not acknowledged")
				return
			}
			for _, n := range c.liveNodes() {
				msgs, err := c.stream(n, B, marker, 90*time.Second)
				res.Streams++
				if err != nil {
					inconclusive(fmt.Sprintf("node %d did not serve the stream: %v", n.port, err))
					return
				}
				cnt := 0
				for _, m := range msgs {
					if strings.Contains(m.Data, text) {
						cnt++
					}
				}
				switch {
				case acked && cnt == 0:
					res.report(sigs, "a message acknowledged by a leader without quorum is lost", fmt.Sprintf("first attempt answered %d, the retry sent while it was pending answered %d; after the old leader's log was overwritten node %d does not serve the message", firstCode, retryCode, n.port), seq)
				case cnt > 1:
					res.report(sigs, "message delivered more than once after a quorum loss", fmt.Sprintf("%d times on node %d", cnt, n.port), seq)
				}
			}
			res.Ops++
		}()
	}
	b, _ := json.Marshal(res)
	if o := os.Getenv("VERIF_OUT"); o != "" {
		os.WriteFile(o, b, 0644)
	} else {
		fmt.Println(string(b))
	}
}

// TestVerifC17Net (C17): the expiry sweep is a loop in main() -- it exists in the real binary only.  Three real
// nodes, SessionExpiration 3 s.  (1) an idle session is expired by the first leader; (2) the leader is killed
// after the followers have been running for longer than one sweep interval, a new leader is elected, and a
// session that goes idle then is expired as well: the sweep has to run on whichever node is leader NOW.
// Bounds are generous (75 s for something that takes one sweep interval of 10 s plus 3 s); exceeding them
// without any other sign is reported, since "is never expired" has no earlier symptom.
func TestVerifC17Net(t *testing.T) {
	log.SetOutput(io.Discard)
	shard, _ := strconv.Atoi(os.Getenv("VERIF_SHARD"))
	res := &cnResult{EndStates: map[string]int{}}
	sigs := map[string]*cnViol{}
	if shard == 0 {
		func() {
			inconclusive := func(why string) {
				if res.HarnessErr == "" {
					res.HarnessErr = "time cap reached (inconclusive wait: " + why + ")"
				}
			}
			port := cnFreePorts(31600)
			if port < 0 {
				res.HarnessErr = "HARNESS: no free ports"
				return
			}
			c, err := cnStart(t.TempDir()+"/e", port)
			if c != nil {
				defer c.shutdown()
			}
			if err != nil {
				inconclusive("network start: " + err.Error())
				return
			}
			started := time.Now()
			if err := c.l.SetConfig("SessionExpiration = \"3s\"\nPostMessageCooloff = \"0\"\n[IRC]\n"); err != nil {
				inconclusive("config: " + err.Error())
				return
			}
			res.Sequences++
			// gone reports how long it takes until every live node answers 404 for the session (0: not within d)
			gone := func(s cnSession, d time.Duration) time.Duration {
				t0 := time.Now()
				for time.Since(t0) < d {
					all := true
					for _, n := range c.liveNodes() {
						// (reading the stream is not activity; for a live session the request streams until the timeout)
						sc, _, _, e2 := c.do(n, "GET", "/robustirc/v1/"+s.Id+"/messages?lastseen=0.0", map[string]string{"X-Session-Auth": s.Auth}, "", 1500*time.Millisecond)
						if e2 != nil || sc != 404 {
							all = false // still streaming (timeout) or not yet seen
						}
					}
					if all {
						return time.Since(t0)
					}
					time.Sleep(time.Second)
				}
				return 0
			}
			s1, err := c.createSession(60 * time.Second)
			if err != nil {
				inconclusive(err.Error())
				return
			}
			d1 := gone(s1, 75*time.Second)
			res.Ops++
			if d1 == 0 {
				res.report(sigs, "an idle session is not expired by the first leader within 75 s (expiration 3 s)", "session created, never used", []string{"c17net"})
				return
			}
			res.EndStates[fmt.Sprintf("first leader expires an idle session")]++
			// let every node pass at least one sweep interval in its current role
			if w := 14*time.Second - time.Since(started); w > 0 {
				time.Sleep(w)
			}
			ld := c.leader()
			if ld == nil {
				inconclusive("no leader")
				return
			}
			c.kill(ld)
			res.Kills++
			if err := c.waitHealthy(1, 90*time.Second); err != nil {
				inconclusive(err.Error())
				return
			}
			res.Elections++
			s2, err := c.createSession(60 * time.Second)
			if err != nil {
				inconclusive(err.Error())
				return
			}
			d2 := gone(s2, 75*time.Second)
			res.Ops++
			if d2 == 0 {
				res.report(sigs, "after a leader change idle sessions are not expired any more", fmt.Sprintf("the first leader expired an idle session after %v; the leader was killed, a new one elected; a session created then and never used still exists on the live nodes 75 s later (expiration 3 s, sweep interval 10 s)", d1.Round(time.Second)), []string{"c17net"})
				return
			}
			res.EndStates["the new leader expires an idle session"]++
		}()
	}
	b, _ := json.Marshal(res)
	if o := os.Getenv("VERIF_OUT"); o != "" {
		os.WriteFile(o, b, 0644)
	} else {
		fmt.Println(string(b))
	}
}
