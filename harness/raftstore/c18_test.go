//go:build verif

package raftstore

// C18 part 2 (store level): raft log entries written by the real LevelDB store in every encoding
// and read back by every reader that lives below package main.
//
// Grid (full cartesian product): Index x Term x Type x Data x Extensions x AppendedAt, written by
//   W1 StoreLogs of a JSON store (useProtobuf=false)
//   W2 StoreLogs of a protobuf store (useProtobuf=true)
//   W3 StoreLogProto with the pb.RaftLog that FSM.Apply builds
//   W4 W1 followed by re-opening the store with useProtobuf=true (ConvertToProto re-encodes the
//      entry and, for commands, the message inside through CopyToProtoMessage)
// and read by
//   R1 GetLog (into a fresh and into a reused raft.Log)
//   R2 raftlog.FromBytes on the raw value from GetBulkIterator (also: key == big-endian index)
// Oracle: every reader returns the entry that was written: index, term, type, data bytes,
// extensions, append time (time.Time.Equal).  For W4 the message inside a command entry is
// compared after decoding (robust.NewMessageFromBytes with the entry's index).

import (
	"bytes"
	"crypto/sha1"
	"encoding/binary"
	"encoding/json"
	"fmt"
	"math"
	"os"
	"path/filepath"
	"strconv"
	"strings"
	"testing"
	"time"

	"github.com/golang/protobuf/proto"
	"github.com/hashicorp/raft"
	"github.com/robustirc/robustirc/internal/raftlog"
	"github.com/robustirc/robustirc/internal/robust"
	"google.golang.org/protobuf/types/known/timestamppb"

	pb "github.com/robustirc/robustirc/internal/proto"
)

type vC18Violation struct {
	Sig   string `json:"sig"`
	Desc  string `json:"desc"`
	Prop  string `json:"prop"`
	Count int    `json:"count"`
	Input string `json:"input,omitempty"`
}

type vC18Result struct {
	Part        string           `json:"part"`
	GridSize    int              `json:"grid_size"`
	Entries     int              `json:"entries_written"`
	Reads       int              `json:"reads_compared"`
	Converted   int              `json:"entries_converted"`
	Evaluations int              `json:"evaluations"`
	Distinct    int              `json:"distinct_values"`
	Nontrivial  int              `json:"distinct_nontrivial"`
	Dims        map[string]int   `json:"dims"`
	Violations  []*vC18Violation `json:"violations"`
	Samples     []string         `json:"samples"`
}

func vC18Messages(thorough bool) []robust.Message {
	long := strings.Repeat("PRIVMSG #chan :0123456789abcdef ", 19)[:600]
	msgs := []robust.Message{
		{Type: robust.CreateSession, Data: "auth-x"},
		{Type: robust.CreateSession, Id: robust.Id{Id: math.MaxUint64}, Data: "é☃", UnixNano: 1},
		{Type: robust.IRCFromClient, Session: robust.Id{Id: 0x1122334455667788}, Data: "PRIVMSG #c :say \"hi\", \\ back\x00slash", ClientMessageId: 1, RemoteAddr: "192.0.2.7:1234"},
		{Type: robust.IRCFromClient, Id: robust.Id{Id: 1 << 50}, Session: robust.Id{Id: 3}, Data: long, UnixNano: math.MaxInt64, ClientMessageId: math.MaxUint64, RemoteAddr: "[2001:db8::1]:54321"},
		{Type: robust.Ping, Servers: []string{"a.example:60667", "", "[2001:db8::3]:443"}, Currentmaster: "a.example:60667", UnixNano: math.MaxInt64},
		{Type: robust.Config, Data: "pnot-a-config", Revision: math.MaxUint64, UnixNano: 1},
		{Type: robust.DeleteSession, Id: robust.Id{Id: 1}, Session: robust.Id{Id: 5}, Data: "bye"},
		{Type: robust.MessageOfDeath, Session: robust.Id{Id: 3}, ClientMessageId: 1, Data: "JOIN #x"},
		{Type: robust.IRCToClient, Id: robust.Id{Id: 7, Reply: 5}, Data: ""},
		{Type: robust.Any, Id: robust.Id{Id: 0, Reply: 5}, Session: robust.Id{Id: 0x40826d776b433c17, Reply: 3}, Data: "x"},
		{Type: robust.State, Data: "cGxhaW4="},
		{},
	}
	if thorough {
		for t := robust.CreateSession; t <= robust.Any; t++ {
			for _, id := range []uint64{0, math.MaxUint64} {
				for _, d := range []string{"", "é☃ <&>", "p\"\\\x00"} {
					msgs = append(msgs, robust.Message{Type: t, Id: robust.Id{Id: id, Reply: id & 5}, Session: robust.Id{Id: id ^ 0x55}, Data: d,
						UnixNano: int64(id >> 1), Servers: []string{d}, ClientMessageId: id, Revision: id, RemoteAddr: d, Currentmaster: d})
				}
			}
		}
	}
	return msgs
}

func vC18ProtoMsg(m *robust.Message) []byte {
	b, err := proto.Marshal(m.ProtoMessage())
	if err != nil {
		panic(err)
	}
	return append([]byte{'p'}, b...)
}

func vC18JSONMsg(m *robust.Message) []byte {
	b, err := json.Marshal(m)
	if err != nil {
		panic(err)
	}
	return b
}

type vC18Data struct {
	name  string
	b     []byte
	isMsg bool
}

type vC18Spec struct {
	term uint64
	typ  raft.LogType
	data vC18Data
	ext  []byte
	at   time.Time
}

func (s *vC18Spec) log(index uint64) *raft.Log {
	return &raft.Log{Index: index, Term: s.term, Type: s.typ, Data: s.data.b, Extensions: s.ext, AppendedAt: s.at}
}

func vC18Bytes(b []byte) string {
	if b == nil {
		return "nil"
	}
	if len(b) > 40 {
		return fmt.Sprintf("%q...(%d bytes)", b[:28], len(b))
	}
	return fmt.Sprintf("%q", b)
}

func vC18ShowLog(l *raft.Log) string {
	return fmt.Sprintf("{Index:%d Term:%d Type:%d Data:%s Extensions:%s AppendedAt:%s}", l.Index, l.Term, l.Type, vC18Bytes(l.Data), vC18Bytes(l.Extensions), l.AppendedAt.Format(time.RFC3339Nano))
}

// vC18DiffLog returns the names of the fields in which got differs from want.
func vC18DiffLog(got, want *raft.Log, skipData bool) []string {
	var f []string
	if got.Index != want.Index {
		f = append(f, "Index")
	}
	if got.Term != want.Term {
		f = append(f, "Term")
	}
	if got.Type != want.Type {
		f = append(f, "Type")
	}
	if !skipData && !bytes.Equal(got.Data, want.Data) {
		f = append(f, "Data")
	}
	if !bytes.Equal(got.Extensions, want.Extensions) {
		f = append(f, "Extensions")
	}
	if !got.AppendedAt.Equal(want.AppendedAt) {
		f = append(f, "AppendedAt")
	}
	return f
}

func vC18DiffMsg(got, want *robust.Message) []string {
	var f []string
	if got.Id != want.Id {
		f = append(f, "Id")
	}
	if got.Session != want.Session {
		f = append(f, "Session")
	}
	if got.Type != want.Type {
		f = append(f, "Type")
	}
	if got.Data != want.Data {
		f = append(f, "Data")
	}
	if got.UnixNano != want.UnixNano {
		f = append(f, "UnixNano")
	}
	if strings.Join(got.Servers, "\x01") != strings.Join(want.Servers, "\x01") || len(got.Servers) != len(want.Servers) {
		f = append(f, "Servers")
	}
	if got.Currentmaster != want.Currentmaster {
		f = append(f, "Currentmaster")
	}
	if got.ClientMessageId != want.ClientMessageId {
		f = append(f, "ClientMessageId")
	}
	if got.Revision != want.Revision {
		f = append(f, "Revision")
	}
	if got.RemoteAddr != want.RemoteAddr {
		f = append(f, "RemoteAddr")
	}
	return f
}

type vC18Ctx struct {
	t      *testing.T
	res    *vC18Result
	sigs   map[string]*vC18Violation
	seen   map[[sha1.Size]byte]struct{}
	reused raft.Log
}

func (c *vC18Ctx) report(sig, desc string, l *raft.Log) {
	sig = "C18:" + sig
	if v, ok := c.sigs[sig]; ok {
		v.Count++
		return
	}
	v := &vC18Violation{Sig: sig, Desc: desc, Prop: "C18", Count: 1, Input: vC18ShowLog(l)}
	c.sigs[sig] = v
	c.res.Violations = append(c.res.Violations, v)
}

// readers runs R1 (fresh + reused) and R2 on index and compares with want.
// conv: the entry went through ConvertToProto (message compared after decoding).
func (c *vC18Ctx) readers(s *LevelDBStore, writer string, want *raft.Log, conv bool) {
	type rd struct {
		name string
		l    *raft.Log
		err  error
	}
	var rds []rd
	var fresh raft.Log
	err := s.GetLog(want.Index, &fresh)
	rds = append(rds, rd{"GetLog", &fresh, err})
	err = s.GetLog(want.Index, &c.reused)
	cp := c.reused
	rds = append(rds, rd{"GetLog (reused raft.Log)", &cp, err})
	it := s.GetBulkIterator(want.Index, want.Index+1)
	if !it.First() {
		c.report("GetBulkIterator does not find a stored entry", fmt.Sprintf("written by %s: %s", writer, vC18ShowLog(want)), want)
	} else {
		var key [8]byte
		binary.BigEndian.PutUint64(key[:], want.Index)
		if !bytes.Equal(it.Key(), key[:]) {
			c.report("store key is not the big-endian index", fmt.Sprintf("written by %s: %s stored under key %x", writer, vC18ShowLog(want), it.Key()), want)
		}
		raw := append([]byte(nil), it.Value()...)
		if len(want.Data) > 0 {
			h := sha1.Sum(raw)
			if _, ok := c.seen[h]; !ok {
				c.seen[h] = struct{}{}
				c.res.Distinct++
				c.res.Nontrivial++
			}
		}
		l, err := raftlog.FromBytes(raw)
		if l == nil {
			l = &raft.Log{}
		}
		rds = append(rds, rd{"raftlog.FromBytes", l, err})
		if it.Next() {
			c.report("GetBulkIterator returns more than the requested range", fmt.Sprintf("range [%d,%d) after %s", want.Index, want.Index+1, writer), want)
		}
	}
	it.Release()
	for _, r := range rds {
		c.res.Reads++
		c.res.Evaluations++
		if r.err != nil {
			c.report(r.name+" fails on an entry written by "+writer, fmt.Sprintf("entry %s: %v", vC18ShowLog(want), r.err), want)
			continue
		}
		cmdConv := conv && want.Type == raft.LogCommand
		for _, f := range vC18DiffLog(r.l, want, cmdConv) {
			c.report(fmt.Sprintf("%s of an entry written by %s differs in %s", r.name, writer, f), fmt.Sprintf("stored %s, read %s", vC18ShowLog(want), vC18ShowLog(r.l)), want)
		}
		if cmdConv {
			if len(r.l.Data) == 0 || r.l.Data[0] != 'p' {
				c.report("ConvertToProto leaves a command without protobuf payload", fmt.Sprintf("stored %s, read %s via %s", vC18ShowLog(want), vC18ShowLog(r.l), r.name), want)
				continue
			}
			wm := robust.NewMessageFromBytes(want.Data, robust.IdFromRaftIndex(want.Index))
			gm := robust.NewMessageFromBytes(r.l.Data, robust.IdFromRaftIndex(want.Index))
			for _, f := range vC18DiffMsg(&gm, &wm) {
				c.report("message inside an entry converted by ConvertToProto differs in "+f, fmt.Sprintf("stored %s: message before %+v, after conversion (read by %s) %+v", vC18ShowLog(want), wm, r.name, gm), want)
			}
		}
	}
	// all readers agree with each other as well (implied by the above when nothing was reported)
}

func vC18PbLog(l *raft.Log) *pb.RaftLog {
	// exactly what (*FSM).Apply builds
	return &pb.RaftLog{
		Index:      l.Index,
		Term:       l.Term,
		Type:       pb.RaftLog_LogType(l.Type),
		Data:       l.Data,
		Extensions: l.Extensions,
		AppendedAt: timestamppb.New(l.AppendedAt),
	}
}

func vC18Raw(s *LevelDBStore, index uint64) []byte {
	it := s.GetBulkIterator(index, index+1)
	defer it.Release()
	if !it.First() {
		return nil
	}
	return append([]byte(nil), it.Value()...)
}

func TestVerifC18Store(t *testing.T) {
	shard, _ := strconv.Atoi(os.Getenv("VERIF_SHARD"))
	nshards, _ := strconv.Atoi(os.Getenv("VERIF_NSHARDS"))
	if nshards == 0 {
		nshards = 1
	}
	thorough := os.Getenv("VERIF_TIER") == "thorough"

	indexes := []uint64{1, 7, 1 << 40}
	terms := []uint64{0, 3}
	types := []raft.LogType{raft.LogCommand, raft.LogNoop, raft.LogAddPeerDeprecated, raft.LogRemovePeerDeprecated, raft.LogBarrier, raft.LogConfiguration}
	exts := [][]byte{nil, {1, 2, 0, 255}, {}}
	times := []time.Time{{}, time.Date(2024, 2, 29, 23, 59, 59, 999999999, time.UTC), time.Date(2031, 7, 1, 12, 0, 0, 5, time.FixedZone("", 2*3600+1800))}
	if thorough {
		indexes = append(indexes, 2, 1<<32, 1<<63)
		terms = append(terms, math.MaxUint64)
		exts = append(exts, []byte("p{\"json\":1}"))
		times = append(times, time.Unix(-1, 1))
	}
	var msgData, otherData []vC18Data
	for i, m := range vC18Messages(thorough) {
		m := m
		msgData = append(msgData, vC18Data{fmt.Sprintf("protobuf message %d", i), vC18ProtoMsg(&m), true})
		msgData = append(msgData, vC18Data{fmt.Sprintf("JSON message %d", i), vC18JSONMsg(&m), true})
	}
	msgData = append(msgData, vC18Data{"empty", nil, false})
	otherData = append(otherData,
		vC18Data{"'p' + bytes that are not a message", []byte("p\x00\xff\xfe not a message"), false},
		vC18Data{"msgpack-like configuration", []byte("\x81\xa7Servers\x91\x83\xa8Suffrage\x00\xa2ID\xa1a\xa7Address\xa1b"), false})

	var specs []vC18Spec
	for _, term := range terms {
		for _, typ := range types {
			ds := msgData
			if typ != raft.LogCommand {
				ds = append(append([]vC18Data(nil), msgData...), otherData...)
			}
			for _, d := range ds {
				for _, e := range exts {
					for _, at := range times {
						specs = append(specs, vC18Spec{term, typ, d, e, at})
					}
				}
			}
		}
	}
	N := len(specs) * len(indexes) * 3
	res := &vC18Result{Part: "store", GridSize: N, Dims: map[string]int{
		"indexes": len(indexes), "terms": len(terms), "types": len(types), "data_command": len(msgData), "data_other": len(msgData) + len(otherData),
		"extensions": len(exts), "append_times": len(times), "writers": 4,
	}}
	c := &vC18Ctx{t: t, res: res, sigs: map[string]*vC18Violation{}, seen: map[[sha1.Size]byte]struct{}{}}

	tmp := t.TempDir()
	open := func(name string, pbuf bool) *LevelDBStore {
		s, err := NewLevelDBStore(filepath.Join(tmp, name), false, pbuf)
		if err != nil {
			t.Fatal(err)
		}
		return s
	}
	sJSON := open("single-json", false)
	sPB := open("single-pb", true)
	sPB3 := open("single-pb3", true)

	lo, hi := shard*len(specs)/nshards, (shard+1)*len(specs)/nshards
	mine := specs[lo:hi]

	// ---- single entries: Index x spec x {W1,W2,W3}
	for si := range mine {
		sp := &mine[si]
		for _, index := range indexes {
			want := sp.log(index)
			// W1
			if err := sJSON.StoreLogs([]*raft.Log{sp.log(index)}); err != nil {
				c.report("StoreLogs (JSON) fails", fmt.Sprintf("%s: %v", vC18ShowLog(want), err), want)
			} else {
				res.Entries++
				c.readers(sJSON, "StoreLogs (JSON store)", want, false)
			}
			// W2
			if err := sPB.StoreLogs([]*raft.Log{sp.log(index)}); err != nil {
				c.report("StoreLogs (protobuf) fails", fmt.Sprintf("%s: %v", vC18ShowLog(want), err), want)
			} else {
				res.Entries++
				c.readers(sPB, "StoreLogs (protobuf store)", want, false)
			}
			// W3
			if err := sPB3.StoreLogProto(vC18PbLog(want)); err != nil {
				c.report("StoreLogProto fails", fmt.Sprintf("%s: %v", vC18ShowLog(want), err), want)
			} else {
				res.Entries++
				c.readers(sPB3, "StoreLogProto", want, false)
				res.Evaluations++
				if a, b := vC18Raw(sPB, index), vC18Raw(sPB3, index); !bytes.Equal(a, b) {
					c.report("StoreLogs (protobuf) and StoreLogProto write different values", fmt.Sprintf("%s: StoreLogs %x, StoreLogProto %x", vC18ShowLog(want), a, b), want)
				}
			}
			for _, s := range []*LevelDBStore{sJSON, sPB, sPB3} {
				if err := s.DeleteRange(index, index); err != nil {
					t.Fatal(err)
				}
			}
			if len(res.Samples) < 2 && index == 1<<40 && sp.ext != nil && !sp.at.IsZero() && sp.data.isMsg && si >= len(mine)/2 {
				res.Samples = append(res.Samples, fmt.Sprintf("entry %s (%s) written by StoreLogs(JSON), StoreLogs(protobuf), StoreLogProto; read by GetLog, GetLog(reused), raftlog.FromBytes(bulk iterator value)", vC18ShowLog(want), sp.data.name))
			}
		}
	}

	// ---- batches: all specs of the shard in ONE StoreLogs call per store (the encoder reuses its
	// pb.RaftLog across entries), consecutive indexes from two bases; then ConvertToProto on the JSON store.
	for bi, base := range []uint64{1, 1 << 40} {
		var all, eligible []*raft.Log
		for si := range mine {
			sp := &mine[si]
			all = append(all, sp.log(base+uint64(si)))
			if sp.typ != raft.LogCommand || sp.data.isMsg {
				eligible = append(eligible, sp.log(base+uint64(len(eligible))))
			}
		}
		clone := func(ls []*raft.Log) []*raft.Log {
			out := make([]*raft.Log, len(ls))
			for i, l := range ls {
				cp := *l
				out[i] = &cp
			}
			return out
		}
		bj := open(fmt.Sprintf("batch-json-%d", bi), false)
		bp := open(fmt.Sprintf("batch-pb-%d", bi), true)
		if err := bj.StoreLogs(clone(all)); err != nil {
			t.Fatal(err)
		}
		if err := bp.StoreLogs(clone(all)); err != nil {
			t.Fatal(err)
		}
		for _, want := range all {
			res.Entries += 2
			c.readers(bj, "StoreLogs (JSON store, batch)", want, false)
			c.readers(bp, "StoreLogs (protobuf store, batch)", want, false)
		}
		bj.Close()
		bp.Close()
		// conversion
		dir := fmt.Sprintf("conv-%d", bi)
		cj := open(dir, false)
		if err := cj.StoreLogs(clone(eligible)); err != nil {
			t.Fatal(err)
		}
		cj.Close()
		var cp *LevelDBStore
		func() {
			defer func() {
				if p := recover(); p != nil {
					c.report("ConvertToProto panics on a store written by StoreLogs (JSON)", fmt.Sprintf("%d entries from index %d: %v", len(eligible), base, p), &raft.Log{})
				}
			}()
			cp = open(dir, true)
		}()
		if cp != nil {
			for _, want := range eligible {
				res.Converted++
				c.readers(cp, "StoreLogs (JSON store) + ConvertToProto", want, true)
				res.Evaluations++
				if raw := vC18Raw(cp, want.Index); len(raw) == 0 || raw[0] != 'p' {
					c.report("ConvertToProto leaves a JSON-encoded entry", fmt.Sprintf("entry %s is stored as %s", vC18ShowLog(want), vC18Bytes(raw)), want)
				}
			}
			cp.Close()
			if len(res.Samples) < 3 && len(eligible) > 0 {
				res.Samples = append(res.Samples, fmt.Sprintf("batch of %d entries from index %d written by one StoreLogs call (JSON and protobuf store), %d of them re-encoded by ConvertToProto, e.g. %s", len(all), base, len(eligible), vC18ShowLog(eligible[len(eligible)/2])))
			}
		}
	}
	sJSON.Close()
	sPB.Close()
	sPB3.Close()

	b, _ := json.Marshal(res)
	if out := os.Getenv("VERIF_OUT"); out != "" {
		os.WriteFile(out, b, 0644)
	} else {
		fmt.Println(string(b))
	}
}
