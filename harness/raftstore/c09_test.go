//go:build verif

package raftstore

// C09: the LevelDB-backed raft log/stable store against a plain in-memory map.
//
// TestVerifC09Seq   enumerates every operation sequence of a fixed length over a small
//                   alphabet (stores, range deletions, stable writes, close/reopen in
//                   JSON or protobuf encoding) from both initial encodings; after every
//                   operation the whole observable surface of the real store is read
//                   back and compared with the model.
// TestVerifC09Crash for shorter sequences: a copy of the database directory at every
//                   operation boundary (what SIGKILL leaves behind) is reopened and
//                   compared; for the last operation the journal is additionally cut
//                   at every byte the operation appended.

import (
	"bytes"
	"encoding/binary"
	"encoding/json"
	"errors"
	"fmt"
	"hash/fnv"
	"io"
	"log"
	"os"
	"path/filepath"
	"reflect"
	"sort"
	"strconv"
	"strings"
	"testing"
	"time"

	"github.com/golang/protobuf/proto"
	"github.com/hashicorp/raft"
	"github.com/robustirc/robustirc/internal/raftlog"
	"github.com/robustirc/robustirc/internal/robust"
	"google.golang.org/protobuf/types/known/timestamppb"

	pb "github.com/robustirc/robustirc/internal/proto"
)

// ---------------------------------------------------------------- model

type v9Entry struct {
	Index, Term uint64
	Type        raft.LogType
	Data, Ext   []byte
	At          time.Time
	conv        bool // a JSON->protobuf conversion ran after this (command) entry was stored
}

type v9Model struct {
	entries map[uint64]*v9Entry
	stable  map[string][]byte
	proto   bool
}

func v9NewModel(proto bool) *v9Model {
	return &v9Model{entries: map[uint64]*v9Entry{}, stable: map[string][]byte{}, proto: proto}
}

func (m *v9Model) clone() *v9Model {
	c := v9NewModel(m.proto)
	for k, e := range m.entries {
		ce := *e
		c.entries[k] = &ce
	}
	for k, v := range m.stable {
		c.stable[k] = v
	}
	return c
}

func (m *v9Model) indexes() []uint64 {
	var out []uint64
	for k := range m.entries {
		out = append(out, k)
	}
	sort.Slice(out, func(i, j int) bool { return out[i] < out[j] })
	return out
}

func (m *v9Model) hash() uint64 {
	h := fnv.New64a()
	fmt.Fprintf(h, "proto=%v|", m.proto)
	for _, i := range m.indexes() {
		e := m.entries[i]
		fmt.Fprintf(h, "%d:%d:%d:%x:%x:%d:%v|", e.Index, e.Term, e.Type, e.Data, e.Ext, e.At.UnixNano(), e.conv)
	}
	var ks []string
	for k := range m.stable {
		ks = append(ks, k)
	}
	sort.Strings(ks)
	for _, k := range ks {
		fmt.Fprintf(h, "%x=%x|", k, m.stable[k])
	}
	return h.Sum64()
}

// ---------------------------------------------------------------- alphabet

const (
	v9I40 = uint64(1) << 40
	v9I63 = uint64(1) << 63
)

func v9be(x uint64) []byte {
	b := make([]byte, 8)
	binary.BigEndian.PutUint64(b, x)
	return b
}

// indexes read back after every operation: the alphabet plus indexes never stored
// (0, a gap, a neighbour of a large one, and the index whose key is "stablest")
var v9ReadIdx = []uint64{0, 1, 2, 3, 4, 7, v9I40, v9I40 + 1, 0x737461626c657374, v9I63}

var v9StableKeys = [][]byte{[]byte("CurrentTerm"), []byte("LastVoteCand"), []byte("LastVoteTerm"), v9be(7), v9be(v9I63)}

type v9Op struct {
	Kind string // StoreLog, StoreLogs, StoreLogProto, DeleteRange, Set, SetUint64, Reopen
	Name string
	logs []*raft.Log
	min  uint64
	max  uint64
	key  []byte
	val  []byte
	u64  uint64
	toPB bool
}

func v9ProtoMsg(m *robust.Message) []byte {
	b, err := proto.Marshal(m.ProtoMessage())
	if err != nil {
		panic(err)
	}
	return append([]byte{'p'}, b...)
}

func v9JSONMsg(m *robust.Message) []byte {
	b, err := json.Marshal(m)
	if err != nil {
		panic(err)
	}
	return b
}

func v9TypeName(t raft.LogType) string { return t.String() }

func v9DescLog(l *raft.Log) string {
	pl := "empty"
	switch {
	case len(l.Data) == 0:
	case l.Type == raft.LogCommand && l.Data[0] == 'p':
		pl = "protobuf-msg"
	case l.Type == raft.LogCommand:
		pl = "json-msg"
	case l.Data[0] == 'p':
		pl = "opaque-p-bytes"
	default:
		pl = "opaque-bytes"
	}
	at := "zero"
	if !l.AppendedAt.IsZero() {
		at = "set"
	}
	return fmt.Sprintf("{idx=%d term=%d %s payload=%s(%dB) ext=%dB at=%s}", l.Index, l.Term, v9TypeName(l.Type), pl, len(l.Data), len(l.Extensions), at)
}

func v9Alphabet() (full []*v9Op, core []int) {
	t1 := time.Date(2024, 2, 29, 12, 34, 56, 123456789, time.FixedZone("", 3600))
	t2 := time.Unix(1700000000, 999999999)
	var zero time.Time
	mA := v9ProtoMsg(&robust.Message{Id: robust.Id{Id: 1}, Session: robust.Id{Id: 1}, Type: robust.IRCFromClient, Data: "NICK alice", UnixNano: 1700000000000000001, ClientMessageId: 42, RemoteAddr: "[::1]:1234"})
	mB := v9JSONMsg(&robust.Message{Session: robust.Id{Id: 1}, Type: robust.IRCFromClient, Data: "PRIVMSG #c :hällo \"q\"", UnixNano: 1700000000000000002, ClientMessageId: 7, RemoteAddr: "10.0.0.1:55"})
	mC := v9ProtoMsg(&robust.Message{Id: robust.Id{Id: v9I40}, Type: robust.CreateSession, Data: "auth", UnixNano: 1700000000000000003})
	mD := v9ProtoMsg(&robust.Message{Id: robust.Id{Id: 1}, Session: robust.Id{Id: 1}, Type: robust.MessageOfDeath, Data: "NICK bob", UnixNano: 1700000000000000004})
	mE := v9JSONMsg(&robust.Message{Id: robust.Id{Id: 3, Reply: 0}, Type: robust.Ping, Servers: []string{"a:1", "b:2"}, Currentmaster: "a:1", UnixNano: 1700000000000000005})
	mF := v9JSONMsg(&robust.Message{Id: robust.Id{Id: v9I63}, Session: robust.Id{Id: 5}, Type: robust.Config, Data: "x = 1\n", Revision: 3, UnixNano: 1700000000000000006})
	mG := v9ProtoMsg(&robust.Message{Id: robust.Id{Id: 7}, Session: robust.Id{Id: 1}, Type: robust.DeleteSession, Data: "bye", UnixNano: 1700000000000000007})
	mH := v9JSONMsg(&robust.Message{Id: robust.Id{Id: 2}, Session: robust.Id{Id: 2}, Type: robust.CreateSession, Data: "auth2", UnixNano: 1700000000000000008})
	opaqueP := []byte("p\x00\xff not a protobuf")
	msgpack := []byte{0x81, 0xa7, 'S', 'e', 'r', 'v', 'e', 'r', 's', 0x90, 0x00, 0xff}
	ext := []byte{0x00, 0x01, 0xfe, 'p'}

	add := func(o *v9Op) int { full = append(full, o); return len(full) - 1 }
	store := func(kind string, logs ...*raft.Log) int {
		var d []string
		for _, l := range logs {
			d = append(d, v9DescLog(l))
		}
		return add(&v9Op{Kind: kind, Name: kind + strings.Join(d, "+"), logs: logs})
	}
	// --- stores, simplest first
	s1 := store("StoreLog", &raft.Log{Index: 1, Term: 1, Type: raft.LogCommand, Data: mA})
	s2 := store("StoreLog", &raft.Log{Index: 2, Term: 1, Type: raft.LogCommand, Data: mB, Extensions: ext, AppendedAt: t1})
	store("StoreLog", &raft.Log{Index: 3, Term: 2, Type: raft.LogNoop, AppendedAt: t2})
	store("StoreLog", &raft.Log{Index: 7, Term: 2, Type: raft.LogConfiguration, Data: opaqueP, Extensions: ext})
	store("StoreLog", &raft.Log{Index: v9I40, Term: 3, Type: raft.LogCommand, Data: mC, Extensions: ext, AppendedAt: t1})
	s6 := store("StoreLog", &raft.Log{Index: v9I40, Term: 4, Type: raft.LogConfiguration, Data: msgpack, AppendedAt: t2})
	store("StoreLog", &raft.Log{Index: v9I63, Term: ^uint64(0), Type: raft.LogNoop, Data: opaqueP, AppendedAt: t1})
	store("StoreLogs", &raft.Log{Index: 2, Term: 5, Type: raft.LogCommand, Data: mH, AppendedAt: t2}, &raft.Log{Index: 3, Term: 5, Type: raft.LogConfiguration, Extensions: ext})
	s9 := store("StoreLogs", &raft.Log{Index: 7, Term: 6, Type: raft.LogCommand, Data: mG, AppendedAt: t1}, &raft.Log{Index: v9I63, Term: 6, Type: raft.LogCommand, Data: mF, Extensions: ext, AppendedAt: zero})
	// a batch whose first entry has every optional field set and whose second has none: an encoder object
	// that is reused across the entries of a batch must not leak fields from one entry into the next
	store("StoreLogs", &raft.Log{Index: 1, Term: 9, Type: raft.LogCommand, Data: mA, Extensions: ext, AppendedAt: t1}, &raft.Log{Index: 2, Term: 9, Type: raft.LogNoop})
	store("StoreLogProto", &raft.Log{Index: 1, Term: 7, Type: raft.LogCommand, Data: mD, Extensions: ext, AppendedAt: t2})
	s11 := store("StoreLogProto", &raft.Log{Index: 3, Term: 7, Type: raft.LogCommand, Data: mE})
	store("StoreLogProto", &raft.Log{Index: v9I63, Term: 8, Type: raft.LogConfiguration, Data: msgpack, Extensions: ext, AppendedAt: t1})
	// --- range deletions
	del := func(min, max uint64, what string) int {
		return add(&v9Op{Kind: "DeleteRange", Name: fmt.Sprintf("DeleteRange(%d,%d)[%s]", min, max, what), min: min, max: max})
	}
	del(1, 1, "single")
	d2 := del(1, 3, "prefix")
	del(4, 6, "only missing indexes")
	d4 := del(2, v9I40, "middle, spans missing indexes")
	del(7, 3, "min>max")
	d6 := del(v9I63, v9I63, "single large")
	del(3, v9I63, "suffix")
	del(1, v9I63, "all")
	// --- stable store
	c1 := add(&v9Op{Kind: "SetUint64", Name: "SetUint64(CurrentTerm,5)", key: []byte("CurrentTerm"), u64: 5})
	add(&v9Op{Kind: "SetUint64", Name: "SetUint64(CurrentTerm,2^64-1)", key: []byte("CurrentTerm"), u64: ^uint64(0)})
	add(&v9Op{Kind: "Set", Name: "Set(LastVoteCand,\"node-a:13001\")", key: []byte("LastVoteCand"), val: []byte("node-a:13001")})
	add(&v9Op{Kind: "Set", Name: "Set(LastVoteCand,empty)", key: []byte("LastVoteCand"), val: []byte{}})
	add(&v9Op{Kind: "SetUint64", Name: "SetUint64(key=bigendian(7),2^40)", key: v9be(7), u64: v9I40})
	lookalike, _ := proto.Marshal(&pb.RaftLog{Index: v9I63, Term: 99, Type: pb.RaftLog_LogType(raft.LogNoop), Data: []byte("stable")})
	c6 := add(&v9Op{Kind: "Set", Name: "Set(key=bigendian(2^63),bytes that look like a protobuf log entry)", key: v9be(v9I63), val: append([]byte{'p'}, lookalike...)})
	// --- restarts
	r1 := add(&v9Op{Kind: "Reopen", Name: "Close+Reopen(json)", toPB: false})
	r2 := add(&v9Op{Kind: "Reopen", Name: "Close+Reopen(protobuf,ConvertToProto)", toPB: true})
	core = []int{s1, s2, s6, s9, s11, d2, d4, d6, c1, c6, r1, r2}
	return full, core
}

// ---------------------------------------------------------------- result

type v9Viol struct {
	Sig    string   `json:"sig"`
	Desc   string   `json:"desc"`
	Prop   string   `json:"prop"`
	Count  int      `json:"count"`
	Ops    []string `json:"ops"`
	Detail []string `json:"detail"`
}

type v9Result struct {
	Sequences         int       `json:"sequences"`
	Quiet             int       `json:"sequences_reexecuted_with_reads_only_at_the_end"`
	BystanderChecks   int       `json:"second_store_checks"`
	BystanderReopened int       `json:"second_store_reopened"`
	Operations        int       `json:"operations"`
	Reads             int       `json:"reads_compared"`
	CrashImages       int       `json:"crash_images"`
	JournalCuts       int       `json:"journal_cuts"`
	CutAbsent         int       `json:"cuts_op_absent"`
	CutPresent        int       `json:"cuts_op_present"`
	CutSkipped        int       `json:"journal_cut_skipped"`
	Pruned            int       `json:"prefixes_pruned_after_violation"`
	Unsupported       int       `json:"skipped_protobuf_to_json"`
	States            []string  `json:"states"`
	Violations        []*v9Viol `json:"violations"`
	Samples           []string  `json:"samples"`
	Exhaustive        bool      `json:"exhaustive"`
	Depth             int       `json:"depth"`
	Alphabet          int       `json:"alphabet"`
	sigs              map[string]*v9Viol
	states            map[uint64]bool
}

func (r *v9Result) report(sig, desc string, ops []string, detail []string) {
	sig = "C09:" + sig
	if v, ok := r.sigs[sig]; ok {
		v.Count++
		if len(ops) < len(v.Ops) {
			v.Ops, v.Desc, v.Detail = append([]string(nil), ops...), desc, detail
		}
		return
	}
	v := &v9Viol{Sig: sig, Desc: desc, Prop: "C09", Count: 1, Ops: append([]string(nil), ops...), Detail: detail}
	r.sigs[sig] = v
	r.Violations = append(r.Violations, v)
}

func (r *v9Result) write() {
	for h := range r.states {
		r.States = append(r.States, strconv.FormatUint(h, 16))
	}
	sort.Strings(r.States)
	b, _ := json.Marshal(r)
	if out := os.Getenv("VERIF_OUT"); out != "" {
		os.WriteFile(out, b, 0644)
	} else {
		fmt.Println(string(b))
	}
}

// ---------------------------------------------------------------- reading back

// a mismatch between store and model. hard: the stored state differs from the model
// (exploration below this prefix stops); soft: an observation is wrong but the stored
// state is not (bulk iterator showing foreign keys).
type v9Mis struct {
	what   string // stable class
	detail string
	hard   bool
}

func v9Bytes(b []byte) string {
	if len(b) > 24 {
		return fmt.Sprintf("%q...(%dB)", b[:24], len(b))
	}
	return fmt.Sprintf("%q", b)
}

func v9DecodeEq(a, b []byte, idx uint64) (eq bool, why string) {
	defer func() {
		if r := recover(); r != nil {
			eq, why = false, fmt.Sprintf("payload does not decode: %v", r)
		}
	}()
	ma := robust.NewMessageFromBytes(a, robust.IdFromRaftIndex(idx))
	mb := robust.NewMessageFromBytes(b, robust.IdFromRaftIndex(idx))
	if len(ma.Servers) == 0 {
		ma.Servers = nil
	}
	if len(mb.Servers) == 0 {
		mb.Servers = nil
	}
	if !reflect.DeepEqual(ma, mb) {
		return false, fmt.Sprintf("decodes to %+v, stored message was %+v", mb, ma)
	}
	return true, ""
}

func v9CmpEntry(via string, want *v9Entry, got *raft.Log, allowConv bool) (mm []v9Mis) {
	bad := func(field, d string) {
		mm = append(mm, v9Mis{what: via + ": " + field + " of a stored entry differs", detail: fmt.Sprintf("index %d: %s", want.Index, d), hard: true})
	}
	if got.Index != want.Index {
		bad("index", fmt.Sprintf("got %d", got.Index))
	}
	if got.Term != want.Term {
		bad("term", fmt.Sprintf("got %d want %d", got.Term, want.Term))
	}
	if got.Type != want.Type {
		bad("type", fmt.Sprintf("got %v want %v", got.Type, want.Type))
	}
	if !bytes.Equal(got.Extensions, want.Ext) {
		bad("extensions", fmt.Sprintf("got %s want %s", v9Bytes(got.Extensions), v9Bytes(want.Ext)))
	}
	if !got.AppendedAt.Equal(want.At) {
		bad("append time", fmt.Sprintf("got %v want %v", got.AppendedAt.UTC(), want.At.UTC()))
	}
	if !bytes.Equal(got.Data, want.Data) {
		if want.Type == raft.LogCommand && (want.conv || allowConv) {
			if eq, why := v9DecodeEq(want.Data, got.Data, want.Index); !eq {
				bad("data (after conversion)", why)
			}
		} else {
			bad("data", fmt.Sprintf("got %s want %s", v9Bytes(got.Data), v9Bytes(want.Data)))
		}
	}
	return mm
}

func v9ReadBulk(s *LevelDBStore, m *v9Model, start, limit uint64, label string, allowConv bool, reads *int) (mm []v9Mis) {
	it := s.GetBulkIterator(start, limit)
	defer it.Release()
	var got []uint64
	foreign := 0
	for ok := it.First(); ok; ok = it.Next() {
		*reads++
		k := append([]byte(nil), it.Key()...)
		if bytes.HasPrefix(k, []byte("stablestore-")) {
			// The bulk iterator is a RobustIRC-specific accessor outside raft's LogStore contract; the
			// repository only uses it on the IRC log copy, which holds no stable keys.  A range that
			// spans 0x7374... on a store that also holds stable keys yields them; that is recorded as
			// an assumption of this check (c09.py), not reported: the property speaks of first/last
			// index, entry lookups and stable reads.
			foreign++
			continue
		}
		if len(k) != 8 {
			mm = append(mm, v9Mis{what: "bulk iterator " + label + " yields a key that is no index", detail: fmt.Sprintf("key %q", k), hard: true})
			continue
		}
		idx := binary.BigEndian.Uint64(k)
		got = append(got, idx)
		want, ok := m.entries[idx]
		if !ok {
			continue // reported below through the index list
		}
		l, err := raftlog.FromBytes(it.Value())
		if err != nil {
			mm = append(mm, v9Mis{what: "bulk iterator " + label + ": stored value does not decode", detail: fmt.Sprintf("index %d: %v", idx, err), hard: true})
			continue
		}
		mm = append(mm, v9CmpEntry("bulk iterator "+label, want, l, allowConv)...)
	}
	if err := it.Error(); err != nil {
		mm = append(mm, v9Mis{what: "bulk iterator " + label + " reports an error", detail: err.Error(), hard: true})
	}
	var want []uint64
	for _, i := range m.indexes() {
		if i >= start && i < limit {
			want = append(want, i)
		}
	}
	if !reflect.DeepEqual(got, want) {
		mm = append(mm, v9Mis{what: "bulk iterator " + label + " yields the wrong set of indexes", detail: fmt.Sprintf("got %v want %v", got, want), hard: true})
	}
	return mm
}

// v9Check reads the whole observable surface of s and compares it with m.
func v9Check(s *LevelDBStore, m *v9Model, allowConv bool, reads *int) (mm []v9Mis) {
	defer func() {
		if r := recover(); r != nil {
			mm = append(mm, v9Mis{what: "panic while reading", detail: fmt.Sprint(r), hard: true})
		}
	}()
	idx := m.indexes()
	var wantFirst, wantLast uint64
	if len(idx) > 0 {
		wantFirst, wantLast = idx[0], idx[len(idx)-1]
	}
	first, err := s.FirstIndex()
	*reads++
	if err != nil || first != wantFirst {
		mm = append(mm, v9Mis{what: "FirstIndex wrong", detail: fmt.Sprintf("got %d (err %v) want %d", first, err, wantFirst), hard: true})
	}
	last, err := s.LastIndex()
	*reads++
	if err != nil || last != wantLast {
		mm = append(mm, v9Mis{what: "LastIndex wrong", detail: fmt.Sprintf("got %d (err %v) want %d", last, err, wantLast), hard: true})
	}
	for _, i := range v9ReadIdx {
		// raft reuses Log values across lookups, so the target is not pristine
		got := raft.Log{Index: 999, Term: 999, Type: 9, Data: []byte("dirty"), Extensions: []byte("dirty"), AppendedAt: time.Unix(1, 1)}
		err := s.GetLog(i, &got)
		*reads++
		want, ok := m.entries[i]
		switch {
		case !ok && err == nil:
			mm = append(mm, v9Mis{what: "GetLog returns an entry that was never stored or was deleted", detail: fmt.Sprintf("index %d: got %+v", i, got), hard: true})
		case !ok && !errors.Is(err, raft.ErrLogNotFound):
			mm = append(mm, v9Mis{what: "GetLog for a missing entry does not return raft.ErrLogNotFound", detail: fmt.Sprintf("index %d: err %v", i, err), hard: true})
		case ok && err != nil:
			mm = append(mm, v9Mis{what: "GetLog does not find a stored entry", detail: fmt.Sprintf("index %d: err %v", i, err), hard: true})
		case ok:
			mm = append(mm, v9CmpEntry("GetLog", want, &got, allowConv)...)
		}
	}
	// what the lookups already reported about an entry is not repeated for the iterator views
	viaGetLog := len(mm) > 0
	addBulk := func(bm []v9Mis) {
		for _, x := range bm {
			if viaGetLog && strings.Contains(x.what, "of a stored entry differs") {
				continue
			}
			mm = append(mm, x)
		}
	}
	addBulk(v9ReadBulk(s, m, 0, ^uint64(0), "over [0,2^64-1)", allowConv, reads))
	if len(idx) > 0 {
		// the range every caller in the repository uses
		addBulk(v9ReadBulk(s, m, wantFirst, wantLast+1, "over [first,last+1)", allowConv, reads))
	}
	for _, k := range v9StableKeys {
		want, ok := m.stable[string(k)]
		got, err := s.Get(k)
		*reads++
		if err != nil || !bytes.Equal(got, want) {
			w := "stable Get returns a value that differs from the last write"
			if ok && len(got) == 0 && len(want) > 0 {
				w = "stable Get lost a written value"
			} else if !ok {
				w = "stable Get returns a value for a key that was never written"
			}
			mm = append(mm, v9Mis{what: w, detail: fmt.Sprintf("key %q: got %s (err %v) want %s", k, v9Bytes(got), err, v9Bytes(want)), hard: true})
		}
		if (err == nil && bytes.Equal(got, want)) && (!ok || len(want) == 8) {
			var wu uint64
			if ok {
				wu = binary.BigEndian.Uint64(want)
			}
			gu, err := s.GetUint64(k)
			*reads++
			if err != nil || gu != wu {
				mm = append(mm, v9Mis{what: "stable GetUint64 wrong", detail: fmt.Sprintf("key %q: got %d (err %v) want %d", k, gu, err, wu), hard: true})
			}
		}
	}
	return mm
}

// ---------------------------------------------------------------- applying operations

func v9Open(dir string, pbuf bool) (*LevelDBStore, error) {
	return NewLevelDBStore(dir, false, pbuf)
}

func v9ApplyModel(m *v9Model, op *v9Op) {
	switch op.Kind {
	case "StoreLog", "StoreLogs", "StoreLogProto":
		for _, l := range op.logs {
			m.entries[l.Index] = &v9Entry{Index: l.Index, Term: l.Term, Type: l.Type, Data: l.Data, Ext: l.Extensions, At: l.AppendedAt}
		}
	case "DeleteRange":
		for i := range m.entries {
			if i >= op.min && i <= op.max {
				delete(m.entries, i)
			}
		}
	case "Set":
		m.stable[string(op.key)] = op.val
	case "SetUint64":
		m.stable[string(op.key)] = v9be(op.u64)
	case "Reopen":
		m.proto = op.toPB
		if op.toPB {
			for _, e := range m.entries {
				if e.Type == raft.LogCommand {
					e.conv = true
				}
			}
		}
	}
}

// v9ApplyStore runs op on the real store; for Reopen the store is replaced.
func v9ApplyStore(dir string, sp **LevelDBStore, op *v9Op) (err error) {
	defer func() {
		if r := recover(); r != nil {
			err = fmt.Errorf("panic: %v", r)
		}
	}()
	s := *sp
	cp := func(l *raft.Log) *raft.Log {
		c := *l
		c.Data = append([]byte(nil), l.Data...)
		if l.Data == nil {
			c.Data = nil
		}
		c.Extensions = append([]byte(nil), l.Extensions...)
		return &c
	}
	switch op.Kind {
	case "StoreLog":
		return s.StoreLog(cp(op.logs[0]))
	case "StoreLogs":
		var ls []*raft.Log
		for _, l := range op.logs {
			ls = append(ls, cp(l))
		}
		return s.StoreLogs(ls)
	case "StoreLogProto":
		l := op.logs[0]
		return s.StoreLogProto(&pb.RaftLog{Index: l.Index, Term: l.Term, Type: pb.RaftLog_LogType(l.Type), Data: l.Data, Extensions: l.Extensions, AppendedAt: timestamppb.New(l.AppendedAt)})
	case "DeleteRange":
		return s.DeleteRange(op.min, op.max)
	case "Set":
		return s.Set(op.key, op.val)
	case "SetUint64":
		return s.SetUint64(op.key, op.u64)
	case "Reopen":
		if err := s.Close(); err != nil {
			return fmt.Errorf("Close: %v", err)
		}
		*sp = nil
		ns, err := v9Open(dir, op.toPB)
		if err != nil {
			if ns != nil && ns.db != nil {
				ns.Close()
			}
			return fmt.Errorf("NewLevelDBStore: %v", err)
		}
		*sp = ns
	}
	return nil
}

func v9KindTag(op *v9Op, pbuf bool) string {
	switch op.Kind {
	case "StoreLog", "StoreLogs":
		if pbuf {
			return op.Kind + "[protobuf store]"
		}
		return op.Kind + "[json store]"
	case "Reopen":
		if op.toPB && !pbuf {
			return "Reopen[json->protobuf]"
		} else if op.toPB {
			return "Reopen[protobuf->protobuf]"
		}
		return "Reopen[json->json]"
	}
	return op.Kind
}

func v9Env(name string, def int) int {
	if v, err := strconv.Atoi(os.Getenv(name)); err == nil {
		return v
	}
	return def
}

type v9Ctx struct {
	by       *LevelDBStore // a second store of the same process (production has two: raftlog and irclog)
	res      *v9Result
	ops      []*v9Op
	base     string
	n        int
	deadline time.Time
}

func v9Setup(t *testing.T) *v9Ctx {
	log.SetOutput(io.Discard)
	// message ids default to offset + raft index; the binary runs with this offset (flag default), and with
	// offset 0 "the raft index" and "the message id" coincide, which hides mix-ups of the two
	robust.MessageOffset = 4648398125000000000
	if o := os.Getenv("VERIF_MSGOFFSET"); o != "" {
		robust.MessageOffset, _ = strconv.ParseUint(o, 10, 64)
	}
	full, core := v9Alphabet()
	ops := full
	if os.Getenv("VERIF_C09_ALPHA") == "core" {
		ops = nil
		for _, i := range core {
			ops = append(ops, full[i])
		}
	}
	base, err := os.MkdirTemp("", "c09-")
	if err != nil {
		t.Fatal(err)
	}
	c := &v9Ctx{res: &v9Result{sigs: map[string]*v9Viol{}, states: map[uint64]bool{}, Exhaustive: true, Alphabet: len(ops)}, ops: ops, base: base}
	if d := v9Env("VERIF_DEADLINE", 0); d > 0 {
		c.deadline = time.Unix(int64(d), 0)
	}
	return c
}

func (c *v9Ctx) names(initPB bool, seq []int) []string {
	out := []string{"Open(json)"}
	if initPB {
		out[0] = "Open(protobuf)"
	}
	for _, i := range seq {
		out = append(out, c.ops[i].Name)
	}
	return out
}

func (c *v9Ctx) reportMis(mm []v9Mis, where string, names []string) (hard bool) {
	for _, x := range mm {
		sig := x.what + " " + where
		if !x.hard {
			sig = x.what // an observation of an intact state: one class whatever operation came last
		}
		c.res.report(sig, strings.Join(names, " ; ")+"  =>  "+x.detail, names, []string{x.detail})
		hard = hard || x.hard
	}
	return hard
}

// v9BystanderIdx are the indexes the second store holds (the same ones the alphabet uses).
var v9BystanderIdx = []uint64{1, 2, 3, 7, v9I40, v9I63}

// bystander: operations on one store must leave every other store of the process alone.  After every
// operation on the store under test the second store takes one unrelated write and must still hold all
// of its entries (state shared between stores -- pooled batches, package-level buffers -- would show here).
func (c *v9Ctx) bystander(t *testing.T, names []string, where string) {
	if c.by == nil {
		by, err := v9Open(filepath.Join(c.base, fmt.Sprintf("bystander%d", c.res.BystanderReopened)), true)
		if err != nil {
			t.Fatalf("open bystander: %v", err)
		}
		for _, i := range v9BystanderIdx {
			if err := by.StoreLog(&raft.Log{Index: i, Term: 77, Type: raft.LogNoop, Data: []byte("bystander")}); err != nil {
				t.Fatalf("bystander StoreLog: %v", err)
			}
		}
		c.by = by
	}
	if err := c.by.StoreLog(&raft.Log{Index: 99, Term: 78, Type: raft.LogNoop}); err != nil {
		t.Fatalf("bystander StoreLog: %v", err)
	}
	c.res.BystanderChecks++
	for _, i := range v9BystanderIdx {
		var l raft.Log
		if err := c.by.GetLog(i, &l); err != nil || l.Term != 77 || string(l.Data) != "bystander" {
			c.res.report("an operation on one store changed another store of the same process "+where, strings.Join(names, " ; ")+fmt.Sprintf("  =>  the second store lost or changed its entry %d (%v)", i, err), names, []string{fmt.Sprint(err)})
			c.by.Close()
			c.by = nil
			c.res.BystanderReopened++
			return
		}
	}
}

// ---------------------------------------------------------------- TestVerifC09Seq

// runSeq executes one sequence on a fresh database; returns the position of the first
// operation after which the store differs from the model (-1: none).
func (c *v9Ctx) runSeq(t *testing.T, initPB bool, seq []int) int {
	dir := filepath.Join(c.base, "db")
	os.RemoveAll(dir)
	s, err := v9Open(dir, initPB)
	if err != nil {
		t.Fatalf("open fresh: %v", err)
	}
	defer func() {
		if s != nil && s.db != nil {
			s.Close()
		}
	}()
	m := v9NewModel(initPB)
	c.res.Sequences++
	c.res.states[m.hash()] = true
	for k, oi := range seq {
		op := c.ops[oi]
		tag := v9KindTag(op, m.proto)
		c.res.Operations++
		err := v9ApplyStore(dir, &s, op)
		if err != nil {
			c.res.report("operation fails: "+tag, strings.Join(c.names(initPB, seq[:k+1]), " ; ")+"  =>  "+err.Error(), c.names(initPB, seq[:k+1]), []string{err.Error()})
			return k
		}
		v9ApplyModel(m, op)
		c.res.states[m.hash()] = true
		c.bystander(t, c.names(initPB, seq[:k+1]), "after "+tag)
		mm := v9Check(s, m, false, &c.res.Reads)
		if len(mm) > 0 && c.reportMis(mm, "after "+tag, c.names(initPB, seq[:k+1])) {
			return k
		}
	}
	return -1
}

// runSeqQuiet executes the sequence once more WITHOUT looking at the store in between: the accessors are
// called only after the last operation.  State that an accessor leaves behind (a cached index, a lazily
// built iterator) is then in the condition the operations left it in, not the one the observer of runSeq
// refreshed after every step.
func (c *v9Ctx) runSeqQuiet(t *testing.T, initPB bool, seq []int) {
	dir := filepath.Join(c.base, "dbq")
	os.RemoveAll(dir)
	s, err := v9Open(dir, initPB)
	if err != nil {
		t.Fatalf("open fresh: %v", err)
	}
	defer func() {
		if s != nil && s.db != nil {
			s.Close()
		}
	}()
	m := v9NewModel(initPB)
	c.res.Quiet++
	for k, oi := range seq {
		op := c.ops[oi]
		if err := v9ApplyStore(dir, &s, op); err != nil {
			c.res.report("operation fails (no reads in between): "+v9KindTag(op, m.proto), strings.Join(c.names(initPB, seq[:k+1]), " ; ")+"  =>  "+err.Error(), c.names(initPB, seq[:k+1]), []string{err.Error()})
			return
		}
		v9ApplyModel(m, op)
	}
	if mm := v9Check(s, m, false, &c.res.Reads); len(mm) > 0 {
		last := c.ops[seq[len(seq)-1]]
		c.reportMis(mm, "when read only after the last operation, "+v9KindTag(last, m.proto), c.names(initPB, seq))
	}
}

func TestVerifC09Seq(t *testing.T) {
	shard, nshards := v9Env("VERIF_SHARD", 0), v9Env("VERIF_NSHARDS", 1)
	depth := v9Env("VERIF_C09_DEPTH", 3)
	c := v9Setup(t)
	defer os.RemoveAll(c.base)
	c.res.Depth = depth
	n := len(c.ops)
	bad := map[string]bool{}
	key := func(initPB bool, seq []int) string { return fmt.Sprint(initPB, seq) }
	group := 0
	var rec func(initPB, pbuf bool, seq []int)
	rec = func(initPB, pbuf bool, seq []int) {
		if !c.res.Exhaustive {
			return
		}
		if len(seq) == depth {
			if !c.deadline.IsZero() && time.Now().After(c.deadline) {
				c.res.Exhaustive = false
				return
			}
			k := c.runSeq(t, initPB, seq)
			if k >= 0 && k < depth-1 {
				bad[key(initPB, seq[:k+1])] = true
			}
			if k < 0 && depth > 1 {
				c.runSeqQuiet(t, initPB, seq)
			}
			if len(c.res.Samples) < 3 && c.res.Sequences%997 == 1 {
				c.res.Samples = append(c.res.Samples, strings.Join(c.names(initPB, seq), " ; "))
			}
			return
		}
		for i := 0; i < n; i++ {
			op := c.ops[i]
			// (protobuf -> json, a downgrade, is explored too: every reader decides per value, so a store may hold
			// both encodings)
			// shard by the first two operations
			if len(seq) == 1 || (depth == 1 && len(seq) == 0) {
				group++
				if group%nshards != shard {
					continue
				}
			}
			nseq := append(append([]int(nil), seq...), i)
			if bad[key(initPB, nseq[:len(nseq)-1])] || bad[key(initPB, nseq)] {
				c.res.Pruned++
				continue
			}
			np := pbuf
			if op.Kind == "Reopen" {
				np = op.toPB
			}
			rec(initPB, np, nseq)
		}
	}
	for _, initPB := range []bool{false, true} {
		rec(initPB, initPB, nil)
	}
	c.res.write()
}

// ---------------------------------------------------------------- TestVerifC09Crash

type v9Image map[string][]byte

func v9Snapshot(dir string) v9Image {
	img := v9Image{}
	des, _ := os.ReadDir(dir)
	for _, de := range des {
		if de.Name() == "LOCK" || de.IsDir() {
			continue
		}
		b, err := os.ReadFile(filepath.Join(dir, de.Name()))
		if err == nil {
			img[de.Name()] = b
		}
	}
	return img
}

func v9Materialize(img v9Image, dir string) {
	os.RemoveAll(dir)
	os.MkdirAll(dir, 0755)
	for n, b := range img {
		os.WriteFile(filepath.Join(dir, n), b, 0644)
	}
}

// openImage reopens a crash image and compares it against the candidate models;
// returns the index of the first model it matches, -1 if none (mismatches of the last
// candidate are returned for the report).
func (c *v9Ctx) openImage(img v9Image, pbuf bool, models ...*v9Model) (int, []v9Mis, []v9Mis) {
	dir := filepath.Join(c.base, "img")
	v9Materialize(img, dir)
	c.res.CrashImages++
	var s *LevelDBStore
	var err error
	func() {
		defer func() {
			if r := recover(); r != nil {
				err = fmt.Errorf("panic: %v", r)
			}
		}()
		s, err = v9Open(dir, pbuf)
	}()
	if err != nil {
		if s != nil && s.db != nil {
			s.Close()
		}
		return -1, nil, []v9Mis{{what: "crash image does not reopen", detail: err.Error(), hard: true}}
	}
	defer s.Close()
	var soft, lastHard []v9Mis
	for k, m := range models {
		mm := v9Check(s, m, pbuf, &c.res.Reads)
		soft, lastHard = nil, nil
		for _, x := range mm {
			if x.hard {
				lastHard = append(lastHard, x)
			} else {
				soft = append(soft, x)
			}
		}
		if len(lastHard) == 0 {
			return k, soft, nil
		}
	}
	return -1, soft, lastHard
}

func v9Cuts(a, b int, every bool) []int {
	if every || b-a <= 24 {
		var out []int
		for x := a; x <= b; x++ {
			out = append(out, x)
		}
		return out
	}
	set := map[int]bool{}
	for x := a; x <= a+9; x++ { // nothing, partial and complete record header, first payload bytes
		set[x] = true
	}
	for x := b - 3; x <= b; x++ {
		set[x] = true
	}
	for x := a + 16; x < b; x += 16 {
		set[x] = true
	}
	set[(a+b)/2] = true
	var out []int
	for x := range set {
		if x >= a && x <= b {
			out = append(out, x)
		}
	}
	sort.Ints(out)
	return out
}

func (c *v9Ctx) runCrash(t *testing.T, initPB bool, seq []int, everyByte bool) {
	dir := filepath.Join(c.base, "db")
	os.RemoveAll(dir)
	s, err := v9Open(dir, initPB)
	if err != nil {
		t.Fatalf("open fresh: %v", err)
	}
	defer func() {
		if s != nil && s.db != nil {
			s.Close()
		}
	}()
	m := v9NewModel(initPB)
	c.res.Sequences++
	c.res.states[m.hash()] = true
	for k, oi := range seq {
		op := c.ops[oi]
		tag := v9KindTag(op, m.proto)
		names := c.names(initPB, seq[:k+1])
		last := k == len(seq)-1
		var before v9Image
		mBefore := m.clone()
		convCut := last && op.Kind == "Reopen" && op.toPB
		c.res.Operations++
		if convCut {
			// Reopen(protobuf) = open + ConvertToProto; split it so that the conversion's journal writes can be cut
			if err := s.Close(); err != nil {
				t.Fatalf("close: %v", err)
			}
			s, err = v9Open(dir, false)
			if err != nil {
				c.res.report("operation fails: "+tag, strings.Join(names, " ; ")+"  =>  "+err.Error(), names, nil)
				return
			}
			before = v9Snapshot(dir)
			s.useProtobuf = true
			var cerr error
			func() {
				defer func() {
					if r := recover(); r != nil {
						cerr = fmt.Errorf("panic: %v", r)
					}
				}()
				cerr = s.ConvertToProto()
			}()
			if cerr != nil {
				c.res.report("operation fails: "+tag, strings.Join(names, " ; ")+"  =>  "+cerr.Error(), names, nil)
				return
			}
		} else {
			if last && op.Kind != "Reopen" {
				before = v9Snapshot(dir)
			}
			if err := v9ApplyStore(dir, &s, op); err != nil {
				c.res.report("operation fails: "+tag, strings.Join(names, " ; ")+"  =>  "+err.Error(), names, nil)
				return
			}
		}
		v9ApplyModel(m, op)
		c.res.states[m.hash()] = true
		if mm := v9Check(s, m, false, &c.res.Reads); len(mm) > 0 && c.reportMis(mm, "after "+tag, names) {
			return // already a violation of the live store (TestVerifC09Seq reports it too)
		}
		// (1) image at the operation boundary
		after := v9Snapshot(dir)
		idx, soft, hard := c.openImage(after, m.proto, m)
		c.reportMis(soft, "in the crash image taken after "+tag, names)
		if idx < 0 {
			c.reportMis(hard, "in the crash image taken after "+tag, names)
			return
		}
		if before == nil {
			continue
		}
		// (2) journal cuts of the last operation
		var jname string
		ok := true
		for n, b := range after {
			ob, had := before[n]
			if had && bytes.Equal(ob, b) {
				continue
			}
			if !strings.HasSuffix(n, ".log") || !had || len(b) < len(ob) || !bytes.Equal(b[:len(ob)], ob) || jname != "" {
				ok = false
				break
			}
			jname = n
		}
		for n := range before {
			if _, still := after[n]; !still {
				ok = false
			}
		}
		if !ok {
			c.res.CutSkipped++
			continue
		}
		if jname == "" {
			continue // the operation wrote nothing (empty batch)
		}
		a, b := len(before[jname]), len(after[jname])
		for _, cut := range v9Cuts(a, b, everyByte) {
			img := v9Image{}
			for n, x := range before {
				img[n] = x
			}
			img[jname] = after[jname][:cut]
			c.res.JournalCuts++
			idx, _, hard := c.openImage(img, m.proto, mBefore, m)
			where := fmt.Sprintf("journal cut at byte %d of %d appended by the last operation", cut-a, b-a)
			switch {
			case idx == 0:
				c.res.CutAbsent++
				if cut == b && mBefore.hash() != m.hash() {
					// complete journal but operation absent: only legitimate when before == after
					if idx2, _, _ := c.openImage(img, m.proto, m); idx2 < 0 {
						c.res.report("acknowledged operation lost with the complete journal: "+tag, strings.Join(names, " ; ")+"  =>  "+where, names, nil)
					}
				}
			case idx == 1:
				c.res.CutPresent++
			default:
				var d []string
				for _, x := range hard {
					d = append(d, x.what+": "+x.detail)
				}
				c.res.report("torn journal of "+tag+": reopened store is neither the state before nor after the operation", strings.Join(names, " ; ")+"  =>  "+where+": vs state after: "+strings.Join(d, " | "), names, d)
			}
		}
	}
}

func TestVerifC09Crash(t *testing.T) {
	shard, nshards := v9Env("VERIF_SHARD", 0), v9Env("VERIF_NSHARDS", 1)
	depth := v9Env("VERIF_C09_DEPTH", 2)
	everyUpTo := v9Env("VERIF_C09_EVERYBYTE", 2) // sequences up to this length: every byte; longer: record boundaries and a 16-byte grid
	c := v9Setup(t)
	defer os.RemoveAll(c.base)
	c.res.Depth = depth
	n := len(c.ops)
	group := 0
	var rec func(initPB, pbuf bool, seq []int, want int)
	rec = func(initPB, pbuf bool, seq []int, want int) {
		if !c.res.Exhaustive {
			return
		}
		if len(seq) == want {
			if !c.deadline.IsZero() && time.Now().After(c.deadline) {
				c.res.Exhaustive = false
				return
			}
			group++
			if group%nshards != shard {
				return
			}
			c.runCrash(t, initPB, seq, want <= everyUpTo)
			if len(c.res.Samples) < 2 && c.res.Sequences%211 == 1 {
				c.res.Samples = append(c.res.Samples, strings.Join(c.names(initPB, seq), " ; ")+" ; <kill at every operation boundary and at every journal byte of the last operation>")
			}
			return
		}
		for i := 0; i < n; i++ {
			op := c.ops[i]

			np := pbuf
			if op.Kind == "Reopen" {
				np = op.toPB
			}
			rec(initPB, np, append(append([]int(nil), seq...), i), want)
		}
	}
	for want := 1; want <= depth; want++ {
		for _, initPB := range []bool{false, true} {
			rec(initPB, initPB, nil, want)
		}
	}
	c.res.write()
}

// ---------------------------------------------------------------- TestVerifC09Lengths

// TestVerifC09Lengths: one DeleteRange over n stored entries, for every n up to 40 and around the round numbers up
// to 4096 (code that works through a range in blocks has its boundaries along this axis), at the head, in the
// middle and at the tail of the log, in both encodings, compared with a plain map before and after a reopen.
func TestVerifC09Lengths(t *testing.T) {
	shard, nshards := v9Env("VERIF_SHARD", 0), v9Env("VERIF_NSHARDS", 1)
	c := v9Setup(t)
	defer os.RemoveAll(c.base)
	var lens []int
	for n := 1; n <= 40; n++ {
		lens = append(lens, n)
	}
	for _, p := range []int{64, 100, 128, 256, 500, 512, 1000, 1024, 2048, 4096} {
		for d := -1; d <= 2; d++ {
			lens = append(lens, p+d)
		}
	}
	job := 0
	for _, pbuf := range []bool{true, false} {
		for _, n := range lens {
			for _, where := range []string{"head", "middle", "tail"} {
				job++
				if job%nshards != shard {
					continue
				}
				if !c.deadline.IsZero() && time.Now().After(c.deadline) {
					c.res.Exhaustive = false
					continue
				}
				dir := fmt.Sprintf("%s/len-%v-%d-%s", c.base, pbuf, n, where)
				s, err := v9Open(dir, pbuf)
				if err != nil {
					t.Fatal(err)
				}
				total := uint64(n + 4)
				want := map[uint64][]byte{}
				var logs []*raft.Log
				for idx := uint64(1); idx <= total; idx++ {
					m := &robust.Message{Id: robust.Id{Id: robust.MessageOffset + idx}, Session: robust.Id{Id: robust.MessageOffset + 1}, Type: robust.IRCFromClient, Data: fmt.Sprintf("PING %d", idx), UnixNano: int64(1600000000e9) + int64(idx)}
					data := v9JSONMsg(m)
					if pbuf {
						data = v9ProtoMsg(m)
					}
					want[idx] = data
					logs = append(logs, &raft.Log{Index: idx, Term: 3, Type: raft.LogCommand, Data: data})
					if len(logs) == 500 || idx == total {
						if err := s.StoreLogs(logs); err != nil {
							t.Fatal(err)
						}
						logs = nil
					}
				}
				lo, hi := uint64(1), uint64(n)
				switch where {
				case "middle":
					lo, hi = 3, uint64(n)+2
				case "tail":
					lo, hi = total-uint64(n)+1, total
				}
				ops := []string{fmt.Sprintf("StoreLogs 1..%d (encoding protobuf=%v)", total, pbuf), fmt.Sprintf("DeleteRange(%d, %d): %d entries at the %s", lo, hi, n, where)}
				if err := s.DeleteRange(lo, hi); err != nil {
					c.res.report("DeleteRange fails", err.Error(), ops, nil)
				}
				for idx := lo; idx <= hi; idx++ {
					delete(want, idx)
				}
				c.res.Sequences++
				c.res.Operations += 2
				check := func(after string) {
					first, last := uint64(0), uint64(0)
					for idx := range want {
						if first == 0 || idx < first {
							first = idx
						}
						if idx > last {
							last = idx
						}
					}
					if f, err := s.FirstIndex(); err != nil || f != first {
						c.res.report("FirstIndex wrong after a range deletion ("+after+")", fmt.Sprintf("%d entries deleted at the %s: FirstIndex %d (%v), the model says %d", n, where, f, err, first), ops, nil)
					}
					if l, err := s.LastIndex(); err != nil || l != last {
						c.res.report("LastIndex wrong after a range deletion ("+after+")", fmt.Sprintf("%d entries deleted at the %s: LastIndex %d (%v), the model says %d", n, where, l, err, last), ops, nil)
					}
					for idx := uint64(1); idx <= total; idx++ {
						var l raft.Log
						err := s.GetLog(idx, &l)
						c.res.Reads++
						w, ok := want[idx]
						switch {
						case ok && (err != nil || l.Index != idx || l.Term != 3 || string(l.Data) != string(w)):
							c.res.report("a stored entry is wrong or missing after a range deletion ("+after+")", fmt.Sprintf("%d entries deleted at the %s: GetLog(%d): %v", n, where, idx, err), ops, nil)
						case !ok && err != raft.ErrLogNotFound:
							c.res.report("a deleted entry is still there after a range deletion ("+after+")", fmt.Sprintf("%d entries deleted at the %s (%d..%d): GetLog(%d) answers %v instead of raft.ErrLogNotFound", n, where, lo, hi, idx, err), ops, nil)
						}
					}
				}
				check("same process")
				s.Close()
				if s, err = v9Open(dir, pbuf); err != nil {
					t.Fatal(err)
				}
				check("after reopen")
				s.Close()
				os.RemoveAll(dir)
			}
		}
	}
	c.res.write()
}
