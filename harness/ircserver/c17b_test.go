//go:build verif && verifrt

package ircserver

// C17 (b): the expiry sweep, with the wall clock pinned (engine rt) at exact
// distances from each session's last activity.

import (
	"encoding/json"
	"fmt"
	"os"
	"sort"
	"strconv"
	"strings"
	"testing"
	"time"

	"github.com/robustirc/robustirc/internal/robust"
	"github.com/robustirc/robustirc/internal/verif/rt"
)

func TestVerifC17b(t *testing.T) {
	shard, _ := strconv.Atoi(os.Getenv("VERIF_SHARD"))
	nshards, _ := strconv.Atoi(os.Getenv("VERIF_NSHARDS"))
	if nshards == 0 {
		nshards = 1
	}
	type result struct {
		States     int            `json:"states"`
		Sweeps     int            `json:"sweeps"`
		Expired    int            `json:"expired"`
		Kept       int            `json:"kept"`
		Outcomes   map[string]int `json:"outcomes"`
		Violations []*VViolation  `json:"violations"`
		Samples    []string       `json:"samples"`
	}
	res := &result{Outcomes: map[string]int{}}
	sigs := map[string]*VViolation{}
	report := func(sc string, hist []VEntry, sig, desc string) {
		sig = "C17:" + sig
		if v, ok := sigs[sig]; ok {
			v.Count++
			return
		}
		v := &VViolation{Sig: sig, Desc: desc, Scenario: sc, Hist: hist, Count: 1, Prop: "C17b"}
		sigs[sig] = v
		res.Violations = append(res.Violations, v)
	}
	defer rt.SetFixedNow(0)
	for k, sc := range VerifScenarios() {
		if k%nshards != shard {
			continue
		}
		in := VerifBuild(sc.Hist)
		res.States++
		i := in.Srv
		exp := time.Duration(i.Config.SessionExpiration)
		ids := vLiveSessions(i)
		for _, pivot := range ids {
			base := i.sessions[pivot].LastActivity
			for _, d := range []time.Duration{exp - time.Second, exp - 1, exp, exp + 1, exp + time.Second, 3 * exp, -time.Second, 0} {
				now := base.Add(d)
				rt.SetFixedNow(now.UnixNano())
				msgs := i.ExpireSessions()
				rt.SetFixedNow(0)
				res.Sweeps++
				want := map[robust.Id]bool{}
				for id, s := range i.sessions {
					if id.Reply == 0 && now.Sub(s.LastActivity) > exp {
						want[id] = true
					}
				}
				got := map[robust.Id]bool{}
				where := fmt.Sprintf("scenario %s, now = last activity of %s %+v (expiration %v)", sc.Name, vid(pivot), d, exp)
				for _, m := range msgs {
					if m.Type != robust.DeleteSession {
						report(sc.Name, sc.Hist, "expiry sweep proposes something other than a session deletion", where)
					}
					if m.Session.Reply != 0 {
						report(sc.Name, sc.Hist, "expiry sweep proposes deletion of a services pseudo-client", where+": "+vid(m.Session))
					}
					if got[m.Session] {
						report(sc.Name, sc.Hist, "expiry sweep proposes the same session twice", where)
					}
					got[m.Session] = true
				}
				var ws, gs []string
				for id := range want {
					ws = append(ws, vid(id))
				}
				for id := range got {
					gs = append(gs, vid(id))
				}
				sort.Strings(ws)
				sort.Strings(gs)
				res.Expired += len(got)
				res.Kept += len(ids) - len(got)
				res.Outcomes[fmt.Sprintf("%d of %d expired", len(got), len(ids))]++
				if strings.Join(ws, ",") != strings.Join(gs, ",") {
					for id := range want {
						if !got[id] {
							report(sc.Name, sc.Hist, "idle session not proposed for expiry", where+fmt.Sprintf(": want %v got %v", ws, gs))
						}
					}
					for id := range got {
						if !want[id] {
							report(sc.Name, sc.Hist, "session proposed for expiry although it is not idle long enough", where+fmt.Sprintf(": want %v got %v", ws, gs))
						}
					}
				}
				// applying the proposals ends exactly those sessions (on a throw-away replay)
				if len(msgs) > 0 && d == exp+time.Second {
					tmp := VerifBuild(sc.Hist)
					next := tmp.NextId()
					for _, m := range msgs {
						e := VEntry{Type: robust.DeleteSession, Id: next, Session: m.Session, Data: m.Data, UnixNano: now.UnixNano()}
						next++
						if st := tmp.Apply(e); st.Panic != nil {
							report(sc.Name, sc.Hist, "applying an expiry proposal panicked", where)
						}
					}
					for id := range got {
						if _, still := tmp.Srv.sessions[id]; still {
							report(sc.Name, sc.Hist, "applying the expiry proposal does not end the session", where+": "+vid(id))
						}
					}
				}
			}
		}
		// the threshold is the expiration CURRENTLY configured: a sweep that finds nothing, then a configuration
		// with half the expiration, then a sweep at the same instant
		if len(ids) > 0 && exp > 2*time.Second {
			tmp := VerifBuild(sc.Hist)
			j := tmp.Srv
			var newest time.Time
			for _, id := range ids {
				if la := j.sessions[id].LastActivity; la.After(newest) {
					newest = la
				}
			}
			now := newest.Add(exp/2 + time.Second)
			rt.SetFixedNow(now.UnixNano())
			first := j.ExpireSessions()
			rt.SetFixedNow(0)
			res.Sweeps++
			half := exp / 2
			cfg := strings.Replace(vCfgBase, `SessionExpiration = "30m"`, fmt.Sprintf("SessionExpiration = %q", half.String()), 1)
			j.ConfigMu.RLock()
			rev := j.Config.Revision
			j.ConfigMu.RUnlock()
			st := tmp.Apply(VEntry{Type: robust.Config, Id: tmp.NextId(), Data: cfg, Revision: rev + 1, UnixNano: tmp.Now() + 1e9})
			if st.Panic == nil && time.Duration(j.Config.SessionExpiration) == half {
				rt.SetFixedNow(now.UnixNano())
				second := j.ExpireSessions()
				rt.SetFixedNow(0)
				res.Sweeps++
				got := map[robust.Id]bool{}
				for _, m := range second {
					got[m.Session] = true
				}
				for id, s := range j.sessions {
					if id.Reply == 0 && now.Sub(s.LastActivity) > half && !got[id] {
						report(sc.Name, sc.Hist, "idle session not proposed for expiry after the configured expiration was lowered", fmt.Sprintf("scenario %s: sweep at last activity + %v proposed %d deletions, then SessionExpiration %v -> %v, sweep at the same instant: %s (idle %v) is not proposed", sc.Name, exp/2+time.Second, len(first), exp, half, vid(id), now.Sub(s.LastActivity)))
					}
				}
				res.Outcomes["after lowering the expiration"]++
			}
		}
		if len(res.Samples) < 3 {
			res.Samples = append(res.Samples, fmt.Sprintf("scenario %s: %d sessions x 8 clock positions around the expiration threshold", sc.Name, len(ids)))
		}
	}
	b, _ := json.Marshal(res)
	if out := os.Getenv("VERIF_OUT"); out != "" {
		os.WriteFile(out, b, 0644)
	} else {
		fmt.Println(string(b))
	}
}
