//go:build verif

package ircserver

// C13: privileged effects require the privilege.  A diff monitor: entitlement is
// computed from the view of the state *before* the entry, then every difference
// between pre and post state must be entitled.

import (
	"crypto/hmac"
	"crypto/sha256"
	"encoding/base64"
	"fmt"
	"regexp"
	"sort"
	"strconv"
	"strings"
	"time"

	"github.com/robustirc/robustirc/internal/robust"
	"gopkg.in/sorcix/irc.v2"
)

// vCaptchaValid is an independent implementation of the captcha definition of
// DESIGN.md C13: three base64 parts, purpose "okay:<cmd>:<unixnano>:<arg>", HMAC over
// purpose||challenge under the configured secret, embedded time <= 5 min before now.
func vCaptchaValid(secret []byte, token string, now time.Time) bool {
	parts := strings.Split(token, ".")
	if len(parts) != 3 {
		return false
	}
	var dec [3][]byte
	for k, p := range parts {
		b, err := base64.StdEncoding.DecodeString(p)
		if err != nil {
			return false
		}
		dec[k] = b
	}
	purpose := string(dec[0])
	if !strings.HasPrefix(purpose, "okay:") {
		return false
	}
	mac := hmac.New(sha256.New, secret)
	mac.Write(dec[0])
	mac.Write(dec[1])
	if !hmac.Equal(mac.Sum(nil), dec[2]) {
		return false
	}
	pp := strings.Split(purpose, ":")
	if len(pp) != 4 {
		return false
	}
	ts, err := strconv.ParseInt(pp[2], 10, 64)
	if err != nil {
		return false
	}
	return now.Sub(time.Unix(0, ts)) <= 5*time.Minute
}

var vTokenRe = regexp.MustCompile(`[A-Za-z0-9+/=]+\.[A-Za-z0-9+/=]+\.[A-Za-z0-9+/=]+`)

func init() { vMonitors["C13"] = monC13 }

var vC13Twin vTwinSlot

func vC13Out(msgs []*robust.Message) string {
	var b strings.Builder
	for _, m := range msgs {
		if strings.Contains(m.Data, " 003 ") {
			continue
		}
		var rs []string
		for id, ok := range m.InterestingFor {
			if ok {
				rs = append(rs, strconv.FormatUint(id, 10))
			}
		}
		sort.Strings(rs)
		fmt.Fprintf(&b, "%q->%s\n", m.Data, strings.Join(rs, ","))
	}
	return b.String()
}

// vC13Restored: a request that has no effect on this node (refused, or a query) is repeated on a node that was
// restored from a snapshot of the same state.  What decides about a privileged effect (bans, modes, invitations,
// operator and services status, the captcha grace period) must survive the snapshot: if the restored node
// answers differently AND its state changes, it granted what this node refused.
func vC13Restored(c *VCtx) {
	if c.Changed || c.Step.Panic != nil {
		return
	}
	tw, st := vC13Twin.apply(c)
	if st == nil || st.Panic != nil {
		return
	}
	c.Count("c13_requests_without_effect_repeated_on_a_restored_node")
	if vC13Out(st.Msgs) == vC13Out(c.Step.Msgs) {
		return
	}
	vC13Twin.inst = nil // whatever happened there, the next entry starts from the saved pre-state
	ref := VerifNewServer()
	if _, err := ref.Unmarshal(vC13Twin.bytes); err != nil {
		return
	}
	if VerifDump(ref, VerifDumpOpts{NoStamps: true}) == VerifDump(tw.Srv, VerifDumpOpts{NoStamps: true}) {
		return // answered differently, changed nothing: not a grant (C03 compares the answers)
	}
	c.Report("a request that is refused on the node takes effect on a node restored from a snapshot ["+vEntryCmd(&c.Step.Entry)+"]",
		fmt.Sprintf("%s: no effect on the node that ran the history (%d replies), but on a node whose state went through Marshal/Unmarshal it changes the state; replies there: %s", c.Step.Entry.String(), len(c.Step.Msgs), vC13Out(st.Msgs)))
}

func monC13(c *VCtx) {
	if c.Step.Panic != nil {
		return
	}
	vC13Restored(c)
	v := c.Pre
	i := c.In.Srv
	e := &c.Step.Entry
	cmdName := vEntryCmd(e)
	A := v.Sessions[e.Session]
	if e.Type == robust.Config || e.Type == robust.CreateSession {
		A = nil
	}
	isSvc := A != nil && A.Server
	isOper := A != nil && A.Operator
	isChanop := func(lc string) bool {
		if A == nil {
			return false
		}
		ch := v.Chans[lc]
		return ch != nil && ch.Members[A.LcNick]
	}
	member := func(lc string) bool {
		if A == nil {
			return false
		}
		ch := v.Chans[lc]
		if ch == nil {
			return false
		}
		_, ok := ch.Members[A.LcNick]
		return ok
	}
	actorDesc := "no session"
	if A != nil {
		actorDesc = fmt.Sprintf("%s nick=%q oper=%v server=%v", vid(A.Id), A.Nick, A.Operator, A.Server)
	}
	rep := func(kind, desc string) {
		c.Report(kind+" ["+cmdName+"]", fmt.Sprintf("entry %s by %s: %s", e.String(), actorDesc, desc))
	}
	var entryMsg *irc.Message
	if e.Type == robust.IRCFromClient {
		entryMsg = irc.ParseMessage(e.Data)
	}
	entryCmd := ""
	if entryMsg != nil {
		entryCmd = strings.ToUpper(entryMsg.Command)
	}

	// ---- config ----------------------------------------------------------------
	if e.Type != robust.Config {
		i.ConfigMu.RLock()
		post := i.Config
		bannedChanged := len(post.Banned) != len(v.Cfg.Banned)
		for k, x := range post.Banned {
			if v.Cfg.Banned[k] != x {
				bannedChanged = true
			}
		}
		other := post.Revision != v.Cfg.Revision || post.MaxSessions != v.Cfg.MaxSessions || post.MaxChannels != v.Cfg.MaxChannels ||
			post.CaptchaURL != v.Cfg.CaptchaURL || len(post.IRC.Operators) != len(v.Cfg.IRC.Operators) || len(post.IRC.Services) != len(v.Cfg.IRC.Services) ||
			post.SessionExpiration != v.Cfg.SessionExpiration || post.PostMessageCooloff != v.Cfg.PostMessageCooloff
		i.ConfigMu.RUnlock()
		if bannedChanged {
			c.Count("c13_glines")
			if !isOper {
				rep("ban list of the network changed by a non-operator", "Config.Banned changed")
			}
		}
		if other {
			rep("network configuration changed by a non-config entry", "config fields changed")
		}
	}
	if e.Type == robust.Config {
		return
	}

	// ---- sessions ----------------------------------------------------------------
	for id, pre := range v.Sessions {
		post, live := i.sessions[id]
		if !live {
			if id != e.Session {
				c.Count("c13_foreign_closures")
				if !(isOper || isSvc) {
					rep("session closed by somebody who is neither operator nor services", fmt.Sprintf("%s (%q) is gone", vid(id), pre.Nick))
				}
			}
			continue
		}
		if !post.LastSolvedCaptcha.Equal(pre.Captcha) {
			// the "recently solved a captcha" grace period may only be armed by a valid token
			c.Count("c13_captcha_grace_armed")
			ok := false
			for _, m := range vTokenRe.FindAllString(e.Data+" "+pre.Pass+" "+post.Pass, -1) {
				// the token may be glued to a "captcha=" style prefix: try every suffix behind an '='
				// that precedes the first '.'
				cands := []string{m}
				dot := strings.IndexByte(m, '.')
				for k := 0; k < dot; k++ {
					if m[k] == '=' {
						cands = append(cands, m[k+1:])
					}
				}
				for _, tok := range cands {
					if vCaptchaValid([]byte(v.Cfg.CaptchaHMACSecret), tok, time.Unix(0, e.UnixNano)) {
						ok = true
					}
				}
			}
			if !ok {
				rep("captcha grace period armed without a valid captcha", fmt.Sprintf("%s: LastSolvedCaptcha %v -> %v", vid(id), pre.Captcha, post.LastSolvedCaptcha))
			}
		}
		if post.Operator && !pre.Operator {
			c.Count("c13_oper_grants")
			ok := A != nil && id == e.Session
			if ok {
				ok = false
				for _, op := range v.Cfg.IRC.Operators {
					cred := op.Name + " " + op.Password
					if strings.Contains(e.Data, cred) || strings.Contains(pre.Pass, cred) {
						ok = true
					}
				}
			}
			if !ok {
				rep("operator status granted without a configured name/password", fmt.Sprintf("%s became operator", vid(id)))
			}
		}
		if post.Server && !pre.Server {
			c.Count("c13_server_grants")
			ok := A != nil && id == e.Session
			if ok {
				ok = false
				for _, sv := range v.Cfg.IRC.Services {
					if pre.Pass == "services="+sv.Password {
						ok = true
					}
				}
			}
			if !ok {
				rep("services status granted without a configured services password", fmt.Sprintf("%s became a services link with PASS %q", vid(id), pre.Pass))
			}
		}
		for lc := range post.invitedTo {
			if pre.Invited[string(lc)] {
				continue
			}
			c.Count("c13_invitations")
			if isSvc {
				continue
			}
			ch := v.Chans[string(lc)]
			if ch == nil || !member(string(lc)) {
				rep("invitation created by a session that is not on the channel", fmt.Sprintf("%s invited to %s", vid(id), lc))
			} else if v.hasMode(ch, 'i') && !isChanop(string(lc)) {
				rep("invitation into a +i channel by a non-chanop", fmt.Sprintf("%s invited to %s", vid(id), lc))
			}
		}
	}

	// ---- channels ------------------------------------------------------------------
	sessOf := func(lcnick string) (robust.Id, bool) { id, ok := v.ByNick[lcnick]; return id, ok }
	for lc, pre := range v.Chans {
		post := i.channels[lcChan(lc)]
		if post == nil {
			// the channel ceased to exist: so do the invitations into it (an invitation is a grant of the channel's
			// operators; a later channel of the same name is somebody else's)
			c.Count("c13_channel_deaths")
			for id, ps := range i.sessions {
				if ps.invitedTo[lcChan(lc)] {
					rep("an invitation outlives the channel it was issued for", fmt.Sprintf("%s does not exist any more, %s still holds an invitation to it (it would admit the holder to a later channel of that name)", lc, vid(id)))
				}
			}
		}
		// members removed by somebody else
		for n := range pre.Members {
			id, ok := sessOf(n)
			if !ok {
				continue
			}
			ps, live := i.sessions[id]
			if !live {
				continue // closure handled above
			}
			still := false
			if post != nil {
				_, still = post.nicks[NickToLower(ps.Nick)]
			}
			if !still && id != e.Session {
				c.Count("c13_foreign_removals")
				if !(isSvc || isChanop(lc)) {
					rep("member removed from a channel by a non-chanop", fmt.Sprintf("%s removed from %s", vid(id), lc))
				}
			}
		}
		if post == nil {
			continue
		}
		// modes / key / bans
		postBans := make([]string, 0, len(post.bans))
		for _, b := range post.bans {
			postBans = append(postBans, b.pattern+"~"+b.re.String())
		}
		if vModesStr(&post.modes) != pre.Modes || post.key != pre.Key || strings.Join(postBans, "\x00") != strings.Join(pre.Bans, "\x00") {
			c.Count("c13_channel_mode_changes")
			if !(isSvc || isOper || isChanop(lc)) {
				rep("channel modes/key/bans changed without chanop or operator status", fmt.Sprintf("%s: modes %q->%q key %q->%q bans %d->%d", lc, pre.Modes, vModesStr(&post.modes), pre.Key, post.key, len(pre.Bans), len(post.bans)))
			}
		}
		// operator flags, by session identity
		for n, wasOp := range pre.Members {
			id, ok := sessOf(n)
			if !ok {
				continue
			}
			ps, live := i.sessions[id]
			if !live {
				continue
			}
			if p, ok := post.nicks[NickToLower(ps.Nick)]; ok && p != nil && p[chanop] != wasOp {
				c.Count("c13_op_flag_changes")
				if !(isSvc || isOper || isChanop(lc)) {
					rep("channel operator status changed without chanop or operator status", fmt.Sprintf("%s in %s: %v->%v", vid(id), lc, wasOp, p[chanop]))
				}
			}
		}
		for n, p := range post.nicks {
			ps := i.nicks[n]
			if ps == nil {
				continue
			}
			pv := v.Sessions[ps.Id]
			if pv != nil && pv.Channels[lc] {
				continue
			}
			// new member of an existing channel
			if p != nil && p[chanop] && !isSvc {
				rep("new member of an existing channel was given operator status", fmt.Sprintf("%s in %s", vid(ps.Id), lc))
			}
		}
		// topic
		if post.topic != pre.Topic || post.topicNick != pre.TopicNick || !post.topicTime.Equal(pre.TopicTime) {
			c.Count("c13_topic_changes")
			if !isSvc {
				if !member(lc) {
					rep("topic changed by a session that is not on the channel", fmt.Sprintf("%s topic %q->%q", lc, pre.Topic, post.topic))
				} else if v.hasMode(pre, 't') && !isChanop(lc) {
					rep("topic of a +t channel changed by a non-chanop", fmt.Sprintf("%s topic %q->%q", lc, pre.Topic, post.topic))
				}
			}
		}
	}

	// ---- network-wide notices ---------------------------------------------------------
	for _, m := range c.Step.Msgs {
		msg := irc.ParseMessage(m.Data)
		if msg == nil || msg.Prefix == nil || len(msg.Params) == 0 {
			continue
		}
		cmd := strings.ToUpper(msg.Command)
		if (cmd == "PRIVMSG" || cmd == "NOTICE") && strings.HasPrefix(msg.Params[0], "$") && strings.HasPrefix(msg.Prefix.Host, "robust/") {
			c.Count("c13_broadcasts")
			if !isOper {
				rep("network-wide notice by a non-operator", m.Data)
			}
		}
	}

	// ---- joining an existing channel by one's own JOIN -----------------------------------
	if A == nil || isSvc || entryCmd != "JOIN" || entryMsg == nil || len(entryMsg.Params) == 0 {
		return
	}
	post := i.sessions[A.Id]
	if post == nil {
		return
	}
	var keys []string
	if len(entryMsg.Params) > 1 {
		keys = strings.Split(entryMsg.Params[1], ",")
	}
	now := time.Unix(0, e.UnixNano)
	addr := A.Addr
	if e.RemoteAddr != "" {
		addr = e.RemoteAddr
	}
	// the invitation/captcha state evolves while a multi-channel JOIN is processed: track it
	invited := map[string]bool{}
	for k := range A.Invited {
		invited[k] = true
	}
	lastSolved := A.Captcha
	seen := map[string]bool{}
	for idx, name := range strings.Split(entryMsg.Params[0], ",") {
		lc := strings.ToLower(name)
		key := ""
		if idx < len(keys) {
			key = keys[idx]
		}
		ch := v.Chans[lc]
		if ch == nil || seen[lc] {
			seen[lc] = true
			continue // newly created (or repeated) channel: nothing to gate
		}
		seen[lc] = true
		if A.Channels[lc] {
			continue
		}
		joined := post.Channels[lcChan(lc)]
		inv := invited[lc]
		needCaptcha := v.hasMode(ch, 'x') && !inv
		captchaOK := false
		if needCaptcha {
			recently := now.Sub(lastSolved) < time.Minute
			captchaOK = recently || vCaptchaValid([]byte(v.Cfg.CaptchaHMACSecret), key, now)
		}
		if !joined {
			// a refused captcha attempt does not solve anything; an accepted one refreshes the grace period
			continue
		}
		c.Count("c13_gated_joins")
		if needCaptcha && captchaOK {
			lastSolved = now
		}
		if v.hasMode(ch, 'i') || v.hasMode(ch, 'x') {
			delete(invited, lc)
			if post.invitedTo[lcChan(lc)] {
				rep("invitation not consumed by the JOIN", lc)
			}
		}
		if v.hasMode(ch, 'i') && !inv {
			rep("joined an invite-only channel without invitation", lc)
		}
		if needCaptcha && !captchaOK {
			rep("joined a captcha-protected channel without invitation or valid captcha", fmt.Sprintf("%s with key %q", lc, key))
		}
		if v.hasMode(ch, 'k') && !v.hasMode(ch, 'x') && key != ch.Key {
			rep("joined a keyed channel without the exact key", fmt.Sprintf("%s key %q supplied %q", lc, ch.Key, key))
		}
		for _, src := range ch.BanRes {
			re, err := regexp.Compile(src)
			if err != nil {
				continue
			}
			if re.MatchString(A.Prefix) || re.MatchString(A.Nick+"!"+A.Username+"@"+addr) {
				kind := "joined a channel although a ban matches"
				if v.hasMode(ch, 'x') {
					kind = "joined a +x channel although a ban matches"
				}
				rep(kind, fmt.Sprintf("%s ban %q matches %q / %q", lc, src, A.Prefix, A.Nick+"!"+A.Username+"@"+addr))
				break
			}
		}
	}
}
