//go:build verif

package ircserver

// C17 (c): after a session ended its nickname is free, it has left all channels and
// it receives nothing further.  Runs as a monitor on every mc transition.

import (
	"fmt"

	"github.com/robustirc/robustirc/internal/robust"
)

func init() { vMonitors["C17"] = monC17 }

func monC17(c *VCtx) {
	if c.Step.Panic != nil {
		return
	}
	v := c.Pre
	i := c.In.Srv
	e := &c.Step.Entry
	cmdName := vEntryCmd(e)
	// no output may be addressed to a session that is neither live before nor after the entry
	livePre := map[uint64]bool{}
	for id := range v.Sessions {
		livePre[id.Id] = true
	}
	livePost := map[uint64]bool{}
	for id := range i.sessions {
		livePost[id.Id] = true
	}
	for _, m := range c.Step.Msgs {
		for id, ok := range m.InterestingFor {
			if !ok {
				continue
			}
			c.Count("c17_recipients_checked")
			if !livePre[id] && !livePost[id] {
				kind := "client"
				for _, sid := range v.Servers {
					if sid == id {
						kind = "former services link"
					}
				}
				c.Report(fmt.Sprintf("output addressed to an ended session (%s) [%s]", kind, cmdName),
					fmt.Sprintf("entry %s: output %q names session %d as recipient, which ended earlier", e.String(), m.Data, id))
			}
		}
	}
	// a DeleteSession entry (expiry sweep, DELETE request, /kill) for a live session ends it, whatever its quit
	// message says
	if e.Type == robust.DeleteSession {
		if pre := v.Sessions[e.Session]; pre != nil {
			c.Count("c17_delete_entries_for_live_sessions")
			if _, still := i.sessions[e.Session]; still {
				c.Report("a DeleteSession entry does not end the session", fmt.Sprintf("entry %s: %s (%q) is still there", e.String(), vid(e.Session), pre.Nick))
			}
		}
	}
	// sessions ended by this entry
	var ended []*VSess
	for id, s := range v.Sessions {
		if _, ok := i.sessions[id]; !ok {
			ended = append(ended, s)
		}
	}
	if len(ended) == 0 {
		return
	}
	vC17Ended(c, i, ended, cmdName, "")
	vC17Restored(c, cmdName)
	// observable probe (the instance is discarded after a state change anyway): another
	// logged-in client takes over the nickname
	if len(vInvariants(i)) > 0 {
		return
	}
	defer func() {
		if r := recover(); r != nil {
			c.Count("c17_probe_panics")
		}
	}()
	for _, s := range ended {
		if s.Nick == "" || !IsValidNickname(s.Nick) || IsServicesNickname(s.Nick) {
			continue
		}
		if _, held := i.svsholds[NickToLower(s.Nick)]; held {
			continue
		}
		if o := i.nicks[NickToLower(s.Nick)]; o != nil {
			continue // somebody else legitimately owns it already
		}
		var prober *robust.Id
		for id, o := range i.sessions {
			if id.Reply == 0 && !o.Server && o.loggedIn {
				idc := id
				if prober == nil || idc.Id < prober.Id {
					prober = &idc
				}
			}
		}
		if prober == nil {
			continue
		}
		vProbe(c.In, *prober, "NICK "+s.Nick)
		c.Count("c17_nick_probes")
		if o := i.sessions[*prober]; o == nil || o.Nick != s.Nick {
			c.Report("nickname of an ended session is not free ["+cmdName+"]", fmt.Sprintf("entry %s ended %s; NICK %s from %s was refused", e.String(), vid(s.Id), s.Nick, vid(*prober)))
		}
		break
	}
}

// vC17Ended checks the index and the channels of |i| for the sessions that the entry ended.
func vC17Ended(c *VCtx, i *IRCServer, ended []*VSess, cmdName, where string) {
	e := &c.Step.Entry
	for _, s := range ended {
		c.Count("c17_session_ends" + where)
		if s.Nick != "" {
			if o := i.nicks[NickToLower(s.Nick)]; o != nil && o.Id == s.Id {
				c.Report("nickname of an ended session is still owned by it ["+cmdName+"]"+where, fmt.Sprintf("entry %s ended %s but %q still maps to it", e.String(), vid(s.Id), s.Nick))
			}
		}
		for lc, ch := range i.channels {
			if s.Nick == "" {
				continue
			}
			if _, ok := ch.nicks[NickToLower(s.Nick)]; ok {
				if o := i.nicks[NickToLower(s.Nick)]; o == nil || o.Id == s.Id {
					c.Report("ended session is still listed in a channel ["+cmdName+"]"+where, fmt.Sprintf("entry %s ended %s (%q) but %s still lists it", e.String(), vid(s.Id), s.Nick, lc))
				}
			}
		}
	}
}

var vC17Snap struct {
	hist []VEntry // kept referenced, so that its address cannot be reused by another history
	b    []byte
	err  error
}

// vC17Restored repeats the entry on a node that was restored from a snapshot of the state just before it
// (Unmarshal(Marshal(pre))): sessions end the same way there.  Fields that are derived at run time and not
// part of the snapshot must be rebuilt by the restore for this to hold.
func vC17Restored(c *VCtx, cmdName string) {
	if len(c.hist) == 0 {
		return
	}
	if len(vC17Snap.hist) != len(c.hist) || &vC17Snap.hist[0] != &c.hist[0] {
		pre := VerifBuild(c.hist)
		b, err := pre.Srv.Marshal(0)
		vC17Snap.hist, vC17Snap.b, vC17Snap.err = c.hist, b, err
	}
	if vC17Snap.err != nil {
		return // C03 reports this
	}
	j := VerifNewServer()
	if _, err := j.Unmarshal(vC17Snap.b); err != nil {
		return
	}
	rin := &VInst{Srv: j, Hist: append([]VEntry(nil), c.hist...)}
	if st := rin.Apply(c.Step.Entry); st.Panic != nil {
		c.Report("ending a session panics on a node restored from a snapshot ["+cmdName+"]", fmt.Sprintf("entry %s: %v", c.Step.Entry.String(), st.Panic))
		return
	}
	c.Count("c17_session_ends_replayed_on_restored_node")
	var ended []*VSess
	for id, s := range c.Pre.Sessions {
		if _, ok := j.sessions[id]; !ok {
			ended = append(ended, s)
		} else if _, live := c.In.Srv.sessions[id]; !live {
			c.Report("session ends on the original node but not on a node restored from a snapshot ["+cmdName+"]", fmt.Sprintf("entry %s: session %s", c.Step.Entry.String(), vid(id)))
		}
	}
	vC17Ended(c, j, ended, cmdName, " (node restored from a snapshot)")
}
