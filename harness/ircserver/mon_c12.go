//go:build verif

package ircserver

// C12: recipients and sender identity of every output message.
//
// The membership relation used by the rules is the pre-state view; its agreement
// with what the server *announces* (JOIN/PART/KICK/QUIT/NICK/KILL/ERROR lines) is
// enforced on every transition (announced => reflected in the post state,
// membership change => announced), so by induction over the history it is exactly
// the relation an announcement-driven reference model would hold.

import (
	"fmt"
	"sort"
	"strconv"
	"strings"

	"github.com/robustirc/robustirc/internal/robust"
	"gopkg.in/sorcix/irc.v2"
)

type vset map[uint64]bool

func (s vset) String() string {
	var ks []uint64
	for k := range s {
		ks = append(ks, k)
	}
	sort.Slice(ks, func(a, b int) bool { return ks[a] < ks[b] })
	return fmt.Sprint(ks)
}

func (s vset) subsetOf(o vset) bool {
	for k := range s {
		if !o[k] {
			return false
		}
	}
	return true
}

func (s vset) equal(o vset) bool { return s.subsetOf(o) && o.subsetOf(s) }

// vPostView is a light view of the post state (the instance may be poisoned after a panic).
func vMembersPost(i *IRCServer, lc string, svc vset) vset {
	out := vset{}
	c, ok := i.channels[lcChan(lc)]
	if !ok {
		return out
	}
	for n := range c.nicks {
		if s := i.nicks[n]; s != nil && !svc[s.Id.Id] {
			out[s.Id.Id] = true
		}
	}
	return out
}

func (v *VView) members(lc string, svc vset) vset {
	out := vset{}
	c, ok := v.Chans[lc]
	if !ok {
		return out
	}
	for n := range c.Members {
		if id, ok := v.ByNick[n]; ok && !svc[id.Id] {
			out[id.Id] = true
		}
	}
	return out
}

// coMembers returns every client session sharing a channel with the session (pre state).
func (v *VView) coMembers(s *VSess, svc vset) vset {
	out := vset{}
	for lc := range s.Channels {
		for id := range v.members(lc, svc) {
			out[id] = true
		}
	}
	return out
}

// vSubject resolves a client-style prefix to the session whose identity it states.
func (v *VView) vSubject(p *irc.Prefix) *VSess {
	if !strings.HasPrefix(p.Host, "robust/0x") {
		return nil
	}
	id, err := strconv.ParseUint(p.Host[len("robust/0x"):], 16, 64)
	if err != nil {
		return nil
	}
	var cands []*VSess
	for sid, s := range v.Sessions {
		if sid.Id == id {
			cands = append(cands, s)
		}
	}
	for _, s := range cands {
		if s.Nick == p.Name && s.Username == p.User {
			return s
		}
	}
	return nil
}

func vIsChan(s string) bool { return strings.HasPrefix(s, "#") }

func vIsNumeric(c string) bool {
	return len(c) == 3 && c[0] >= '0' && c[0] <= '9' && c[1] >= '0' && c[1] <= '9' && c[2] >= '0' && c[2] <= '9'
}

func init() {
	vMonitors["C12"] = monC12
}

func monC12(c *VCtx) {
	if c.Step.Panic != nil {
		return
	}
	v := c.Pre
	i := c.In.Srv
	e := &c.Step.Entry
	svc := vset{}
	for _, id := range v.Servers {
		svc[id] = true
	}
	for _, id := range i.serverSessions {
		svc[id] = true
	}
	actor := v.Sessions[e.Session]
	actorId := e.Session.Id
	actorSet := vset{}
	if actor != nil && !svc[actorId] {
		actorSet[actorId] = true
	}
	privileged := actor != nil && (actor.Server || actor.Operator) || svc[actorId]
	// sessions closed by this entry
	closed := vset{}
	for id := range v.Sessions {
		if _, ok := i.sessions[id]; !ok && id.Reply == 0 {
			closed[id.Id] = true
		}
	}
	// targets a services entry may address with numerics (SVS* commands name them)
	svcTargets := vset{}
	var entryMsg *irc.Message
	if e.Type == robust.IRCFromClient {
		entryMsg = irc.ParseMessage(e.Data)
	}
	if entryMsg != nil && actor != nil && actor.Server {
		for _, p := range entryMsg.Params {
			if id, ok := v.ByNick[string(NickToLower(p))]; ok && !svc[id.Id] {
				svcTargets[id.Id] = true
			}
		}
	}
	cmdName := vEntryCmd(e)
	viol := func(kind, desc string, m *robust.Message, R vset, allowed vset) {
		c.Report(fmt.Sprintf("%s [%s of %s]", kind, vCmdOf(m.Data), cmdName),
			fmt.Sprintf("entry %s: output %q went to %v, rule allows %v: %s", e.String(), m.Data, R, allowed, desc))
	}

	type announced struct {
		cmd, ch string
		subj    *VSess
		victim  string
		newNick string
	}
	var ann []announced

	for _, m := range c.Step.Msgs {
		c.Count("c12_outputs_checked")
		R := vset{}
		for id, ok := range m.InterestingFor {
			if ok && !svc[id] {
				R[id] = true
			}
		}
		msg := irc.ParseMessage(m.Data)
		if msg == nil {
			if len(R) > 0 && !R.subsetOf(actorSet) {
				viol("unparsable output to others", "strict rule", m, R, actorSet)
			}
			continue
		}
		cmd := strings.ToUpper(msg.Command)
		p0 := ""
		if len(msg.Params) > 0 {
			p0 = msg.Params[0]
		}
		lc0 := strings.ToLower(p0)
		switch {
		case msg.Prefix == nil:
			switch cmd {
			case "ERROR":
				allowed := vset{}
				for k := range closed {
					allowed[k] = true
				}
				if !strings.HasPrefix(msg.Trailing(), "Closing Link") {
					for k := range actorSet {
						allowed[k] = true
					}
				}
				if !R.subsetOf(allowed) {
					viol("ERROR to a session that is not being closed", "closing ERROR only to the session being closed", m, R, allowed)
				}
				c.Count("c12_error_lines")
			default:
				// server-to-services burst: nobody but services links
				if len(R) > 0 {
					viol("prefix-less server line to a client", "only services links", m, R, vset{})
				}
			}
		case msg.Prefix.User == "" && msg.Prefix.Host == "" && i.ServerPrefix != nil && msg.Prefix.Name == i.ServerPrefix.Name:
			// server-prefixed
			switch {
			case vIsNumeric(cmd) || cmd == "PONG":
				allowed := vset{}
				for k := range actorSet {
					allowed[k] = true
				}
				for k := range svcTargets {
					allowed[k] = true
				}
				if !R.subsetOf(allowed) {
					viol("numeric reply to a session that did not cause it", "numerics only to the causing session (or the SVS* target)", m, R, allowed)
				}
				c.Count("c12_numerics")
			case (cmd == "NOTICE" || cmd == "MODE") && vIsChan(p0):
				allowed := v.members(lc0, svc)
				for k := range vMembersPost(i, lc0, svc) {
					allowed[k] = true
				}
				for k := range actorSet {
					allowed[k] = true
				}
				if !R.subsetOf(allowed) {
					viol("channel notice/mode to non-members", "only members of that channel", m, R, allowed)
				}
			case cmd == "SJOIN":
				if len(R) > 0 {
					viol("SJOIN to a client", "only services links", m, R, vset{})
				}
			default:
				allowed := vset{}
				for k := range actorSet {
					allowed[k] = true
				}
				for k := range svcTargets {
					allowed[k] = true
				}
				if !R.subsetOf(allowed) {
					viol("server line to a session that did not cause it", "strict rule: only the causing session", m, R, allowed)
				}
			}
		case msg.Prefix.User == "services" && msg.Prefix.Host == "services":
			// relayed from a services pseudo-client (or the link itself)
			if actor == nil || !actor.Server {
				viol("services-prefixed line caused by a non-services session", "identity", m, R, vset{})
				continue
			}
			switch cmd {
			case "PRIVMSG", "NOTICE":
				if vIsChan(p0) {
					want := v.members(lc0, svc)
					if !R.equal(want) {
						viol("services channel message recipients differ from members", "exactly the members", m, R, want)
					}
					c.Count("c12_channel_messages")
				} else {
					allowed := vset{}
					if id, ok := v.ByNick[string(NickToLower(p0))]; ok && !svc[id.Id] {
						allowed[id.Id] = true
					}
					if !R.subsetOf(allowed) {
						viol("services private message to somebody else", "only the owner of the target nickname", m, R, allowed)
					}
				}
			case "JOIN", "PART", "KICK", "TOPIC", "MODE":
				allowed := v.members(lc0, svc)
				for k := range vMembersPost(i, lc0, svc) {
					allowed[k] = true
				}
				if !R.subsetOf(allowed) {
					viol("services "+cmd+" announced outside the affected channel", "only sessions sharing the affected channel", m, R, allowed)
				}
				if cmd == "JOIN" || cmd == "PART" {
					ann = append(ann, announced{cmd: "S" + cmd, ch: lc0, victim: string(NickToLower(msg.Prefix.Name))})
				}
				if cmd == "KICK" && len(msg.Params) > 1 {
					ann = append(ann, announced{cmd: "KICK", ch: lc0, victim: string(NickToLower(msg.Params[1]))})
				}
			case "INVITE":
				allowed := vset{}
				if id, ok := v.ByNick[string(NickToLower(p0))]; ok && !svc[id.Id] {
					allowed[id.Id] = true
				}
				if !R.subsetOf(allowed) {
					viol("services INVITE to somebody else", "only the invited session", m, R, allowed)
				}
			default:
				if !R.subsetOf(svcTargets) {
					viol("services line to an unrelated session", "strict rule", m, R, svcTargets)
				}
			}
		case strings.HasPrefix(msg.Prefix.Host, "robust/0x"):
			subj := v.vSubject(msg.Prefix)
			if subj == nil {
				// the identity may have been established by this very entry (NICK/USER completing
				// the registration, USER changing the user name): accept the post-state identity
				// of a session that already existed
				if id, err := strconv.ParseUint(strings.TrimPrefix(msg.Prefix.Host, "robust/0x"), 16, 64); err == nil {
					for sid, ps := range i.sessions {
						if sid.Id == id && ps.Nick == msg.Prefix.Name && ps.Username == msg.Prefix.User {
							subj = v.Sessions[sid]
						}
					}
				}
			}
			if subj == nil {
				c.Report(fmt.Sprintf("relayed line carries a prefix that is no session's identity [%s of %s]", cmd, cmdName),
					fmt.Sprintf("entry %s: output %q has prefix %q; no session had that nick/user/id before the entry", e.String(), m.Data, msg.Prefix.String()))
				continue
			}
			c.Count("c12_client_prefixed")
			if (subj.Id != e.Session) && !privileged {
				c.Report(fmt.Sprintf("line relayed under another session's identity [%s of %s]", cmd, cmdName),
					fmt.Sprintf("entry %s from session %s produced %q which speaks as session %s", e.String(), vid(e.Session), m.Data, vid(subj.Id)))
			}
			sid := subj.Id.Id
			switch cmd {
			case "PRIVMSG", "NOTICE":
				switch {
				case vIsChan(p0):
					want := v.members(lc0, svc)
					delete(want, sid)
					if !R.equal(want) {
						viol("channel message recipients differ from the other members", "every other member and nobody else", m, R, want)
					}
					c.Count("c12_channel_messages")
					if len(want) >= 2 {
						c.Count("c12_channel_messages_2plus_others")
					}
				case strings.HasPrefix(p0, "$"):
					// network-wide notice: privilege is C13's subject
				default:
					allowed := vset{}
					if id, ok := v.ByNick[string(NickToLower(p0))]; ok && !svc[id.Id] {
						allowed[id.Id] = true
					}
					if !R.subsetOf(allowed) {
						viol("private message delivered to somebody else", "only the owner of the target nickname", m, R, allowed)
					}
					c.Count("c12_private_messages")
				}
			case "JOIN", "PART", "KICK", "TOPIC":
				allowed := v.members(lc0, svc)
				for k := range vMembersPost(i, lc0, svc) {
					allowed[k] = true
				}
				allowed[sid] = true
				if !R.subsetOf(allowed) {
					viol(cmd+" announced outside the affected channel", "only sessions sharing the affected channel and the subject", m, R, allowed)
				}
				switch cmd {
				case "JOIN":
					ann = append(ann, announced{cmd: "JOIN", ch: lc0, subj: subj})
				case "PART":
					ann = append(ann, announced{cmd: "PART", ch: lc0, subj: subj})
				case "KICK":
					if len(msg.Params) > 1 {
						ann = append(ann, announced{cmd: "KICK", ch: lc0, victim: string(NickToLower(msg.Params[1]))})
					}
				}
			case "MODE":
				if vIsChan(p0) {
					allowed := v.members(lc0, svc)
					allowed[sid] = true
					if !R.subsetOf(allowed) {
						viol("channel MODE announced outside the channel", "only members", m, R, allowed)
					}
				} else {
					allowed := vset{sid: true}
					if id, ok := v.ByNick[string(NickToLower(p0))]; ok && !svc[id.Id] {
						allowed[id.Id] = true
					}
					if !R.subsetOf(allowed) {
						viol("user MODE delivered to somebody else", "only actor and target", m, R, allowed)
					}
				}
			case "INVITE":
				allowed := vset{}
				if id, ok := v.ByNick[string(NickToLower(p0))]; ok && !svc[id.Id] {
					allowed[id.Id] = true
				}
				if !R.subsetOf(allowed) {
					viol("INVITE delivered to somebody else", "only the invited session", m, R, allowed)
				}
			case "NICK", "QUIT":
				allowed := v.coMembers(subj, svc)
				allowed[sid] = true
				if !R.subsetOf(allowed) {
					viol(cmd+" announced to sessions sharing no channel", "only sessions sharing a channel with the subject, and the subject", m, R, allowed)
				}
				if cmd == "NICK" {
					ann = append(ann, announced{cmd: "NICK", subj: subj, newNick: msg.Trailing()})
				} else {
					ann = append(ann, announced{cmd: "QUIT", subj: subj})
				}
			case "KILL":
				allowed := vset{}
				if id, ok := v.ByNick[string(NickToLower(p0))]; ok && !svc[id.Id] {
					allowed[id.Id] = true
				}
				if !R.subsetOf(allowed) {
					viol("KILL delivered to somebody else", "only the victim", m, R, allowed)
				}
			default:
				allowed := vset{sid: true}
				if !R.subsetOf(allowed) {
					viol("unclassified client-prefixed line to others", "strict rule", m, R, allowed)
				}
			}
		default:
			// e.g. link-prefixed SVSMODE echo (":services.name MODE nick +r") or nick-only TOPIC to services
			allowed := vset{}
			for k := range svcTargets {
				allowed[k] = true
			}
			for k := range actorSet {
				allowed[k] = true
			}
			if !R.subsetOf(allowed) {
				viol("unclassified line to an unrelated session", "strict rule: causing session or SVS* target", m, R, allowed)
			}
		}
	}

	// --- announcements <-> membership changes -----------------------------------
	memberPre := func(lc string, id robust.Id) bool {
		s := v.Sessions[id]
		return s != nil && s.Channels[lc]
	}
	memberPost := func(lc string, id robust.Id) bool {
		s := i.sessions[id]
		if s == nil || s.deleted {
			return false
		}
		ch := i.channels[lcChan(lc)]
		if ch == nil {
			return false
		}
		_, ok := ch.nicks[NickToLower(s.Nick)]
		return ok || s.Channels[lcChan(lc)]
	}
	annJoin := map[string]bool{}
	annLeave := map[string]bool{}
	for _, a := range ann {
		switch a.cmd {
		case "JOIN":
			annJoin[a.ch+"|"+vid(a.subj.Id)] = true
			if !memberPost(a.ch, a.subj.Id) {
				c.Report("announced JOIN is not reflected in membership ["+cmdName+"]", fmt.Sprintf("entry %s announced JOIN %s of %s but it is not a member afterwards", e.String(), a.ch, vid(a.subj.Id)))
			}
		case "PART":
			annLeave[a.ch+"|"+vid(a.subj.Id)] = true
			if memberPost(a.ch, a.subj.Id) {
				c.Report("announced PART but still a member ["+cmdName+"]", fmt.Sprintf("entry %s announced PART %s of %s but it is still a member", e.String(), a.ch, vid(a.subj.Id)))
			}
		case "SJOIN", "SPART", "KICK":
			id, ok := v.ByNick[a.victim]
			if !ok {
				continue
			}
			if a.cmd == "SJOIN" {
				annJoin[a.ch+"|"+vid(id)] = true
				if !memberPost(a.ch, id) {
					c.Report("announced services JOIN is not reflected in membership ["+cmdName+"]", fmt.Sprintf("entry %s", e.String()))
				}
			} else {
				annLeave[a.ch+"|"+vid(id)] = true
				if memberPost(a.ch, id) {
					c.Report("announced "+a.cmd+" but still a member ["+cmdName+"]", fmt.Sprintf("entry %s announced %s of %q from %s but it is still a member afterwards", e.String(), a.cmd, a.victim, a.ch))
				}
			}
		case "QUIT":
			if s, ok := i.sessions[a.subj.Id]; ok && !s.deleted {
				c.Report("announced QUIT but session still live ["+cmdName+"]", fmt.Sprintf("entry %s announced QUIT of %s", e.String(), vid(a.subj.Id)))
			}
			for lc := range a.subj.Channels {
				annLeave[lc+"|"+vid(a.subj.Id)] = true
			}
		case "NICK":
			s := i.sessions[a.subj.Id]
			if s == nil || s.Nick != a.newNick || i.nicks[NickToLower(a.newNick)] != s {
				c.Report("announced NICK is not reflected in nickname ownership ["+cmdName+"]", fmt.Sprintf("entry %s announced %s -> %q", e.String(), vid(a.subj.Id), a.newNick))
			}
		}
	}
	// every membership change must have been announced (session closure counts as leaving)
	for id, s := range v.Sessions {
		for lc := range s.Channels {
			if memberPost(lc, id) {
				continue
			}
			if _, live := i.sessions[id]; !live {
				c.Count("c12_leave_by_closure")
				continue
			}
			if !annLeave[lc+"|"+vid(id)] {
				c.Report("membership removed without announcement ["+cmdName+"]", fmt.Sprintf("entry %s: %s left %s but no PART/KICK/QUIT was emitted", e.String(), vid(id), lc))
			}
		}
	}
	for id, s := range i.sessions {
		if s.deleted {
			continue
		}
		for lc := range s.Channels {
			if memberPre(string(lc), id) {
				continue
			}
			if !annJoin[string(lc)+"|"+vid(id)] {
				c.Report("membership added without announcement ["+cmdName+"]", fmt.Sprintf("entry %s: %s is now on %s but no JOIN was emitted", e.String(), vid(id), lc))
			}
		}
	}
	// completeness: a PRIVMSG / NOTICE of a logged-in member to its channel (one target, some text) is relayed to
	// the other members -- the server has no mode that silences a member
	if actor != nil && actor.LoggedIn && !actor.Server && e.Type == robust.IRCFromClient && len(c.Step.Msgs) >= 0 {
		if pm := irc.ParseMessage(vSanitize(e.Data)); pm != nil && (strings.EqualFold(pm.Command, "PRIVMSG") || strings.EqualFold(pm.Command, "NOTICE")) && len(pm.Params) >= 2 && pm.Params[1] != "" && vIsChan(pm.Params[0]) && !strings.Contains(pm.Params[0], ",") {
			lc := string(ChanToLower(pm.Params[0]))
			if ch := v.Chans[lc]; ch != nil {
				if _, member := ch.Members[string(NickToLower(actor.Nick))]; member && actor.Channels[lc] {
					want := v.members(lc, svc)
					delete(want, actorId)
					relayed := false
					for _, m := range c.Step.Msgs {
						om := irc.ParseMessage(m.Data)
						if om != nil && strings.EqualFold(om.Command, pm.Command) && len(om.Params) > 0 && string(ChanToLower(om.Params[0])) == lc && om.Prefix != nil && NickToLower(om.Prefix.Name) == NickToLower(actor.Nick) {
							relayed = true
						}
					}
					c.Count("c12_member_messages")
					if len(want) > 0 && !relayed {
						c.Report("channel message of a member is not relayed to the other members ["+strings.ToUpper(pm.Command)+"]", fmt.Sprintf("entry %s: %s is a member of %s with %d other member(s), but no %s to the channel was emitted", e.String(), vid(e.Session), lc, len(want), strings.ToUpper(pm.Command)))
					}
				}
			}
		}
	}
}
