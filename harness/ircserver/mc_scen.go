//go:build verif

package ircserver

// Scripted scenario prefixes (DESIGN.md section 1.2 "scenario fan-out").  Each
// reaches a qualitatively different state; the explorer then applies the whole
// alphabet from there.  Session ids are the ids of their CreateSession entries.

import (
	"fmt"
	"strings"
	"time"
)

type VScenario struct {
	Name string
	// CutOnly: a state that only the serialization check (C03) and the determinism check (C01) start from.  It is
	// reachable only with the services password and by using the protocol in a way no services package does; the
	// behavioural monitors (recipients, privileges, invariants) are not specified for it.
	CutOnly bool
	Hist    []VEntry
}

const vSrvName = "services.robustirc.net"

func (b *vbuilder) services() uint64 {
	s := b.create()
	b.lines(s, "PASS :services=svcpw", "SERVER "+vSrvName+" 1 :Services for IRC Networks")
	return s
}

func (b *vbuilder) pseudo(link uint64, nick string) {
	b.line(link, "NICK "+nick+" 1 1422134861 services robustirc.net "+vSrvName+" 0 :"+nick)
}

// VerifScenarios returns all scripted scenarios.
func VerifScenarios() []VScenario {
	var out []VScenario
	mk := func(name string, f func(b *vbuilder)) {
		b := newVBuilder()
		f(b)
		out = append(out, VScenario{Name: name, Hist: b.hist})
	}
	mk("empty", func(b *vbuilder) {})
	mk("cfg-only", func(b *vbuilder) { b.config(vCfgBase) })
	mk("unreg", func(b *vbuilder) {
		b.config(vCfgBase)
		b.create()
		s2 := b.create()
		b.line(s2, "NICK a")
		s3 := b.create()
		b.line(s3, "USER ub 0 * :Real b")
		s4 := b.create()
		b.line(s4, "PASS :oper=root operpw")
	})
	mk("one-user", func(b *vbuilder) {
		b.config(vCfgBase)
		b.user("a")
	})
	mk("two-users", func(b *vbuilder) {
		b.config(vCfgBase)
		b.user("a")
		b.user("b")
	})
	mk("chan-op-member", func(b *vbuilder) { // a=2 op of #c, b=5 member
		b.config(vCfgBase)
		a := b.user("a")
		bb := b.user("b")
		b.line(a, "JOIN #c")
		b.line(bb, "JOIN #c")
	})
	mk("three-users", func(b *vbuilder) { // a op #c; b member #c, op #d; c outside
		b.config(vCfgBase)
		a := b.user("a")
		bb := b.user("b")
		b.user("c")
		b.line(a, "JOIN #c")
		b.line(bb, "JOIN #c")
		b.line(bb, "JOIN #d")
		b.line(a, "TOPIC #c :the topic")
	})
	mk("three-in-chan", func(b *vbuilder) { // map-order rich: 3 members, 2 channels each
		b.config(vCfgBase)
		a := b.user("a")
		bb := b.user("b")
		c := b.user("c")
		for _, s := range []uint64{a, bb, c} {
			b.line(s, "JOIN #c,#d")
		}
		b.line(a, "MODE #c +b x!*@*")
		b.line(a, "MODE #c +b y!*@*")
		b.line(a, "MODE #c +o b")
	})
	mk("invite-only", func(b *vbuilder) { // #c +i; b invited (pending); c not
		b.config(vCfgBase)
		a := b.user("a")
		b.user("b")
		b.user("c")
		b.lines(a, "JOIN #c", "MODE #c +i", "INVITE b #c")
	})
	mk("invite-used", func(b *vbuilder) { // b joined with the invitation, then parted: invitation consumed
		b.config(vCfgBase)
		a := b.user("a")
		bb := b.user("b")
		b.lines(a, "JOIN #c", "MODE #c +i", "INVITE b #c")
		b.lines(bb, "JOIN #c", "PART #c")
	})
	mk("keyed", func(b *vbuilder) {
		b.config(vCfgBase)
		a := b.user("a")
		b.user("b")
		b.lines(a, "JOIN #c", "MODE #c +k key")
	})
	mk("banned", func(b *vbuilder) { // b banned by mask, c (session 8) banned by robust/0x form resolved to its address
		b.config(vCfgBase)
		a := b.user("a")
		bb := b.user("b")
		c := b.user("c")
		b.line(bb, "PING x")
		b.line(c, "PING x")
		b.lines(a, "JOIN #c", "MODE #c +b b!*@*", fmt.Sprintf("MODE #c +b *!*@robust/0x%x", c))
	})
	mk("banned-address", func(b *vbuilder) { // as above; d is not banned itself, but may come from the address of c (10.0.0.8)
		b.config(vCfgBase)
		a := b.user("a")
		b.user("b")
		c := b.user("c")
		b.line(c, "PING x")
		b.user("d")
		b.lines(a, "JOIN #c", fmt.Sprintf("MODE #c +b *!*@robust/0x%x", c))
	})
	mk("captcha", func(b *vbuilder) { // #c +x +k; b banned too
		b.config(vCfgBase)
		a := b.user("a")
		b.user("b")
		b.user("c")
		b.lines(a, "JOIN #c", "MODE #c +x", "MODE #c +k key", "MODE #c +b b!*@*")
	})
	mk("captcha-invited", func(b *vbuilder) {
		b.config(vCfgBase)
		a := b.user("a")
		b.user("b")
		b.lines(a, "JOIN #c", "MODE #c +x", "INVITE b #c")
	})
	mk("captcha-rotated", func(b *vbuilder) { // #c +x; c was handed a challenge; then the network secret is replaced
		b.config(vCfgBase)
		a := b.user("a")
		b.user("b")
		c := b.user("c")
		b.lines(a, "JOIN #c", "MODE #c +x")
		b.line(c, "JOIN #c")
		b.config(strings.Replace(vCfgBase, `CaptchaHMACSecret = "736563726574"`, `CaptchaHMACSecret = "6f74686572"`, 1))
	})
	mk("secret-open", func(b *vbuilder) { // #c +s -n -t, a op, b member (was op, lost it), c outside
		b.config(vCfgBase)
		a := b.user("a")
		bb := b.user("b")
		b.user("c")
		b.lines(a, "JOIN #c")
		b.line(bb, "JOIN #c")
		b.lines(a, "MODE #c +o b", "MODE #c -o b", "MODE #c +s", "MODE #c -n", "MODE #c -t")
	})
	mk("oper", func(b *vbuilder) { // a oper (not chanop anywhere), b op of #c, c member
		b.config(vCfgBase)
		a := b.user("a")
		bb := b.user("b")
		c := b.user("c")
		b.line(a, "OPER root operpw")
		b.line(bb, "JOIN #c")
		b.line(c, "JOIN #c")
		b.line(bb, "PING x")
	})
	mk("oper-via-pass", func(b *vbuilder) {
		b.config(vCfgBase)
		s := b.create()
		b.lines(s, "PASS :oper=root operpw", "NICK a", "USER ua 0 * :Real a")
		b.user("b")
	})
	mk("away-modes", func(b *vbuilder) { // a away +G +i in #c; b in #c; c nowhere
		b.config(vCfgBase)
		a := b.user("a")
		bb := b.user("b")
		b.user("c")
		b.lines(a, "JOIN #c", "AWAY :gone", "MODE a +G", "MODE a +i")
		b.line(bb, "JOIN #c")
	})
	mk("lost-op", func(b *vbuilder) { // privilege history: a lost op by part+join, b got op then nick-changed (case only)
		b.config(vCfgBase)
		a := b.user("a")
		bb := b.user("b")
		b.lines(a, "JOIN #c")
		b.line(bb, "JOIN #c")
		b.lines(a, "MODE #c +o b", "PART #c", "JOIN #c")
		b.line(bb, "NICK B")
	})
	mk("services", func(b *vbuilder) { // link 2; ChanServ in #c with a; NickServ in #d with b (disjoint)
		b.config(vCfgBase)
		l := b.services()
		b.pseudo(l, "ChanServ")
		b.pseudo(l, "NickServ")
		a := b.user("a")
		bb := b.user("b")
		b.line(a, "JOIN #c")
		b.line(bb, "JOIN #d")
		b.lines(l, ":ChanServ JOIN #c", ":NickServ JOIN #d")
	})
	mk("services-late", func(b *vbuilder) { // users first, link connects later (burst), one pseudo-client, no channels
		b.config(vCfgBase)
		a := b.user("a")
		b.user("b")
		b.line(a, "JOIN #c")
		l := b.services()
		b.pseudo(l, "ChanServ")
	})
	mk("services-quit", func(b *vbuilder) { // a services link that quit; another one that is alive
		b.config(vCfgBase)
		l := b.services()
		b.pseudo(l, "ChanServ")
		a := b.user("a")
		b.line(a, "JOIN #c")
		b.line(l, "QUIT :link closing")
		b.user("b")
	})
	mk("two-links", func(b *vbuilder) {
		b.config(vCfgBase)
		l1 := b.services()
		b.pseudo(l1, "ChanServ")
		l2 := b.services()
		b.pseudo(l2, "NickServ")
		a := b.user("a")
		b.line(a, "JOIN #c")
	})
	mk("svshold", func(b *vbuilder) { // "held" reserved for 60s; "other" hold expired
		b.config(vCfgBase)
		l := b.services()
		b.line(l, "SVSHOLD other 1 :short")
		b.wait(5 * time.Second)
		b.line(l, "SVSHOLD held 60 :held by services")
		b.user("a")
	})
	mk("limits", func(b *vbuilder) { // MaxSessions=3 and MaxChannels=1 both reached
		b.config(vCfgLimits)
		a := b.user("a")
		b.user("b")
		b.services()
		b.line(a, "JOIN #c")
	})
	mk("limits-link", func(b *vbuilder) { // session limit reached with a services link that has one pseudo-client
		b.config(vCfgLimits)
		l := b.services()
		b.pseudo(l, "ChanServ")
		a := b.user("a")
		b.line(a, "JOIN #c")
	})
	mk("limits-room", func(b *vbuilder) { // MaxChannels=1 with room for exactly one more channel; a link with a pseudo-client
		b.config(vCfgLimits)
		l := b.services()
		b.pseudo(l, "ChanServ")
		b.user("a")
	})
	mk("banned-member", func(b *vbuilder) { // b joined #c and was banned afterwards: still a member
		b.config(vCfgBase)
		a := b.user("a")
		bb := b.user("b")
		b.user("c")
		b.line(a, "JOIN #c")
		b.line(bb, "JOIN #c")
		b.lines(a, "MODE #c +b b!*@*", fmt.Sprintf("MODE #c +b *!*@robust/0x%x", bb))
	})
	mk("user-turned-link", func(b *vbuilder) { // a registered user whose session then authenticates as a services link
		b.config(vCfgBase)
		a := b.user("a")
		b.user("b")
		b.line(a, "JOIN #c")
		b.lines(a, "PASS :services=svcpw", "SERVER "+vSrvName+" 1 :Services for IRC Networks")
	})
	out[len(out)-1].CutOnly = true
	mk("glined", func(b *vbuilder) { // address of former session b banned by an operator
		b.config(vCfgBase)
		a := b.user("a")
		bb := b.user("b")
		b.line(bb, "JOIN #c")
		b.lines(a, "OPER root operpw", "GLINE b :spam")
		b.user("c")
	})
	mk("captcha-login", func(b *vbuilder) {
		b.config(vCfgCaptchaLogin)
		s := b.create()
		b.lines(s, "NICK a", "USER ua 0 * :Real a")
		b.create()
	})
	mk("stale-unreg", func(b *vbuilder) { // a session that did not register for 11 minutes
		b.config(vCfgBase)
		s := b.create()
		b.line(s, "NICK a")
		b.user("b")
		b.wait(11 * time.Minute)
		b.user("c")
	})
	mk("nick-special", func(b *vbuilder) { // nicks with []\ characters and a case-changed nick
		b.config(vCfgBase)
		a := b.user("[x")
		bb := b.user("b")
		b.line(a, "JOIN #c")
		b.line(bb, "JOIN #c")
		b.line(bb, "NICK B")
	})
	mk("long-user", func(b *vbuilder) { // a's user name is longer than the 64 bytes kept, byte 64 falls into a multi-byte character
		b.config(vCfgBase)
		a := b.create()
		b.lines(a, "NICK a", "USER "+strings.Repeat("u", 63)+"\u00e9\u00e9\u20ac 0 * :Real a")
		bb := b.user("b")
		b.line(a, "JOIN #c")
		b.line(bb, "JOIN #c")
	})
	mk("defaults", func(b *vbuilder) { // default config (no config entry at all): cooloff 500ms, expiration 10m
		a := b.user("a")
		b.user("b")
		b.line(a, "JOIN #c")
	})
	return out
}

func VerifScenario(name string) *VScenario {
	for _, s := range VerifScenarios() {
		if s.Name == name {
			return &s
		}
	}
	return nil
}
