//go:build verif

package ircserver

// Explorer of the mc engine: expands work items (scenario + extra entries) with the
// whole alphabet, runs the selected monitors on every transition, reuses the
// instance while lines do not change the state, and emits mutator successors for
// the next BFS level (deduplicated by the driver on the time-abstracted state key).

import (
	"crypto/sha1"
	"encoding/hex"
	"encoding/json"
	"fmt"
	"os"
	"sort"
	"strconv"
	"strings"
	"time"

	"github.com/robustirc/robustirc/internal/config"
	"github.com/robustirc/robustirc/internal/robust"
)

type VWork struct {
	Scenario string
	Extra    []VEntry `json:",omitempty"`
}

type VViolation struct {
	Sig      string   `json:"sig"`
	Desc     string   `json:"desc"`
	Scenario string   `json:"scenario"`
	Hist     []VEntry `json:"hist"`
	Count    int      `json:"count"`
	Prop     string   `json:"prop"`
}

type VNext struct {
	Work VWork  `json:"work"`
	Key  string `json:"key"`
}

type VResult struct {
	States      int            `json:"states"`
	Transitions int            `json:"transitions"`
	Mutators    int            `json:"mutators"`
	Replays     int            `json:"replays"`
	Counters    map[string]int `json:"counters"`
	Violations  []*VViolation  `json:"violations"`
	Samples     []string       `json:"samples"`
	Next        []VNext        `json:"next"`
	Keys        []string       `json:"keys"`
	Exhaustive  bool           `json:"exhaustive"`
	Note        string         `json:"note,omitempty"`
}

// ---- pre-state view -------------------------------------------------------

type VSess struct {
	Id         robust.Id
	Nick       string
	LcNick     string
	Username   string
	LoggedIn   bool
	Operator   bool
	Server     bool
	Pass       string
	Channels   map[string]bool
	Invited    map[string]bool
	Modes      string
	Prefix     string
	Addr       string
	Away       string
	Deleted    bool
	LastAct    time.Time
	Captcha    time.Time
	Created    int64
	Svid       string
	Realname   string
	Cmid       uint64
	PrefixHost string
}

type VChan struct {
	Lc        string
	Name      string
	Modes     string
	Key       string
	Topic     string
	TopicNick string
	TopicTime time.Time
	Members   map[string]bool // lc nick -> chanop
	Bans      []string        // pattern~regexp
	BanRes    []string        // regexp sources
}

type VView struct {
	Dump     string // NoStamps dump
	Sessions map[robust.Id]*VSess
	ByNick   map[string]robust.Id
	Chans    map[string]*VChan
	Servers  []uint64
	Cfg      config.Network
	Holds    map[string]bool
	Now      int64
}

func vModesStr(m *['z']bool) string {
	var s []byte
	for c := 0; c < len(m); c++ {
		if m[c] {
			s = append(s, byte(c))
		}
	}
	return string(s)
}

func vView(in *VInst) *VView {
	i := in.Srv
	v := &VView{
		Dump:     VerifDump(i, VerifDumpOpts{NoStamps: true}),
		Sessions: map[robust.Id]*VSess{},
		ByNick:   map[string]robust.Id{},
		Chans:    map[string]*VChan{},
		Servers:  append([]uint64(nil), i.serverSessions...),
		Holds:    map[string]bool{},
		Now:      in.Now(),
	}
	for id, s := range i.sessions {
		vs := &VSess{Id: id, Nick: s.Nick, LcNick: string(NickToLower(s.Nick)), Username: s.Username, LoggedIn: s.loggedIn, Operator: s.Operator, Server: s.Server,
			Pass: s.Pass, Channels: map[string]bool{}, Invited: map[string]bool{}, Modes: vModesStr(&s.modes), Prefix: s.ircPrefix.String(), Addr: s.RemoteAddr,
			Away: s.AwayMsg, Deleted: s.deleted, LastAct: s.LastActivity, Captcha: s.LastSolvedCaptcha, Created: s.Created, Svid: s.svid, Realname: s.Realname, Cmid: s.lastClientMessageId, PrefixHost: s.ircPrefix.Host}
		for c := range s.Channels {
			vs.Channels[string(c)] = true
		}
		for c := range s.invitedTo {
			vs.Invited[string(c)] = true
		}
		v.Sessions[id] = vs
	}
	for n, s := range i.nicks {
		if s != nil {
			v.ByNick[string(n)] = s.Id
		}
	}
	for lc, c := range i.channels {
		vc := &VChan{Lc: string(lc), Name: c.name, Modes: vModesStr(&c.modes), Key: c.key, Topic: c.topic, TopicNick: c.topicNick, TopicTime: c.topicTime, Members: map[string]bool{}}
		for n, p := range c.nicks {
			vc.Members[string(n)] = p != nil && p[chanop]
		}
		for _, b := range c.bans {
			vc.Bans = append(vc.Bans, b.pattern+"~"+b.re.String())
			vc.BanRes = append(vc.BanRes, b.re.String())
		}
		v.Chans[string(lc)] = vc
	}
	for n := range i.svsholds {
		v.Holds[string(n)] = true
	}
	i.ConfigMu.RLock()
	v.Cfg = i.Config
	// deep-copy the maps/slices the monitors look at
	v.Cfg.Banned = map[string]string{}
	for k, x := range i.Config.Banned {
		v.Cfg.Banned[k] = x
	}
	v.Cfg.IRC.Operators = append([]config.IRCOp(nil), i.Config.IRC.Operators...)
	v.Cfg.IRC.Services = append([]config.Service(nil), i.Config.IRC.Services...)
	i.ConfigMu.RUnlock()
	return v
}

func (v *VView) hasMode(c *VChan, m byte) bool { return strings.IndexByte(c.Modes, m) >= 0 }

// ---- monitors ---------------------------------------------------------------

type VCtx struct {
	Prop     string
	Scenario string
	Pre      *VView
	In       *VInst // instance after the entry (poisoned if Step.Panic != nil)
	Step     *VStep
	Changed  bool
	res      *VResult
	sigs     map[string]*VViolation
	hist     []VEntry
}

func (c *VCtx) Count(name string) { c.res.Counters[name]++ }

func (c *VCtx) Report(sig, desc string) {
	sig = c.Prop + ":" + sig
	if v, ok := c.sigs[sig]; ok {
		v.Count++
		return
	}
	v := &VViolation{Sig: sig, Desc: desc, Scenario: c.Scenario, Hist: append(append([]VEntry(nil), c.hist...), c.Step.Entry), Count: 1, Prop: c.Prop}
	c.sigs[sig] = v
	c.res.Violations = append(c.res.Violations, v)
}

type VMonitor func(c *VCtx)

var vMonitors = map[string]VMonitor{}

// ---- exploration --------------------------------------------------------------

type VExploreCfg struct {
	Monitors   []string
	Focused    bool // deep BFS tier: focused mutator alphabet, client lines and DeleteSession only, time-abstracted keys
	FullAlpha  bool
	EmitNext   bool
	Deadline   time.Time
	MaxSamples int
}

func vSanitize(data string) string {
	// mirror of handlePostMessage / handleDeleteSession: the text is cut at the first LF, CR
	// or NUL (conformance with the real handlers is established by C15's API tier)
	if idx := strings.IndexAny(data, "\n\r\x00"); idx > -1 {
		data = data[:idx]
	}
	return data
}

func vKey(s string) string {
	h := sha1.Sum([]byte(s))
	return hex.EncodeToString(h[:10])
}

func vPseudoNicks(i *IRCServer, link uint64) []string {
	var out []string
	for id, s := range i.sessions {
		if id.Id == link && id.Reply != 0 {
			out = append(out, s.Nick)
		}
	}
	sort.Strings(out)
	return out
}

func vLiveSessions(i *IRCServer) []robust.Id {
	ids := make([]robust.Id, 0, len(i.sessions))
	for id := range i.sessions {
		ids = append(ids, id)
	}
	sort.Slice(ids, func(a, b int) bool {
		if ids[a].Id != ids[b].Id {
			return ids[a].Id < ids[b].Id
		}
		return ids[a].Reply < ids[b].Reply
	})
	return ids
}

// vEntriesFor enumerates every entry of the alphabet that can follow the state of `in`.
func vEntriesFor(in *VInst, full bool) []VEntry { return vEntriesForAlpha(in, full, false) }

func vEntriesForAlpha(in *VInst, full, focused bool) []VEntry {
	i := in.Srv
	now := in.Now()
	next := in.NextId()
	var es []VEntry
	var client []VLine
	if focused {
		client = vFocusedLines()
	} else {
		client = vClientLines(now+1e9, full)
		if !full {
			client = vReduce(client)
		}
	}
	ids := vLiveSessions(i)
	for _, id := range ids {
		if id.Reply != 0 {
			continue
		}
		s := i.sessions[id]
		lines := client
		if s.Server && focused {
			lines = vFocusedServiceLines(vPseudoNicks(i, id.Id))
		} else if s.Server {
			lines = vServiceLines(vPseudoNicks(i, id.Id))
			if !full {
				lines = vReduce(lines)
			}
		}
		for _, l := range lines {
			if s.Server && strings.HasPrefix(l.Data, "SVSNICK ") {
				// the property quantifies over SVSNICK onto FREE nicknames only (services never rename a
				// user onto a nickname somebody owns; the server does not check it)
				if f := strings.Fields(l.Data); len(f) >= 3 {
					if _, taken := i.nicks[NickToLower(f[2])]; taken {
						continue
					}
				}
			}
			dt := int64(time.Second)
			if l.Dt > 0 {
				dt = int64(l.Dt)
			} else if l.Dt == -1 {
				dt = 0
			} else if l.Dt < 0 {
				dt = int64(l.Dt) // a timestamp before the previous entry's
			}
			addr := vaddr(id.Id)
			if l.Addr == "-" {
				addr = ""
			} else if l.Addr != "" {
				addr = l.Addr
			}
			es = append(es, VEntry{Type: robust.IRCFromClient, Id: next, Session: id, Data: vSanitize(l.Data), UnixNano: now + dt, ClientMessageId: next*13 + 1, RemoteAddr: addr})
		}
	}
	i.ConfigMu.RLock()
	rev := i.Config.Revision
	i.ConfigMu.RUnlock()
	if focused {
		for _, sid := range ids {
			if sid.Reply == 0 {
				es = append(es, VEntry{Type: robust.DeleteSession, Id: next, Session: sid, Data: "bye", UnixNano: now + int64(time.Second)})
			}
		}
		return es
	}
	for _, e := range vNonLineEntries(ids, rev) {
		if e.Type == robust.DeleteSession {
			e.Data = vSanitize(e.Data)
		}
		e.Id = next
		e.UnixNano = now + int64(time.Second)
		es = append(es, e)
	}
	return es
}

// VerifExplore expands the given work items.
func VerifExplore(items []VWork, cfg VExploreCfg) *VResult {
	res := &VResult{Counters: map[string]int{}, Exhaustive: true}
	if err := VerifCheckInventory(); err != nil {
		res.Note = err.Error()
		res.Exhaustive = false
		return res
	}
	var mons []VMonitor
	var monNames []string
	for _, m := range cfg.Monitors {
		f, ok := vMonitors[m]
		if !ok {
			panic("unknown monitor " + m)
		}
		mons = append(mons, f)
		monNames = append(monNames, m)
	}
	sigs := map[string]*VViolation{}
	seenNext := map[string]bool{}
	for _, w := range items {
		if !cfg.Deadline.IsZero() && time.Now().After(cfg.Deadline) {
			res.Exhaustive = false
			res.Note = "time cap reached; remaining work items not expanded"
			res.Counters["items_skipped_by_cap"]++
			continue
		}
		sc := VerifScenario(w.Scenario)
		if sc == nil {
			panic("unknown scenario " + w.Scenario)
		}
		hist := append(append([]VEntry(nil), sc.Hist...), w.Extra...)
		in := VerifBuild(hist)
		res.Replays++
		res.States++
		pre := vView(in)
		keyOpts := func(now int64) VerifDumpOpts {
			if cfg.Focused {
				return VerifDumpOpts{NoTimes: true, NoStamps: true}
			}
			return VerifDumpOpts{RelTime: true, RelNow: now}
		}
		res.Keys = append(res.Keys, vKey(VerifDump(in.Srv, keyOpts(in.Now()))))
		entries := vEntriesForAlpha(in, cfg.FullAlpha, cfg.Focused)
		for _, e := range entries {
			st := in.saveStamps(e.Session)
			step := in.Apply(e)
			res.Transitions++
			changed := true
			var postDump string
			if step.Panic == nil {
				// compare without the per-message stamps
				postDump = VerifDump(in.Srv, VerifDumpOpts{NoStamps: true})
				changed = postDump != pre.Dump
			}
			for k, m := range mons {
				c := &VCtx{Prop: monNames[k], Scenario: w.Scenario, Pre: pre, In: in, Step: &step, Changed: changed, res: res, sigs: sigs, hist: hist}
				m(c)
			}
			if len(res.Samples) < cfg.MaxSamples && (res.Transitions%997 == 1) {
				res.Samples = append(res.Samples, fmt.Sprintf("%s +%d entries | %s -> %d replies, changed=%v", w.Scenario, len(w.Extra), e.String(), len(step.Msgs), changed))
			}
			if step.Panic != nil {
				res.Counters["panics"]++
				in = VerifBuild(hist)
				res.Replays++
				continue
			}
			if !changed {
				in.restoreStamps(st)
				continue
			}
			res.Mutators++
			if cfg.EmitNext {
				key := vKey(VerifDump(in.Srv, keyOpts(in.Now())))
				if !seenNext[key] {
					seenNext[key] = true
					res.Next = append(res.Next, VNext{Work: VWork{Scenario: w.Scenario, Extra: append(append([]VEntry(nil), w.Extra...), e)}, Key: key})
				}
			}
			in = VerifBuild(hist)
			res.Replays++
		}
	}
	return res
}

// VerifWorkerMain is the entry point used by the in-package test wrapper: it reads the
// work list and configuration from the environment and writes the result JSON.
func VerifWorkerMain() error {
	out := os.Getenv("VERIF_OUT")
	if rp := os.Getenv("VERIF_REPLAY"); rp != "" {
		return verifReplayMain(rp, out)
	}
	shard, _ := strconv.Atoi(os.Getenv("VERIF_SHARD"))
	nshards, _ := strconv.Atoi(os.Getenv("VERIF_NSHARDS"))
	if nshards == 0 {
		nshards = 1
	}
	var all []VWork
	if p := os.Getenv("VERIF_WORK"); p != "" {
		b, err := os.ReadFile(p)
		if err != nil {
			return err
		}
		if err := json.Unmarshal(b, &all); err != nil {
			return err
		}
	} else {
		for _, s := range VerifScenarios() {
			if s.CutOnly && os.Getenv("VERIF_MONS") != "" {
				continue // not a start state for the behavioural monitors (see VScenario.CutOnly)
			}
			all = append(all, VWork{Scenario: s.Name})
		}
	}
	var mine []VWork
	for k, w := range all {
		if k%nshards == shard {
			mine = append(mine, w)
		}
	}
	cfg := VExploreCfg{
		Monitors:   strings.Split(os.Getenv("VERIF_MONS"), ","),
		FullAlpha:  os.Getenv("VERIF_ALPHA") != "reduced",
		Focused:    os.Getenv("VERIF_ALPHA") == "focused",
		EmitNext:   os.Getenv("VERIF_EMIT") == "1",
		MaxSamples: 6,
	}
	if os.Getenv("VERIF_MONS") == "" {
		cfg.Monitors = nil
	}
	if d := os.Getenv("VERIF_DEADLINE"); d != "" {
		sec, _ := strconv.ParseInt(d, 10, 64)
		cfg.Deadline = time.Unix(sec, 0)
	}
	res := VerifExplore(mine, cfg)
	b, err := json.Marshal(res)
	if err != nil {
		return err
	}
	if out == "" {
		fmt.Println(string(b))
		return nil
	}
	return os.WriteFile(out, b, 0644)
}

// VerifReplay re-executes a recorded violation from scratch (fresh instance, prefix
// replay, failing entry, the property's monitor) and returns the signatures reported
// for that single transition.
func VerifReplay(v *VViolation) []string {
	if len(v.Hist) == 0 {
		return nil
	}
	prefix := v.Hist[:len(v.Hist)-1]
	e := v.Hist[len(v.Hist)-1]
	in := VerifBuild(prefix)
	pre := vView(in)
	res := &VResult{Counters: map[string]int{}}
	step := in.Apply(e)
	changed := true
	if step.Panic == nil {
		changed = VerifDump(in.Srv, VerifDumpOpts{NoStamps: true}) != pre.Dump
	}
	sigs := map[string]*VViolation{}
	m, ok := vMonitors[v.Prop]
	if !ok {
		panic("unknown monitor " + v.Prop)
	}
	m(&VCtx{Prop: v.Prop, Scenario: v.Scenario, Pre: pre, In: in, Step: &step, Changed: changed, res: res, sigs: sigs, hist: prefix})
	var out []string
	for s := range sigs {
		out = append(out, s)
	}
	sort.Strings(out)
	return out
}

func verifReplayMain(path, out string) error {
	b, err := os.ReadFile(path)
	if err != nil {
		return err
	}
	var v VViolation
	if err := json.Unmarshal(b, &v); err != nil {
		return err
	}
	n := 1
	if c := os.Getenv("VERIF_REPLAY_COUNT"); c != "" {
		n, _ = strconv.Atoi(c)
	}
	type rr struct {
		Runs       [][]string `json:"runs"`
		Reproduced bool       `json:"reproduced"`
		Identical  bool       `json:"identical"`
	}
	r := rr{Identical: true, Reproduced: true}
	for k := 0; k < n; k++ {
		sigs := VerifReplay(&v)
		r.Runs = append(r.Runs, sigs)
		found := false
		for _, s := range sigs {
			if s == v.Sig {
				found = true
			}
		}
		if !found {
			r.Reproduced = false
		}
		if k > 0 && strings.Join(sigs, "|") != strings.Join(r.Runs[0], "|") {
			r.Identical = false
		}
	}
	jb, _ := json.Marshal(r)
	if out == "" {
		fmt.Println(string(jb))
		if !r.Reproduced {
			return fmt.Errorf("violation %q not reproduced", v.Sig)
		}
		fmt.Printf("VIOLATION reproduced: %s\n", v.Sig)
		return nil
	}
	return os.WriteFile(out, jb, 0644)
}

// VerifEntriesFor exports the alphabet for harnesses in other packages.
func VerifEntriesFor(in *VInst, full bool) []VEntry { return vEntriesFor(in, full) }

// VerifClientAlphabet exports the client-line alphabet (raw, before sanitising) and the sanitiser
// mirror for the API tier of C15, which ties both to the real POST/DELETE handlers.
func VerifClientAlphabet(full bool) []string {
	var out []string
	for _, l := range vClientLines(VerifT0, full) {
		out = append(out, l.Data)
	}
	return out
}

func VerifSanitize(s string) string { return vSanitize(s) }

// VerifLineDefect is C15's per-line oracle ("" = well formed).
func VerifLineDefect(data string) string { return vLineDefect(data) }

// VerifTexts are the trailing-text values of C15's alphabet.
func VerifTexts() []string { return append([]string(nil), vTexts...) }

// VerifMarker reads a session's duplicate-detection marker directly from the state (0 when the session
// does not exist), so that harnesses do not depend on the exported accessor keeping its name.
func VerifMarker(i *IRCServer, id robust.Id) uint64 {
	i.sessionsMu.RLock()
	defer i.sessionsMu.RUnlock()
	if s, ok := i.sessions[id]; ok {
		return s.lastClientMessageId
	}
	return 0
}
