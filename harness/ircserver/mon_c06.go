//go:build verif

package ircserver

// C06: no entry may panic.  The oracle is recover() around the glue mirror.

import (
	"fmt"
	"regexp"
	"strings"
)

var vFrameRe = regexp.MustCompile(`ircserver\.(\(\*IRCServer\)\.)?([A-Za-z0-9_]+)\(`)

// vPanicSite returns the innermost repository function on the panicking stack.
func vPanicSite(stack string) string {
	lines := strings.Split(stack, "\n")
	started := false
	for _, l := range lines {
		if strings.HasPrefix(l, "panic(") {
			started = true
			continue
		}
		if !started {
			continue
		}
		if m := vFrameRe.FindStringSubmatch(l); m != nil && !strings.HasPrefix(m[2], "Verif") && !strings.HasPrefix(m[2], "v") {
			return m[2]
		}
	}
	return "unknown"
}

func init() {
	vMonitors["C06"] = func(c *VCtx) {
		c.Count("c06_entries_checked")
		if c.Step.Panic == nil {
			return
		}
		site := vPanicSite(c.Step.Stack)
		msg := fmt.Sprint(c.Step.Panic)
		if len(msg) > 80 {
			msg = msg[:80]
		}
		actor := "none"
		if s := c.Pre.Sessions[c.Step.Entry.Session]; s != nil {
			switch {
			case s.Server:
				actor = "services"
			case s.Operator:
				actor = "operator"
			case s.LoggedIn:
				actor = "registered"
			default:
				actor = "unregistered"
			}
		}
		c.Report(fmt.Sprintf("panic in %s (%s)", site, msg),
			fmt.Sprintf("entry %s from %s session panicked: %v", c.Step.Entry.String(), actor, c.Step.Panic))
	}
}
