//go:build verif

package ircserver

// C06: no entry may panic.  The oracle is recover() around the glue mirror.

import (
	"fmt"
	"regexp"
	"strings"
)

var vFrameRe = regexp.MustCompile(`ircserver\.(\(\*IRCServer\)\.)?([A-Za-z0-9_]+)\(`)

// vPanicSite returns the innermost repository function on the panicking stack.
func vPanicSite(stack string) string {
	lines := strings.Split(stack, "\n")
	started := false
	for _, l := range lines {
		if strings.HasPrefix(l, "panic(") {
			started = true
			continue
		}
		if !started {
			continue
		}
		if m := vFrameRe.FindStringSubmatch(l); m != nil && !strings.HasPrefix(m[2], "Verif") && !strings.HasPrefix(m[2], "v") {
			return m[2]
		}
	}
	return "unknown"
}

// vC06R: a twin of the current pre-state that went through Marshal/Unmarshal (a node restored from a
// snapshot).  Every entry is applied to it as well: state that Unmarshal rebuilds differently (nil maps,
// missing derived fields) shows as a panic only there.
var vC06R struct {
	hist  []VEntry // kept referenced, so that its address identifies the work item
	bytes []byte
	inst  *VInst
}

func vC06Restored(c *VCtx) {
	if len(c.hist) == 0 {
		return
	}
	if len(vC06R.hist) != len(c.hist) || &vC06R.hist[0] != &c.hist[0] {
		vC06R.hist, vC06R.inst, vC06R.bytes = c.hist, nil, nil
		if b, err := VerifBuild(c.hist).Srv.Marshal(0); err == nil {
			vC06R.bytes = b
		}
	}
	if vC06R.bytes == nil {
		return // a state that cannot be saved is C03's finding
	}
	if vC06R.inst == nil {
		j := VerifNewServer()
		if _, err := j.Unmarshal(vC06R.bytes); err != nil {
			vC06R.bytes = nil
			return
		}
		vC06R.inst = &VInst{Srv: j, Hist: append([]VEntry(nil), c.hist...)}
		c.Count("c06_restored_twins_built")
	}
	st := vC06R.inst.Apply(c.Step.Entry)
	c.Count("c06_entries_checked_on_a_restored_node")
	if st.Panic != nil {
		if c.Step.Panic == nil {
			msg := fmt.Sprint(st.Panic)
			if len(msg) > 80 {
				msg = msg[:80]
			}
			c.Report(fmt.Sprintf("panic in %s (%s) on a node restored from a snapshot", vPanicSite(st.Stack), msg),
				fmt.Sprintf("entry %s panics when the state it is applied to went through Marshal/Unmarshal first: %v", c.Step.Entry.String(), st.Panic))
		}
		vC06R.inst = nil
		return
	}
	if c.Changed {
		vC06R.inst = nil // the entry changed the state: the next entry starts from the pre-state again
	}
}

func init() {
	vMonitors["C06"] = func(c *VCtx) {
		c.Count("c06_entries_checked")
		vC06Restored(c)
		if c.Step.Panic == nil {
			return
		}
		site := vPanicSite(c.Step.Stack)
		msg := fmt.Sprint(c.Step.Panic)
		if len(msg) > 80 {
			msg = msg[:80]
		}
		actor := "none"
		if s := c.Pre.Sessions[c.Step.Entry.Session]; s != nil {
			switch {
			case s.Server:
				actor = "services"
			case s.Operator:
				actor = "operator"
			case s.LoggedIn:
				actor = "registered"
			default:
				actor = "unregistered"
			}
		}
		c.Report(fmt.Sprintf("panic in %s (%s)", site, msg),
			fmt.Sprintf("entry %s from %s session panicked: %v", c.Step.Entry.String(), actor, c.Step.Panic))
	}
}
