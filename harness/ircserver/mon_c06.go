//go:build verif

package ircserver

// C06: no entry may panic.  The oracle is recover() around the glue mirror.

import (
	"fmt"
	"regexp"
	"strings"
)

var vFrameRe = regexp.MustCompile(`ircserver\.(\(\*IRCServer\)\.)?([A-Za-z0-9_]+)\(`)

// vPanicSite returns the innermost repository function on the panicking stack.
func vPanicSite(stack string) string {
	lines := strings.Split(stack, "\n")
	started := false
	for _, l := range lines {
		if strings.HasPrefix(l, "panic(") {
			started = true
			continue
		}
		if !started {
			continue
		}
		if m := vFrameRe.FindStringSubmatch(l); m != nil && !strings.HasPrefix(m[2], "Verif") && !strings.HasPrefix(m[2], "v") {
			return m[2]
		}
	}
	return "unknown"
}

// vTwinSlot: a twin of the current pre-state that went through Marshal/Unmarshal (a node restored from a
// snapshot).  Every entry is applied to it as well: state that Unmarshal rebuilds differently (nil maps,
// missing derived fields) shows only there.  One slot per monitor.
type vTwinSlot struct {
	hist  []VEntry // kept referenced, so that its address identifies the work item
	bytes []byte
	inst  *VInst
}

// apply applies the entry of c to the restored twin and returns the twin and the step (nil when the pre-state
// cannot be saved -- C03's finding).  The twin is rebuilt from the saved pre-state after an entry that changed
// the state.
func (t *vTwinSlot) apply(c *VCtx) (*VInst, *VStep) {
	if len(c.hist) == 0 {
		return nil, nil
	}
	if len(t.hist) != len(c.hist) || &t.hist[0] != &c.hist[0] {
		t.hist, t.inst, t.bytes = c.hist, nil, nil
		if b, err := VerifBuild(c.hist).Srv.Marshal(0); err == nil {
			t.bytes = b
		}
	}
	if t.bytes == nil {
		return nil, nil
	}
	if t.inst == nil {
		j := VerifNewServer()
		if _, err := j.Unmarshal(t.bytes); err != nil {
			t.bytes = nil
			return nil, nil
		}
		t.inst = &VInst{Srv: j, Hist: append([]VEntry(nil), c.hist...)}
		c.Count("restored_twins_built")
	}
	in := t.inst
	st := in.Apply(c.Step.Entry)
	if st.Panic != nil || c.Changed {
		t.inst = nil // the next entry starts from the pre-state again
	}
	return in, &st
}

var vC06Twin vTwinSlot

func vC06Restored(c *VCtx) {
	_, st := vC06Twin.apply(c)
	if st == nil {
		return
	}
	c.Count("c06_entries_checked_on_a_restored_node")
	if st.Panic != nil && c.Step.Panic == nil {
		msg := fmt.Sprint(st.Panic)
		if len(msg) > 80 {
			msg = msg[:80]
		}
		c.Report(fmt.Sprintf("panic in %s (%s) on a node restored from a snapshot", vPanicSite(st.Stack), msg),
			fmt.Sprintf("entry %s panics when the state it is applied to went through Marshal/Unmarshal first: %v", c.Step.Entry.String(), st.Panic))
	}
}

func init() {
	vMonitors["C06"] = func(c *VCtx) {
		c.Count("c06_entries_checked")
		vC06Restored(c)
		if c.Step.Panic == nil {
			return
		}
		site := vPanicSite(c.Step.Stack)
		msg := fmt.Sprint(c.Step.Panic)
		if len(msg) > 80 {
			msg = msg[:80]
		}
		actor := "none"
		if s := c.Pre.Sessions[c.Step.Entry.Session]; s != nil {
			switch {
			case s.Server:
				actor = "services"
			case s.Operator:
				actor = "operator"
			case s.LoggedIn:
				actor = "registered"
			default:
				actor = "unregistered"
			}
		}
		c.Report(fmt.Sprintf("panic in %s (%s)", site, msg),
			fmt.Sprintf("entry %s from %s session panicked: %v", c.Step.Entry.String(), actor, c.Step.Panic))
	}
}
