//go:build verif

package ircserver

import "testing"

func TestVerifMC(t *testing.T) {
	if err := VerifWorkerMain(); err != nil {
		t.Fatal(err)
	}
}
