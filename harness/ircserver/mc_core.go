//go:build verif

package ircserver

// Core of the explicit-state engine "mc" (DESIGN.md section 1.2): entries,
// instances built by replay, the mirror of statemachine.go's glue that also
// captures the replies, and stamp save/restore for instance reuse.

import (
	"fmt"
	"runtime"
	"runtime/debug"
	"time"

	"github.com/robustirc/robustirc/internal/config"
	"github.com/robustirc/robustirc/internal/robust"
	"gopkg.in/sorcix/irc.v2"
)

// VerifT0 is the timestamp of the first entry of every scripted history.
const VerifT0 = int64(1500000000) * 1e9

const VerifNetwork = "robustirc.net"

// VEntry is one committed log entry.
type VEntry struct {
	Type            robust.Type
	Id              uint64
	Session         robust.Id
	Data            string
	UnixNano        int64
	ClientMessageId uint64 `json:",omitempty"`
	Revision        uint64 `json:",omitempty"`
	RemoteAddr      string `json:",omitempty"`
}

func (e *VEntry) Msg() *robust.Message {
	return &robust.Message{
		Id:              robust.Id{Id: e.Id},
		Session:         e.Session,
		Type:            e.Type,
		Data:            e.Data,
		UnixNano:        e.UnixNano,
		ClientMessageId: e.ClientMessageId,
		Revision:        e.Revision,
		RemoteAddr:      e.RemoteAddr,
	}
}

func (e VEntry) String() string {
	return fmt.Sprintf("#%d %s s=%d.%d t=+%ds %q", e.Id, e.Type, e.Session.Id, e.Session.Reply, (e.UnixNano-VerifT0)/1e9, e.Data)
}

// VerifApply mirrors (*FSM).applyRobustMessage(msg, i, nil) of statemachine.go and
// additionally returns the reply context.  Its agreement with the real glue is
// checked by the conformance test in package main (TestVerifGlueConformance).
func VerifApply(i *IRCServer, msg *robust.Message) (*Replyctx, error) {
	switch msg.Type {
	case robust.MessageOfDeath:
		i.UpdateLastClientMessageID(msg)
	case robust.CreateSession:
		return nil, i.CreateSession(msg.Id, msg.Data, msg.Timestamp())
	case robust.DeleteSession:
		if _, err := i.GetSession(msg.Session); err == nil {
			reply := i.ProcessMessage(msg, irc.ParseMessage("QUIT :"+string(msg.Data)))
			i.SetLastProcessed(robust.Id{Id: msg.Id.Id})
			i.MaybeDeleteSession(msg.Session)
			return reply, nil
		}
	case robust.IRCFromClient:
		if err := i.UpdateLastClientMessageID(msg); err != nil {
			return nil, nil
		}
		ircmsg := irc.ParseMessage(msg.Data)
		reply := i.ProcessMessage(msg, ircmsg)
		i.SetLastProcessed(robust.Id{Id: msg.Session.Id})
		i.MaybeDeleteSession(msg.Session)
		return reply, nil
	case robust.Config:
		newCfg, err := config.FromString(msg.Data)
		if err == nil {
			i.ConfigMu.Lock()
			i.Config = newCfg
			i.Config.Revision = msg.Revision
			i.ConfigMu.Unlock()
		}
	}
	return nil, nil
}

// VStep is the observable result of applying one entry.
type VStep struct {
	Entry VEntry
	Msgs  []*robust.Message
	Err   error
	Panic interface{}
	Stack string
	// Spawned: goroutines that existed right after the entry was applied and did not before
	Spawned int
}

// VInst is a server instance together with the history that produced it.
type VInst struct {
	Srv  *IRCServer
	Hist []VEntry
}

func VerifNewServer() *IRCServer {
	return NewIRCServer(VerifNetwork, time.Unix(0, VerifT0))
}

func VerifNewInst() *VInst { return &VInst{Srv: VerifNewServer()} }

// VerifBuild replays a history on a fresh instance.  A panic during the replay of
// a *prefix* is a harness error (prefixes only contain entries that were applied
// without panic before).
func VerifBuild(hist []VEntry) *VInst {
	in := VerifNewInst()
	for _, e := range hist {
		st := in.Apply(e)
		if st.Panic != nil {
			panic(fmt.Sprintf("HARNESS: prefix entry %v panicked during replay: %v", e, st.Panic))
		}
	}
	return in
}

func (in *VInst) NextId() uint64 {
	if len(in.Hist) == 0 {
		return 1
	}
	return in.Hist[len(in.Hist)-1].Id + 1
}

func (in *VInst) Now() int64 {
	if len(in.Hist) == 0 {
		return VerifT0
	}
	return in.Hist[len(in.Hist)-1].UnixNano
}

// Apply applies one entry through the glue mirror, recovering panics.
func (in *VInst) Apply(e VEntry) (st VStep) {
	st.Entry = e
	defer func() {
		if r := recover(); r != nil {
			st.Panic = r
			st.Stack = string(debug.Stack())
		}
	}()
	g0 := runtime.NumGoroutine()
	reply, err := VerifApply(in.Srv, e.Msg())
	// The state machine does all its work on the applying goroutine.  Should an entry start one, it is counted
	// (C01 reports it) and given the chance to finish before anybody looks at the state: the harness reads the
	// state without locks.
	if n := runtime.NumGoroutine() - g0; n > 0 {
		st.Spawned = n
		for k := 0; k < 2000 && runtime.NumGoroutine() > g0; k++ {
			runtime.Gosched()
			if k > 100 {
				time.Sleep(10 * time.Microsecond)
			}
		}
	}
	st.Err = err
	if reply != nil {
		st.Msgs = reply.Messages
	}
	in.Hist = append(in.Hist, e)
	return st
}

type vstamps struct {
	ok            bool
	sess          *Session
	act, nonping  time.Time
	cmid          uint64
	addr          string
	lastProcessed robust.Id
	histLen       int
}

func (in *VInst) saveStamps(id robust.Id) vstamps {
	v := vstamps{lastProcessed: in.Srv.lastProcessed, histLen: len(in.Hist)}
	if s, ok := in.Srv.sessions[id]; ok {
		v.ok, v.sess, v.act, v.nonping, v.cmid, v.addr = true, s, s.LastActivity, s.LastNonPing, s.lastClientMessageId, s.RemoteAddr
	}
	return v
}

func (in *VInst) restoreStamps(v vstamps) {
	in.Srv.lastProcessed = v.lastProcessed
	if v.ok {
		v.sess.LastActivity, v.sess.LastNonPing, v.sess.lastClientMessageId, v.sess.RemoteAddr = v.act, v.nonping, v.cmid, v.addr
	}
	in.Hist = in.Hist[:v.histLen]
}

// vbuilder scripts scenario prefixes.
type vbuilder struct {
	hist []VEntry
	now  int64
}

func newVBuilder() *vbuilder { return &vbuilder{now: VerifT0 - 1e9} }

func (b *vbuilder) add(e VEntry) uint64 {
	b.now += 1e9
	e.Id = uint64(len(b.hist) + 1)
	e.UnixNano = b.now
	b.hist = append(b.hist, e)
	return e.Id
}

func vaddr(sess uint64) string { return fmt.Sprintf("10.0.0.%d", sess) }

func vauth(id uint64) string { return fmt.Sprintf("auth%04d-secret-%d", id, id*7919) }

func (b *vbuilder) create() uint64 {
	id := uint64(len(b.hist) + 1)
	return b.add(VEntry{Type: robust.CreateSession, Data: vauth(id)})
}

func (b *vbuilder) line(sess uint64, data string) {
	id := uint64(len(b.hist) + 1)
	b.add(VEntry{Type: robust.IRCFromClient, Session: robust.Id{Id: sess}, Data: data, ClientMessageId: id*13 + 1, RemoteAddr: vaddr(sess)})
}

func (b *vbuilder) lines(sess uint64, data ...string) {
	for _, d := range data {
		b.line(sess, d)
	}
}

func (b *vbuilder) config(toml string) {
	rev := uint64(1)
	for _, e := range b.hist {
		if e.Type == robust.Config {
			rev++
		}
	}
	b.add(VEntry{Type: robust.Config, Data: toml, Revision: rev})
}

func (b *vbuilder) del(sess uint64, reason string) {
	b.add(VEntry{Type: robust.DeleteSession, Session: robust.Id{Id: sess}, Data: reason})
}

func (b *vbuilder) wait(d time.Duration) { b.now += int64(d) }

// user registers a fresh session with the given nick and returns its id.
func (b *vbuilder) user(nick string) uint64 {
	s := b.create()
	b.lines(s, "NICK "+nick, "USER u"+nick+" 0 * :Real "+nick)
	return s
}
