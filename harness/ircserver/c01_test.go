//go:build verif && verifrt

package ircserver

// C01: replica determinism.  Every transition is executed once with all
// map-iteration choice points answered 0 and the real clock, then once per
// (choice point, alternative start position) and once with the wall clock shifted
// by 400 days; replies (ids, bytes, order, recipient sets) and the canonical dump
// afterwards must be identical (numeric 003 masked).  Digests of all baseline
// observations are emitted so that the driver can compare two different processes.

import (
	"crypto/sha1"
	"encoding/hex"
	"encoding/json"
	"fmt"
	"os"
	"regexp"
	"sort"
	"strconv"
	"strings"
	"testing"
	"time"

	"github.com/robustirc/robustirc/internal/robust"
	"github.com/robustirc/robustirc/internal/verif/rt"
)

const vClockShiftSec = 400*86400 + 3*3600 + 7*60 + 11

// vObserve renders what C01 compares for one applied entry.
func vObserve(st *VStep, srv *IRCServer) string {
	var b strings.Builder
	if st.Panic != nil {
		fmt.Fprintf(&b, "PANIC %v\n", st.Panic)
		return b.String()
	}
	fmt.Fprintf(&b, "err=%v\n", st.Err)
	for _, m := range st.Msgs {
		data := m.Data
		if strings.Contains(data, " 003 ") {
			data = "<003 masked>"
		}
		var rs []string
		for id, ok := range m.InterestingFor {
			if ok {
				rs = append(rs, strconv.FormatUint(id, 10))
			}
		}
		sort.Strings(rs)
		fmt.Fprintf(&b, "%d.%d %q -> %s\n", m.Id.Id, m.Id.Reply, data, strings.Join(rs, ","))
	}
	// the start time of the server is the one tolerated difference (numeric 003 above, the field itself here)
	b.WriteString(vCreationRe.ReplaceAllString(VerifDump(srv, VerifDumpOpts{}), " creation=X"))
	return b.String()
}

var vCreationRe = regexp.MustCompile(` creation=-?\d+`)

type vC01Run struct {
	obs     string
	choices []rt.Choice
	prefixN int
	spawned int // goroutines that exist after applying the entry and did not before
}

// vRunArmed replays hist on a fresh instance and applies e, all under the armed
// recorder with the given script; clockShift shifts the wall clock for the whole run.
func vRunArmed(hist []VEntry, e VEntry, script map[int]uint64, clockShift int64) vC01Run {
	rec := &rt.Recorder{Script: script}
	rt.SetClockOffset(clockShift)
	in := VerifNewInst()
	if clockShift != 0 {
		// the other replica is another process on another machine: it was started at another time as well (the
		// start time is a constructor argument, not read from the clock by the state machine)
		in = &VInst{Srv: NewIRCServer(VerifNetwork, time.Unix(0, VerifT0).Add(time.Duration(clockShift)*time.Second+17*time.Hour))}
	}
	rec.Arm()
	for _, h := range hist {
		in.Apply(h)
	}
	rt.Disarm()
	n := len(rec.Choices)
	rec.Arm()
	// (the worker runs with GOMAXPROCS=1, set by the driver: a goroutine that the entry starts cannot run, let
	// alone finish, before it is counted)
	st := in.Apply(e)
	spawned := st.Spawned
	rt.Disarm()
	rt.SetClockOffset(0)
	return vC01Run{obs: vObserve(&st, in.Srv), choices: rec.Choices, prefixN: n, spawned: spawned}
}

var vThrRe = regexp.MustCompile(` thr=\d+`)

// vRunOnReceivingNode executes the history the way the node does that RECEIVED the client's POSTs: before
// every client line is applied, the HTTP handler has called ThrottleUntil for the session (several times:
// a client that posts quickly), with the wall clock just behind the previous message.  Nodes that only
// apply the log never make these calls; what every node emits has to be the same.  The throttle counter
// itself is local to the node and masked.
func vRunOnReceivingNode(hist []VEntry, e VEntry) string {
	in := VerifNewInst()
	throttle := func(h VEntry) {
		if h.Type != robust.IRCFromClient {
			return
		}
		// the wall clock of the handler: 1 ms after the session's previous message ("posts quickly"; with a
		// clock further away ThrottleUntil starts over at every call)
		now := h.UnixNano - 1e6
		in.Srv.sessionsMu.RLock()
		if s, ok := in.Srv.sessions[h.Session]; ok {
			now = s.LastActivity.UnixNano() + 1e6
		}
		in.Srv.sessionsMu.RUnlock()
		rt.SetFixedNow(now)
		for k := 0; k < 10; k++ {
			in.Srv.ThrottleUntil(h.Session)
		}
		rt.SetFixedNow(0)
	}
	for _, h := range hist {
		throttle(h)
		in.Apply(h)
	}
	throttle(e)
	st := in.Apply(e)
	return vThrRe.ReplaceAllString(vObserve(&st, in.Srv), " thr=X")
}

// vRunOnLeader executes the history the way the LEADER does: between any two entries the expiry loop of main()
// may have run ExpireSessions (here with the wall clock far ahead, so that it proposes the deletion of every
// session it may propose at all).  What it returns goes into raft and is not part of this history (proposed,
// not yet committed); the call itself must not leave a trace in the state machine, because followers never
// make it.
func vRunOnLeader(hist []VEntry, e VEntry) string {
	in := VerifNewInst()
	sweep := func(h VEntry) {
		rt.SetFixedNow(h.UnixNano + int64(400*24*time.Hour))
		in.Srv.ExpireSessions()
		rt.SetFixedNow(0)
	}
	for _, h := range hist {
		in.Apply(h)
		sweep(h)
	}
	st := in.Apply(e)
	return vObserve(&st, in.Srv)
}

func TestVerifC01(t *testing.T) {
	shard, _ := strconv.Atoi(os.Getenv("VERIF_SHARD"))
	nshards, _ := strconv.Atoi(os.Getenv("VERIF_NSHARDS"))
	if nshards == 0 {
		nshards = 1
	}
	pairs := os.Getenv("VERIF_C01_PAIRS") == "1"
	var all []VWork
	if p := os.Getenv("VERIF_WORK"); p != "" {
		b, err := os.ReadFile(p)
		if err != nil {
			t.Fatal(err)
		}
		if err := json.Unmarshal(b, &all); err != nil {
			t.Fatal(err)
		}
	} else {
		for _, s := range VerifScenarios() {
			all = append(all, VWork{Scenario: s.Name})
		}
	}
	full := os.Getenv("VERIF_ALPHA") != "reduced"
	var deadline time.Time
	if d := os.Getenv("VERIF_DEADLINE"); d != "" {
		sec, _ := strconv.ParseInt(d, 10, 64)
		deadline = time.Unix(sec, 0)
	}
	type result struct {
		VResult
		Executions      int               `json:"executions"`
		ChoicePoints    int               `json:"choice_points"`
		TransWithChoice int               `json:"transitions_with_choice_points"`
		MaxAlts         int               `json:"max_alternatives"`
		BeyondBound     int               `json:"choice_points_beyond_bound"`
		Digests         map[string]string `json:"digests"`
	}
	res := &result{Digests: map[string]string{}}
	if err := VerifCheckInventory(); err != nil {
		t.Fatal(err)
	}
	res.Counters = map[string]int{}
	res.Exhaustive = true
	sigs := map[string]*VViolation{}
	report := func(sc string, hist []VEntry, e VEntry, sig, desc string) {
		sig = "C01:" + sig
		if v, ok := sigs[sig]; ok {
			v.Count++
			return
		}
		v := &VViolation{Sig: sig, Desc: desc, Scenario: sc, Hist: append(append([]VEntry(nil), hist...), e), Count: 1, Prop: "C01"}
		sigs[sig] = v
		res.Violations = append(res.Violations, v)
	}
	firstDiff := func(a, b string) string {
		la, lb := strings.Split(a, "\n"), strings.Split(b, "\n")
		for k := 0; k < len(la) && k < len(lb); k++ {
			if la[k] != lb[k] {
				x, y := la[k], lb[k]
				if len(x) > 200 {
					x = x[:200]
				}
				if len(y) > 200 {
					y = y[:200]
				}
				return fmt.Sprintf("line %d: %q vs %q", k, x, y)
			}
		}
		return fmt.Sprintf("length %d vs %d lines", len(la), len(lb))
	}
	// warm-up: one-time initialisations (lazy caches in libraries) iterate maps on this goroutine the
	// first time an entry is applied; run one history before anything is recorded so that choice
	// point numbering is stable
	if sc0 := VerifScenario("services"); sc0 != nil {
		vRunArmed(sc0.Hist[:len(sc0.Hist)-1], sc0.Hist[len(sc0.Hist)-1], nil, 0)
	}
	aligned := func(a, b vC01Run, upto int) bool {
		if a.prefixN != b.prefixN || len(b.choices) <= upto {
			return false
		}
		for j := 0; j <= upto; j++ {
			if a.choices[j].Count != b.choices[j].Count || a.choices[j].B != b.choices[j].B {
				return false
			}
		}
		return true
	}
	checkEntry := func(sc string, hist []VEntry, e VEntry) {
		res.Transitions++
		base := vRunArmed(hist, e, nil, 0)
		if again := vRunArmed(hist, e, nil, 0); again.obs != base.obs {
			// two executions of the same history on fresh instances in this process disagree although nothing
			// was deviated: something outside the entries (process-global state that an earlier execution left
			// behind) influences the result.  No stable baseline: the deviations of this entry are skipped.
			res.Counters["unstable_baseline"]++
			report(sc, hist, e, "identical re-execution in the same process gives a different result ["+vEntryCmd(&e)+"]",
				fmt.Sprintf("entry %s: the history was executed twice on fresh instances without any deviation: %s", e.String(), firstDiff(base.obs, again.obs)))
			// what the process executed before is part of the cause, so the finding cannot be re-executed from
			// this history alone: it is not subjected to the five-fold replay (like the cross-process digests)
			if v := sigs["C01:identical re-execution in the same process gives a different result ["+vEntryCmd(&e)+"]"]; v != nil {
				v.Prop = "C01x"
			}
			res.Executions++
			return
		} else if len(again.choices) != len(base.choices) {
			// (lazy one-time initialisation in a library: same result, different number of choice points)
			base = again
			res.Counters["baseline_rerun"]++
		}
		res.Executions++
		if base.spawned > 0 {
			// work that continues on another goroutine after Apply returned changes the state at a moment the
			// log does not determine (confirmed on a second execution: lazily started library goroutines
			// appear once)
			if again := vRunArmed(hist, e, nil, 0); again.spawned > 0 {
				report(sc, hist, e, "applying an entry leaves a goroutine running (the result depends on goroutine timing) ["+vEntryCmd(&e)+"]",
					fmt.Sprintf("entry %s: %d goroutine(s) exist after the entry was applied that did not exist before", e.String(), again.spawned))
			}
		}
		h := sha1.Sum([]byte(base.obs))
		res.Digests[fmt.Sprintf("%s|%d|%s", sc, len(hist), vKey(e.String()))] = hex.EncodeToString(h[:8])
		k := len(base.choices) - base.prefixN
		if k > 0 {
			res.TransWithChoice++
		}
		res.ChoicePoints += k
		cmd := vEntryCmd(&e)
		// clock shift
		sh := vRunArmed(hist, e, nil, vClockShiftSec)
		res.Executions++
		if sh.obs != base.obs {
			report(sc, hist, e, "result depends on the wall clock ["+cmd+"]", fmt.Sprintf("entry %s: with the clock shifted by +400d the result differs: %s", e.String(), firstDiff(base.obs, sh.obs)))
		}
		// the node that received the POSTs (handler-side calls that are not part of the log)
		if rn := vRunOnReceivingNode(hist, e); rn != vThrRe.ReplaceAllString(base.obs, " thr=X") {
			report(sc, hist, e, "result depends on which node received the client's POST ["+cmd+"]", fmt.Sprintf("entry %s: on the node whose HTTP handler called ThrottleUntil for the posting sessions the result differs: %s", e.String(), firstDiff(vThrRe.ReplaceAllString(base.obs, " thr=X"), rn)))
		}
		res.Executions++
		// the leader (the expiry sweep of main() runs between entries)
		if ld := vRunOnLeader(hist, e); ld != base.obs {
			report(sc, hist, e, "result depends on whether the node ran the expiry sweep (leader) ["+cmd+"]", fmt.Sprintf("entry %s: on a node that called ExpireSessions between the entries the result differs: %s", e.String(), firstDiff(base.obs, ld)))
		}
		res.Executions++
		// single deviations
		var devs [][2]uint64
		for ci := base.prefixN; ci < len(base.choices); ci++ {
			ch := base.choices[ci]
			if ch.Alts > res.MaxAlts {
				res.MaxAlts = ch.Alts
			}
			alts := ch.Alts
			if ch.B > 1 {
				res.BeyondBound++
				alts = 16 // maps > 16 entries: only the first 16 start positions (stated bound)
			}
			for r := 1; r < alts; r++ {
				devs = append(devs, [2]uint64{uint64(ci), uint64(r)})
				d := vRunArmed(hist, e, map[int]uint64{ci: uint64(r)}, 0)
				res.Executions++
				if !aligned(base, d, ci) {
					// the deviating run did not reach the same choice point: a divergence while replaying a
					// prefix is a hard error of the harness, never silently accepted
					res.Counters["misaligned_deviation_runs"]++
					res.Exhaustive = false
					res.Note = "HARNESS-NONDETERMINISM: choice points of a deviating run do not line up with the baseline"
					continue
				}
				if d.obs != base.obs {
					report(sc, hist, e, "result depends on map iteration order ["+cmd+"]",
						fmt.Sprintf("entry %s: choice point %d (map of %d elements) start position %d instead of 0 changes the result: %s", e.String(), ci-base.prefixN, ch.Count, r, firstDiff(base.obs, d.obs)))
				}
			}
		}
		if pairs && len(devs) > 1 && len(devs) <= 64 {
			for a := 0; a < len(devs); a++ {
				for b := a + 1; b < len(devs); b++ {
					if devs[a][0] == devs[b][0] {
						continue
					}
					d := vRunArmed(hist, e, map[int]uint64{int(devs[a][0]): devs[a][1], int(devs[b][0]): devs[b][1]}, 0)
					res.Executions++
					if d.obs != base.obs {
						report(sc, hist, e, "result depends on map iteration order (two deviations) ["+cmd+"]", fmt.Sprintf("entry %s: %s", e.String(), firstDiff(base.obs, d.obs)))
					}
				}
			}
		}
	}
	if rp := os.Getenv("VERIF_REPLAY"); rp != "" {
		b, err := os.ReadFile(rp)
		if err != nil {
			t.Fatal(err)
		}
		var v VViolation
		if err := json.Unmarshal(b, &v); err != nil {
			t.Fatal(err)
		}
		n, _ := strconv.Atoi(os.Getenv("VERIF_REPLAY_COUNT"))
		if n == 0 {
			n = 1
		}
		type rr struct {
			Runs       [][]string `json:"runs"`
			Reproduced bool       `json:"reproduced"`
			Identical  bool       `json:"identical"`
		}
		r := rr{Identical: true, Reproduced: true}
		for k := 0; k < n; k++ {
			for key := range sigs {
				delete(sigs, key)
			}
			res.Violations = nil
			checkEntry(v.Scenario, v.Hist[:len(v.Hist)-1], v.Hist[len(v.Hist)-1])
			var got []string
			found := false
			for sg := range sigs {
				got = append(got, sg)
				if sg == v.Sig {
					found = true
				}
			}
			sort.Strings(got)
			r.Runs = append(r.Runs, got)
			if !found {
				r.Reproduced = false
			}
			if k > 0 && strings.Join(got, "|") != strings.Join(r.Runs[0], "|") {
				r.Identical = false
			}
		}
		jb, _ := json.Marshal(r)
		if out := os.Getenv("VERIF_OUT"); out != "" {
			os.WriteFile(out, jb, 0644)
		} else {
			fmt.Println(string(jb))
		}
		return
	}
	for k, w := range all {
		if k%nshards != shard {
			continue
		}
		if !deadline.IsZero() && time.Now().After(deadline) {
			res.Exhaustive = false
			res.Note = "time cap reached; remaining work items not expanded"
			res.Counters["items_skipped_by_cap"]++
			continue
		}
		sc := VerifScenario(w.Scenario)
		hist := append(append([]VEntry(nil), sc.Hist...), w.Extra...)
		res.States++
		// every entry of the scripted prefix is itself a checked transition
		if len(w.Extra) == 0 {
			for p := range sc.Hist {
				checkEntry(w.Scenario, sc.Hist[:p], sc.Hist[p])
			}
		}
		in := VerifBuild(hist)
		for _, e := range vEntriesFor(in, full) {
			checkEntry(w.Scenario, hist, e)
		}
		if len(res.Samples) < 4 {
			res.Samples = append(res.Samples, fmt.Sprintf("%s +%d: %d transitions so far, %d choice points, %d executions", w.Scenario, len(w.Extra), res.Transitions, res.ChoicePoints, res.Executions))
		}
	}
	res.Replays = res.Executions
	_ = robust.Id{}
	b, _ := json.Marshal(res)
	if out := os.Getenv("VERIF_OUT"); out != "" {
		os.WriteFile(out, b, 0644)
	} else {
		fmt.Println(string(b))
	}
}
