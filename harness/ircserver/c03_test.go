//go:build verif

package ircserver

// C03: serialization is complete.  Every explored state S is a cut point:
// S' = Unmarshal(Marshal(S)) on a fresh instance must have the same canonical dump,
// and every continuation entry of the alphabet must produce the same replies and the
// same state on S and S'.

import (
	"encoding/json"
	"fmt"
	"os"
	"sort"
	"strconv"
	"strings"
	"testing"
	"time"

	"github.com/robustirc/robustirc/internal/robust"
)

func vObsC03(st *VStep, srv *IRCServer) string {
	var b strings.Builder
	if st.Panic != nil {
		fmt.Fprintf(&b, "PANIC %v\n", st.Panic)
		return b.String()
	}
	fmt.Fprintf(&b, "err=%v\n", st.Err)
	for _, m := range st.Msgs {
		var rs []string
		for id, ok := range m.InterestingFor {
			if ok {
				rs = append(rs, strconv.FormatUint(id, 10))
			}
		}
		sort.Strings(rs)
		fmt.Fprintf(&b, "%d.%d %q -> %s\n", m.Id.Id, m.Id.Reply, m.Data, strings.Join(rs, ","))
	}
	b.WriteString(VerifDump(srv, VerifDumpOpts{}))
	return b.String()
}

// vDiffClass names the first differing line of two dumps by its kind.
func vDiffClass(a, b string) (string, string) {
	la, lb := strings.Split(a, "\n"), strings.Split(b, "\n")
	n := len(la)
	if len(lb) < n {
		n = len(lb)
	}
	for k := 0; k < n; k++ {
		if la[k] == lb[k] {
			continue
		}
		f := strings.Fields(la[k])
		g := strings.Fields(lb[k])
		kind := "line"
		if len(f) > 0 {
			kind = f[0]
		}
		// find the first differing field name
		field := ""
		for x := 0; x < len(f) && x < len(g); x++ {
			if f[x] != g[x] {
				field = f[x]
				if i := strings.IndexByte(field, '='); i > 0 {
					field = field[:i]
				}
				break
			}
		}
		if len(f) > 0 && len(g) > 0 && f[0] != g[0] {
			field = "entry " + f[0] + "/" + g[0]
		}
		if kind == "N" {
			field = "(nick index entry)"
		}
		if strings.HasPrefix(field, "\"") || strings.ContainsAny(field, "0123456789") && kind != "CFG" {
			field = "(entry)"
		}
		x, y := la[k], lb[k]
		if len(x) > 300 {
			x = x[:300]
		}
		if len(y) > 300 {
			y = y[:300]
		}
		return kind + " " + field, fmt.Sprintf("%q vs %q", x, y)
	}
	if len(la) != len(lb) {
		return "number of lines", fmt.Sprintf("%d vs %d", len(la), len(lb))
	}
	return "", ""
}

// vMaskOrigins removes the WhitelistedOrigins rendering from a dump: its loss is reported
// once at the cut; continuations are compared on everything else.
func vMaskOrigins(d string) string {
	i := strings.Index(d, " origins=[")
	if i < 0 {
		return d
	}
	j := strings.Index(d[i:], "]\n")
	if j < 0 {
		return d
	}
	return d[:i] + d[i+j+1:]
}

func TestVerifC03(t *testing.T) {
	shard, _ := strconv.Atoi(os.Getenv("VERIF_SHARD"))
	nshards, _ := strconv.Atoi(os.Getenv("VERIF_NSHARDS"))
	if nshards == 0 {
		nshards = 1
	}
	var all []VWork
	if p := os.Getenv("VERIF_WORK"); p != "" {
		b, err := os.ReadFile(p)
		if err != nil {
			t.Fatal(err)
		}
		if err := json.Unmarshal(b, &all); err != nil {
			t.Fatal(err)
		}
	} else {
		for _, s := range VerifScenarios() {
			all = append(all, VWork{Scenario: s.Name})
		}
	}
	full := os.Getenv("VERIF_ALPHA") != "reduced"
	var deadline time.Time
	if d := os.Getenv("VERIF_DEADLINE"); d != "" {
		sec, _ := strconv.ParseInt(d, 10, 64)
		deadline = time.Unix(sec, 0)
	}
	res := &VResult{Counters: map[string]int{}, Exhaustive: true}
	if err := VerifCheckInventory(); err != nil {
		t.Fatal(err)
	}
	sigs := map[string]*VViolation{}
	report := func(sc string, hist []VEntry, sig, desc string) {
		sig = "C03:" + sig
		if v, ok := sigs[sig]; ok {
			v.Count++
			return
		}
		v := &VViolation{Sig: sig, Desc: desc, Scenario: sc, Hist: append([]VEntry(nil), hist...), Count: 1, Prop: "C03"}
		sigs[sig] = v
		res.Violations = append(res.Violations, v)
	}
	if rp := os.Getenv("VERIF_REPLAY"); rp != "" {
		// replay: the history is cut before its last entry, which is the continuation
		b, _ := os.ReadFile(rp)
		var v VViolation
		json.Unmarshal(b, &v)
		all = nil
		_ = v
	}
	for k, w := range all {
		if k%nshards != shard {
			continue
		}
		if !deadline.IsZero() && time.Now().After(deadline) {
			res.Exhaustive = false
			res.Note = "time cap reached; remaining cut points not expanded"
			res.Counters["items_skipped_by_cap"]++
			continue
		}
		sc := VerifScenario(w.Scenario)
		hist := append(append([]VEntry(nil), sc.Hist...), w.Extra...)
		build := func() (*VInst, *VInst) {
			s := VerifBuild(hist)
			j, err := vRoundTrip(s.Srv)
			if err != nil {
				report(w.Scenario, hist, "Marshal/Unmarshal failed", err.Error())
				return s, nil
			}
			return s, &VInst{Srv: j, Hist: append([]VEntry(nil), hist...)}
		}
		s, r := build()
		res.States++
		res.Replays++
		if r == nil {
			continue
		}
		d1, d2 := VerifOpaqueRe.ReplaceAllString(VerifDump(s.Srv, VerifDumpOpts{}), ""), VerifOpaqueRe.ReplaceAllString(VerifDump(r.Srv, VerifDumpOpts{}), "")
		cutDiffers := vMaskOrigins(d1) != vMaskOrigins(d2)
		if d1 != d2 {
			cls, detail := vDiffClass(d1, d2)
			report(w.Scenario, hist, "state after save+load differs: "+cls, fmt.Sprintf("cut after %d entries of %s: %s", len(hist), w.Scenario, detail))
			res.Counters["cuts_with_differing_state"]++
		}
		// exported accessors named by the property
		for _, o := range []string{"https://web.example", "https://other.example", ""} {
			if s.Srv.OriginWhitelisted(o) != r.Srv.OriginWhitelisted(o) {
				report(w.Scenario, hist, "OriginWhitelisted differs after save+load", fmt.Sprintf("origin %q: %v vs %v", o, s.Srv.OriginWhitelisted(o), r.Srv.OriginWhitelisted(o)))
			}
		}
		if s.Srv.TrustedBridge("bridgeauth") != r.Srv.TrustedBridge("bridgeauth") {
			report(w.Scenario, hist, "TrustedBridge differs after save+load", "")
		}
		for id := range s.Srv.sessions {
			if VerifMarker(s.Srv, id) != VerifMarker(r.Srv, id) {
				report(w.Scenario, hist, "duplicate-detection marker differs after save+load", vid(id))
			}
		}
		for _, q := range []uint64{0, 1, 2, 3, 5, 8, 1 << 40} {
			_, e1 := s.Srv.GetSession(robust.Id{Id: q})
			_, e2 := r.Srv.GetSession(robust.Id{Id: q})
			if e1 != e2 {
				report(w.Scenario, hist, "GetSession answer differs after save+load", fmt.Sprintf("id %d: %v vs %v", q, e1, e2))
			}
		}
		base := VerifDump(s.Srv, VerifDumpOpts{NoStamps: true})
		for _, e := range vEntriesFor(s, full) {
			ss := s.saveStamps(e.Session)
			rs := r.saveStamps(e.Session)
			st1 := s.Apply(e)
			st2 := r.Apply(e)
			res.Transitions++
			o1, o2 := vMaskOrigins(vObsC03(&st1, s.Srv)), vMaskOrigins(vObsC03(&st2, r.Srv))
			if o1 != o2 && !cutDiffers {
				cls, detail := vDiffClass(o1, o2)
				report(w.Scenario, append(append([]VEntry(nil), hist...), e), "continuation differs after save+load ["+vEntryCmd(&e)+"]: "+cls, fmt.Sprintf("continuation %s: %s", e.String(), detail))
			} else if o1 != o2 {
				// the cut state already differed; only report continuations whose *replies* differ
				r1, r2 := strings.SplitN(o1, "SERVER prefix", 2)[0], strings.SplitN(o2, "SERVER prefix", 2)[0]
				if r1 != r2 {
					_, detail := vDiffClass(r1, r2)
					report(w.Scenario, append(append([]VEntry(nil), hist...), e), "continuation replies differ after save+load (cut state differed) ["+vEntryCmd(&e)+"]", fmt.Sprintf("continuation %s: %s", e.String(), detail))
				}
			}
			if st1.Panic != nil || st2.Panic != nil || VerifDump(s.Srv, VerifDumpOpts{NoStamps: true}) != base {
				s, r = build()
				res.Replays++
				res.Mutators++
				if r == nil {
					break
				}
			} else {
				s.restoreStamps(ss)
				r.restoreStamps(rs)
			}
		}
		if len(res.Samples) < 4 {
			res.Samples = append(res.Samples, fmt.Sprintf("cut after %s +%d entries (%d sessions, %d channels): %d continuations compared", w.Scenario, len(w.Extra), len(s.Srv.sessions), len(s.Srv.channels), res.Transitions))
		}
	}
	b, _ := json.Marshal(res)
	if out := os.Getenv("VERIF_OUT"); out != "" {
		os.WriteFile(out, b, 0644)
	} else {
		fmt.Println(string(b))
	}
}
