//go:build verif

package ircserver

// C15: every delivered message is one well-formed IRC line.

import (
	"fmt"
	"regexp"
	"strings"
)

var vHeadRe = regexp.MustCompile(`^(:[^ \x00\r\n]+ )?([A-Za-z]+|[0-9]{3})( |$)`)

func vLineDefect(data string) string {
	switch {
	case len(data) > 510:
		return "longer than 510 bytes"
	case strings.IndexByte(data, '\n') >= 0:
		return "contains LF"
	case strings.IndexByte(data, '\r') >= 0:
		return "contains CR"
	case strings.IndexByte(data, 0) >= 0:
		return "contains NUL"
	case !vHeadRe.MatchString(data):
		return "malformed head (prefix/command)"
	}
	return ""
}

func vCmdOf(data string) string {
	f := strings.Fields(data)
	if len(f) == 0 {
		return ""
	}
	if strings.HasPrefix(f[0], ":") {
		if len(f) > 1 {
			return f[1]
		}
		return ""
	}
	return f[0]
}

func vEntryCmd(e *VEntry) string {
	if e.Type != 2 { // robust.IRCFromClient
		return e.Type.String()
	}
	c := strings.ToUpper(vCmdOf(strings.TrimFunc(e.Data, func(r rune) bool { return r == '\r' || r == '\n' })))
	if len(c) > 12 || !regexp.MustCompile(`^[A-Z0-9]*$`).MatchString(c) {
		c = "<garbage>"
	}
	return c
}

func init() {
	vMonitors["C15"] = func(c *VCtx) {
		for _, m := range c.Step.Msgs {
			c.Count("c15_lines_checked")
			if d := vLineDefect(m.Data); d != "" {
				c.Count("c15_defective_lines")
				out := vCmdOf(m.Data)
				if len(out) > 12 {
					out = out[:12]
				}
				c.Report(fmt.Sprintf("%s: %s line emitted for %s", d, out, vEntryCmd(&c.Step.Entry)),
					fmt.Sprintf("entry %s produced output %q (%s)", c.Step.Entry.String(), m.Data, d))
			}
		}
	}
}
