//go:build verif

package ircserver

// C15: every delivered message is one well-formed IRC line.

import (
	"fmt"
	"regexp"
	"strings"
	"unicode/utf8"
)

var vHeadRe = regexp.MustCompile(`^(:[^ \x00\r\n]+ )?([A-Za-z]+|[0-9]{3})( |$)`)

// vDeliveredLen is the length of the line as a client receives it: messages are delivered JSON-encoded,
// and the encoder replaces every byte that is not part of a valid UTF-8 sequence by U+FFFD (3 bytes).
func vDeliveredLen(data string) int {
	n := 0
	for i := 0; i < len(data); {
		r, size := utf8.DecodeRuneInString(data[i:])
		if r == utf8.RuneError && size == 1 {
			n += 3
		} else {
			n += size
		}
		i += size
	}
	return n
}

func vLineDefect(data string) string {
	switch {
	case len(data) > 510:
		return "longer than 510 bytes"
	case vDeliveredLen(data) > 510:
		return "longer than 510 bytes as delivered (stray bytes become U+FFFD)"
	case strings.IndexByte(data, '\n') >= 0:
		return "contains LF"
	case strings.IndexByte(data, '\r') >= 0:
		return "contains CR"
	case strings.IndexByte(data, 0) >= 0:
		return "contains NUL"
	case !vHeadRe.MatchString(data):
		return "malformed head (prefix/command)"
	}
	return ""
}

func vCmdOf(data string) string {
	f := strings.Fields(data)
	if len(f) == 0 {
		return ""
	}
	if strings.HasPrefix(f[0], ":") {
		if len(f) > 1 {
			return f[1]
		}
		return ""
	}
	return f[0]
}

func vEntryCmd(e *VEntry) string {
	if e.Type != 2 { // robust.IRCFromClient
		return e.Type.String()
	}
	c := strings.ToUpper(vCmdOf(strings.TrimFunc(e.Data, func(r rune) bool { return r == '\r' || r == '\n' })))
	if len(c) > 12 || !regexp.MustCompile(`^[A-Z0-9]*$`).MatchString(c) {
		c = "<garbage>"
	}
	return c
}

func init() {
	vMonitors["C15"] = func(c *VCtx) {
		for _, m := range c.Step.Msgs {
			c.Count("c15_lines_checked")
			if d := vLineDefect(m.Data); d != "" {
				c.Count("c15_defective_lines")
				out := vCmdOf(m.Data)
				if len(out) > 12 {
					out = out[:12]
				}
				c.Report(fmt.Sprintf("%s: %s line emitted for %s", d, out, vEntryCmd(&c.Step.Entry)),
					fmt.Sprintf("entry %s produced output %q (%s)", c.Step.Entry.String(), m.Data, d))
			}
		}
	}
}
