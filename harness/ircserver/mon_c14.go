//go:build verif

package ircserver

// C14: state invariants after every applied entry, on the instance itself and on
// its Marshal/Unmarshal round trip, plus NAMES/WHOIS/LIST cross-checks on the
// (about to be discarded) instance after every state-changing entry.

import (
	"fmt"
	"sort"
	"strings"

	"github.com/robustirc/robustirc/internal/robust"
)

// vNickFold is the oracle's own implementation of IRC case mapping (RFC 2812: letters compared
// case-insensitively, []\ equivalent to {}|); it must not depend on the repository's NickToLower.
func vNickFold(n string) string {
	b := []byte(n)
	for k, c := range b {
		switch {
		case c >= 'A' && c <= 'Z':
			b[k] = c + 32
		case c == '[':
			b[k] = '{'
		case c == ']':
			b[k] = '}'
		case c == '\\':
			b[k] = '|'
		}
	}
	return string(b)
}

// vInvariants returns a list of (signature, description) pairs.
func vInvariants(i *IRCServer) [][2]string {
	var bad [][2]string
	add := func(sig, desc string) { bad = append(bad, [2]string{sig, desc}) }
	owners := map[string][]robust.Id{}
	for id, s := range i.sessions {
		if s == nil {
			add("nil session in sessions", fmt.Sprint(id))
			continue
		}
		if s.deleted {
			add("session flagged deleted survives the entry", vid(id))
		}
		if s.Nick != "" {
			owners[vNickFold(s.Nick)] = append(owners[vNickFold(s.Nick)], id)
			if string(NickToLower(s.Nick)) != vNickFold(s.Nick) {
				add("nickname is indexed under a key that is not its IRC case mapping", fmt.Sprintf("%q is keyed %q, case mapping gives %q", s.Nick, NickToLower(s.Nick), vNickFold(s.Nick)))
			}
			if !IsValidNickname(s.Nick) {
				add("owned nickname is not syntactically valid", fmt.Sprintf("%s owns %q", vid(id), s.Nick))
			}
			if i.nicks[NickToLower(s.Nick)] != s {
				add("live session not reachable by its current nickname", fmt.Sprintf("%s nick %q", vid(id), s.Nick))
			}
		}
		for c := range s.Channels {
			ch, ok := i.channels[c]
			if !ok {
				add("session lists a channel that does not exist", fmt.Sprintf("%s lists %q", vid(id), c))
				continue
			}
			if _, ok := ch.nicks[NickToLower(s.Nick)]; !ok {
				add("session lists a channel that does not list the session", fmt.Sprintf("%s (%q) lists %q", vid(id), s.Nick, c))
			}
		}
	}
	for n, ids := range owners {
		if len(ids) > 1 {
			add("two live sessions own the same nickname", fmt.Sprintf("%q owned by %v", n, ids))
		}
	}
	for k, s := range i.nicks {
		if s == nil {
			add("nick index entry is nil", string(k))
			continue
		}
		if k == "" {
			continue // C03's subject (index entry for nick-less sessions after Unmarshal)
		}
		if NickToLower(s.Nick) != k {
			add("nick index key does not match the session's nickname", fmt.Sprintf("key %q -> %s nick %q", k, vid(s.Id), s.Nick))
		}
		if i.sessions[s.Id] != s {
			add("nick index points to a session that is not live", fmt.Sprintf("key %q -> %s", k, vid(s.Id)))
		}
	}
	for lc, c := range i.channels {
		if c == nil {
			add("nil channel", string(lc))
			continue
		}
		if ChanToLower(c.name) != lc {
			add("channel key does not match its name", fmt.Sprintf("%q vs %q", lc, c.name))
		}
		if !IsValidChannel(c.name) {
			add("channel name is not syntactically valid", fmt.Sprintf("%q", c.name))
		}
		if len(c.nicks) == 0 {
			add("empty channel exists", string(lc))
		}
		for n, p := range c.nicks {
			if p == nil {
				add("nil member status", fmt.Sprintf("%q in %q", n, lc))
			}
			s, ok := i.nicks[n]
			if !ok || s == nil {
				add("channel member is not a live nickname", fmt.Sprintf("%q in %q", n, lc))
				continue
			}
			if s.deleted || i.sessions[s.Id] != s {
				add("channel member is not a live session", fmt.Sprintf("%q in %q", n, lc))
			}
			if !s.Channels[lc] {
				add("channel lists a session that does not list the channel", fmt.Sprintf("%q in %q", n, lc))
			}
		}
	}
	return bad
}

func vRoundTrip(i *IRCServer) (*IRCServer, error) {
	b, err := i.Marshal(0)
	if err != nil {
		return nil, err
	}
	j := VerifNewServer()
	if _, err := j.Unmarshal(b); err != nil {
		return nil, err
	}
	return j, nil
}

// vProbe applies a query line on the instance and returns the reply lines.
func vProbe(in *VInst, sess robust.Id, line string) []string {
	e := VEntry{Type: robust.IRCFromClient, Id: in.NextId(), Session: sess, Data: line, UnixNano: in.Now() + 1e9, ClientMessageId: in.NextId()*13 + 1, RemoteAddr: in.Srv.sessions[sess].RemoteAddr}
	st := in.Apply(e)
	var out []string
	for _, m := range st.Msgs {
		out = append(out, m.Data)
	}
	return out
}

var vC14Twin vTwinSlot

func init() {
	vMonitors["C14"] = func(c *VCtx) {
		if c.Step.Panic != nil {
			return
		}
		i := c.In.Srv
		c.Count("c14_states_checked")
		for _, b := range vInvariants(i) {
			c.Report(b[0]+" after "+vEntryCmd(&c.Step.Entry), fmt.Sprintf("after %s: %s (%s)", c.Step.Entry.String(), b[0], b[1]))
		}
		// limits: never exceeded by an entry that makes the count grow
		i.ConfigMu.RLock()
		maxS, maxC := i.Config.MaxSessions, i.Config.MaxChannels
		i.ConfigMu.RUnlock()
		if maxS > 0 && uint64(len(i.sessions)) > maxS && len(i.sessions) > len(c.Pre.Sessions) {
			c.Report("MaxSessions exceeded by "+vEntryCmd(&c.Step.Entry), fmt.Sprintf("%d sessions with limit %d after %s", len(i.sessions), maxS, c.Step.Entry.String()))
		}
		if maxC > 0 && uint64(len(i.channels)) > maxC && len(i.channels) > len(c.Pre.Chans) {
			actor := "client"
			if s := c.Pre.Sessions[c.Step.Entry.Session]; s != nil && s.Server {
				actor = "services"
			}
			c.Report("MaxChannels exceeded by "+actor+" "+vEntryCmd(&c.Step.Entry), fmt.Sprintf("%d channels with limit %d after %s", len(i.channels), maxC, c.Step.Entry.String()))
		}
		// the same entry on a node that was restored from a snapshot of the pre-state: the invariants hold there too
		if tw, st := vC14Twin.apply(c); st != nil && st.Panic == nil && c.Changed {
			c.Count("c14_states_checked_on_a_restored_node")
			for _, b := range vInvariants(tw.Srv) {
				c.Report(b[0]+" on a node restored from a snapshot, after "+vEntryCmd(&c.Step.Entry), fmt.Sprintf("the pre-state went through Marshal/Unmarshal, then %s: %s (%s)", c.Step.Entry.String(), b[0], b[1]))
			}
		}
		if !c.Changed {
			return
		}
		// state changed: round trip + observable cross-checks (the instance is discarded afterwards)
		c.Count("c14_changed_states")
		if j, err := vRoundTrip(i); err != nil {
			c.Report("Marshal/Unmarshal failed after "+vEntryCmd(&c.Step.Entry), err.Error())
		} else {
			for _, b := range vInvariants(j) {
				c.Report("after snapshot round trip: "+b[0], fmt.Sprintf("after %s + round trip: %s (%s)", c.Step.Entry.String(), b[0], b[1]))
			}
		}
		if len(vInvariants(i)) > 0 {
			return // probes on an inconsistent instance may crash
		}
		defer func() {
			if r := recover(); r != nil {
				c.Count("c14_probe_panics")
			}
		}()
		var observers []robust.Id
		for id, s := range i.sessions {
			if id.Reply == 0 && !s.Server && s.loggedIn {
				observers = append(observers, id)
			}
		}
		sort.Slice(observers, func(a, b int) bool { return observers[a].Id < observers[b].Id })
		var chans []string
		for lc := range i.channels {
			chans = append(chans, string(lc))
		}
		sort.Strings(chans)
		for _, lc := range chans {
			ch := i.channels[lcChan(lc)]
			// observer: a member if there is one among the client sessions (sees +i users too)
			var obs *robust.Id
			for k := range observers {
				if i.sessions[observers[k]].Channels[lcChan(lc)] {
					obs = &observers[k]
					break
				}
			}
			if obs == nil {
				continue
			}
			var want []string
			for n, p := range ch.nicks {
				pre := ""
				if p[chanop] {
					pre = "@"
				}
				want = append(want, pre+i.nicks[n].Nick)
			}
			sort.Strings(want)
			lines := vProbe(c.In, *obs, "NAMES "+ch.name)
			c.Count("c14_names_probes")
			got := "<no 353>"
			for _, l := range lines {
				if strings.Contains(l, " 353 ") {
					idx := strings.Index(l, " :")
					f := strings.Fields(l)
					if idx >= 0 {
						got = l[idx+2:]
					} else {
						got = f[len(f)-1]
					}
				}
			}
			if got != strings.Join(want, " ") {
				c.Report("NAMES does not list exactly the members", fmt.Sprintf("after %s: NAMES %s gave %q, members are %q", c.Step.Entry.String(), ch.name, got, strings.Join(want, " ")))
			}
			lines = vProbe(c.In, *obs, "LIST "+ch.name)
			c.Count("c14_list_probes")
			okList := false
			wantList := fmt.Sprintf(" 322 %s %s %d ", i.sessions[*obs].Nick, ch.name, len(ch.nicks))
			for _, l := range lines {
				if strings.Contains(l, wantList) {
					okList = true
				}
			}
			if !okList {
				c.Report("LIST does not report the member count", fmt.Sprintf("after %s: LIST %s gave %q, want %q", c.Step.Entry.String(), ch.name, lines, wantList))
			}
		}
	}
}
