//go:build verif

package ircserver

// Alphabet of the mc engine: client lines generated from the live command table x
// parameter shapes, hand-picked lines for every shortcut visible in the handlers,
// protocol-conforming services lines, and non-line entries.

import (
	"crypto/hmac"
	"crypto/sha256"
	"encoding/base64"
	"fmt"
	"sort"
	"strings"
	"time"

	"github.com/robustirc/robustirc/internal/robust"
)

const (
	vCfgBase = `SessionExpiration = "30m"
PostMessageCooloff = "0s"
CaptchaURL = "http://captcha.example"
CaptchaHMACSecret = "736563726574"
[IRC]
[[IRC.Operators]]
Name = "root"
Password = "operpw"
[[IRC.Operators]]
Name = "admin"
Password = "adminpw"
[[IRC.Services]]
Password = "svcpw"
[TrustedBridges]
bridgeauth = "bridge1"
[WhitelistedOrigins]
"https://web.example" = true
`
	vCfgLimits = `SessionExpiration = "30m"
PostMessageCooloff = "0s"
MaxSessions = 3
MaxChannels = 1
[IRC]
[[IRC.Operators]]
Name = "root"
Password = "operpw"
[[IRC.Services]]
Password = "svcpw"
`
	vCfgCaptchaLogin = `SessionExpiration = "30m"
PostMessageCooloff = "0s"
CaptchaURL = "http://captcha.example"
CaptchaHMACSecret = "736563726574"
CaptchaRequiredForLogin = true
[IRC]
[[IRC.Operators]]
Name = "root"
Password = "operpw"
`
	vCfgOther = `SessionExpiration = "10m"
PostMessageCooloff = "1.00000025s"
[IRC]
[[IRC.Operators]]
Name = "admin"
Password = "otherpw"
[[IRC.Services]]
Password = "svc2"
[[IRC.Services]]
Password = "svc3"
[Banned]
"10.9.9.9" = "spam"
`
	vCfgInvalid = `SessionExpiration = [1,2`
)

var vSecret = []byte("secret")

// vCaptcha builds a captcha token the way robustirc/captchasrv would.
func vCaptcha(secret []byte, purpose string, challenge string, flip bool) string {
	mac := hmac.New(sha256.New, secret)
	mac.Write([]byte(purpose))
	mac.Write([]byte(challenge))
	sum := mac.Sum(nil)
	if flip {
		sum[0] ^= 1
	}
	return strings.Join([]string{
		base64.StdEncoding.EncodeToString([]byte(purpose)),
		base64.StdEncoding.EncodeToString([]byte(challenge)),
		base64.StdEncoding.EncodeToString(sum),
	}, ".")
}

// VLine is one alphabet item: a client line plus optional deviations from the
// default environment (time step, remote address).
type VLine struct {
	Data string
	Dt   time.Duration // 0 = default 1s
	Addr string        // "" = the session's usual address
	Tag  string        // class used for the reduced alphabet
}

var vLong520 = strings.Repeat("a", 520)
var vLong600 = strings.Repeat("é", 300)
var vLong4 = strings.Repeat("\U0001F600", 140)
var vLong3 = strings.Repeat("\u20ac", 190)

// vTexts are the trailing-text values of C15's alphabet.
var vTexts = []string{"hi", "", ":x", "a b", "x\ry", "x\x00y", "x\rQUIT :injected", vLong600, vLong520, "ünï", "x\ny", "x\n:b!ub@robust/0x5 PRIVMSG #c :forged",
	// long runs of 4-byte and 3-byte characters at every byte alignment: the 510-byte cut of a relayed line
	// then falls after the 1st, 2nd or 3rd byte of a character
	"\u023a\u023a\u023a\u0130\u0130\u1e9e x", // letters whose lower-/upper-case form has another length in UTF-8
	"a\rb\nc", "a\x00b\nc", "a\rQUIT :x\n:b!ub@robust/0x5 PRIVMSG #c :forged\n",
	vLong4, "a" + vLong4, "aa" + vLong4, "aaa" + vLong4, vLong3, "a" + vLong3, "aa" + vLong3}

func vClientLines(now int64, full bool) []VLine {
	var ls []VLine
	add := func(tag string, data ...string) {
		for _, d := range data {
			ls = append(ls, VLine{Data: d, Tag: tag})
		}
	}
	tok := func(purpose string) string { return vCaptcha(vSecret, purpose, "authXXXX", false) }
	okJoin := fmt.Sprintf("okay:join:%d:#c", now)
	add("nick", "NICK a", "NICK A", "NICK b", "NICK c", "NICK [x", "NICK {x", "NICK ]x", "NICK x", "NICK ChanServ", "NICK fooserv", "NICK 1bad", "NICK", "NICK :", "NICK held", "NICK "+strings.Repeat("n", 31), "NICK "+strings.Repeat("n", 32), "NICK a b c",
		"NICK p\\q", "NICK p|q", "NICK P\\Q", "NICK ^x", "NICK ~x", "NICK x`y", "NICK x_y", "NICK x-y")
	add("user", "USER u 0 * :Real", "USER u 0 *", "USER u 0 * :", "USER", "USER u", "USER x\x00y 0 * :r\ry", "USER "+vLong520+" 0 * :"+vLong600,
		// longer than the 64 bytes kept, byte 64 inside a 2-byte / 3-byte character
		"USER "+strings.Repeat("u", 63)+"\u00e9\u00e9 0 * :Real", "USER "+strings.Repeat("u", 62)+"\u20ac\u20ac 0 * :Real")
	add("pass", "PASS pw", "PASS :nickserv=x", "PASS :services=svcpw", "PASS :services=wrong", "PASS :oper=root operpw", "PASS :oper=root wrong", "PASS :oper=root", "PASS", "PASS :", "PASS :session=x:oper=root operpw",
		"PASS :captcha="+tok(fmt.Sprintf("okay:login:%d:", now)), "PASS :captcha="+tok(fmt.Sprintf("login:%d:", now)), "PASS :captcha="+vCaptcha(vSecret, fmt.Sprintf("okay:login:%d:", now), "authXXXX", true),
		"PASS :captcha="+tok(fmt.Sprintf("okay:login:%d:", now-int64(6*time.Minute))), "PASS :captcha=x.y", "PASS :captcha=!.!.!")
	add("oper", "OPER root operpw", "OPER root wrong", "OPER nobody operpw", "OPER root", "OPER root :", "OPER", "OPER admin otherpw", "OPER admin adminpw", "OPER root adminpw", "OPER admin operpw")
	add("join", "JOIN #c", "JOIN #C", "JOIN #d", "JOIN #new", "JOIN #c,#d", "JOIN #c key", "JOIN #c KEY", "JOIN #c wrong", "JOIN #c,#d key,key2", "JOIN #c,#d key", "JOIN #c,#d,#new key,key2", "JOIN #c,#d :", "JOIN #new,#new2 k", "JOIN #c key,key2,key3", "JOIN #c,#d ,key2", "JOIN #new,#c", "JOIN #new,#d,#c", "JOIN #d,#new", "JOIN #new,#new2", "JOIN c", "JOIN #", "JOIN", "JOIN :", "JOIN #c,", "JOIN ,", "JOIN #c,#c",
		"JOIN #"+strings.Repeat("x", 32), "JOIN #"+strings.Repeat("x", 33), "JOIN #a\x07b", "JOIN 0",
		"JOIN #c "+tok(okJoin), "JOIN #c "+vCaptcha(vSecret, okJoin, "authXXXX", true), "JOIN #c "+tok(fmt.Sprintf("join:%d:#c", now)),
		"JOIN #c "+tok(fmt.Sprintf("login:%d:", now)), "JOIN #c "+tok(fmt.Sprintf("okay:join:%d:#c", now-int64(6*time.Minute))),
		"JOIN #c "+vCaptcha([]byte("other"), okJoin, "authXXXX", false), "JOIN #c "+tok(fmt.Sprintf("okay:join:%d:#d", now)),
		"JOIN #c "+tok(fmt.Sprintf("okay:join:%d", now)), "JOIN #c "+tok("okay:join:nan:#c"), "JOIN #c a.b", "JOIN #c !.!.!", "JOIN #c "+tok(fmt.Sprintf("okay:login:%d:", now)))
	add("part", "PART #c", "PART #C", "PART #d", "PART #c,#d", "PART #none", "PART #c :bye", "PART", "PART :", "PART ,")
	add("kick", "KICK #c,#d a", "KICK #c a,b", "KICK #c,#d a,b", "KICK #c a", "KICK #c b", "KICK #c B", "KICK #c c", "KICK #c nobody", "KICK #d a", "KICK #d b", "KICK #c a :reason", "KICK #c b :", "KICK #c ChanServ", "KICK #none a", "KICK #c", "KICK", "KICK #c :", "KICK : :", "KICK #C a", "KICK #C b", "KICK #C c :x", "KICK #D b")
	add("topic", "TOPIC #c", "TOPIC #c :", "TOPIC #c :new topic", "TOPIC #c new", "TOPIC #d :x", "TOPIC #d :", "TOPIC #C :t2", "TOPIC #none :x", "TOPIC #none", "TOPIC", "TOPIC :", "TOPIC #c a b", "TOPIC #c a :")
	add("mode", "MODE #c", "MODE #c +i", "MODE #c -i", "MODE #c +k key", "MODE #c +k KEY", "MODE #c +k", "MODE #c -k", "MODE #c -k key", "MODE #c +b", "MODE #c b", "MODE #c +b a!*@*", "MODE #c +b b!*@*", "MODE #c -b b!*@*", "MODE #c -b a!*@*", "MODE #c +b \u023a\u023a\u023a\u023a@robust/0x5", "MODE #c +b \u023a\u023a\u023a\u023a\u023a\u023a\u023a\u023a@ROBUST/0X5", "MODE #c +b \u0130\u0130\u0130!\u1e9e@robust/0x8", "MODE #c +ikob sesame b", "MODE #c +bo b", "MODE #c +ob a", "MODE #c +bi", "MODE #c +bk sesame", "MODE #c -bo a", "MODE #c -b *!*@robust/0x5", "MODE #c -b *!*@robust/0x8", "MODE #c +b *!*@robust/0x5", "MODE #c +b *!*@robust/0x8", "MODE #c +b *!*@10.0.0.*",
		"MODE #c +b *!*@robust/0x2", "MODE #c +b *!*@robust/0x5", "MODE #c +b *!*@robust/0xzz", "MODE #c +b [", "MODE #c +b (", "MODE #c +b \\", "MODE #c +o b", "MODE #c -o a", "MODE #c -o b", "MODE #c +o a", "MODE #c +o nobody", "MODE #c +o", "MODE #c +x", "MODE #c -x", "MODE #c +t", "MODE #c -t",
		"MODE #c +n", "MODE #c -n", "MODE #c +s", "MODE #c -s", "MODE #c +t-t", "MODE #c +nst", "MODE #c +G", "MODE #c +z", "MODE #c +ob b a!*@*", "MODE #c +", "MODE #c -", "MODE #c :", "MODE #c o", "MODE #c +r", "MODE #c +d x", "MODE #d +i", "MODE #d +o a", "MODE #d -o b", "MODE #d +k k2",
		"MODE a +i", "MODE a -i", "MODE a +G", "MODE a -G", "MODE b +i", "MODE b", "MODE a", "MODE a +o", "MODE a +", "MODE a :", "MODE", "MODE #none +i", "MODE nobody +i", "MODE ChanServ +i", "MODE A +i", "MODE a +iG", "MODE a +r",
		"MODE #C +i", "MODE #C +o b", "MODE #C -o a", "MODE #C +k key", "MODE #C +b b!*@*", "MODE #C", "MODE #D +o a")
	add("invite", "INVITE b #c", "INVITE a #c", "INVITE c #c", "INVITE nobody #c", "INVITE b #none", "INVITE b #d", "INVITE a #d", "INVITE c #d", "INVITE b", "INVITE", "INVITE ChanServ #c", "INVITE b #C", "INVITE B #c")
	add("kill", "KILL b :bye", "KILL a :self", "KILL c :x", "KILL nobody :x", "KILL ChanServ :x", "KILL b", "KILL", "KILL b :", "KILL svc :x", "KILL services.robustirc.net :x")
	add("gline", "GLINE b :spam", "GLINE a :self", "GLINE c :x", "GLINE nobody :x", "GLINE ChanServ :x", "GLINE b", "GLINE b :", "GLINE c :", "GLINE")
	for _, c := range []string{"PRIVMSG", "NOTICE"} {
		add("msg", c+" #c :hi", c+" #C :hi", c+" #d :hi", c+" #none :x", c+" b :hi", c+" B :hi", c+" a :self", c+" c :x", c+" nobody :x", c+" $* :wall", c+" $", c+" ChanServ :help", c+" NickServ :identify x", c+" #c", c, c+" :", c+" #c :", c+" b :", c+" #c hi there", c+" # :x", c+" , :x")
	}
	add("alias", "NS identify x", "CS", "NICKSERV :a b", "OS :", "MS a :b", "BS x", "HS", "CHANSERV op #c a", "nickserv x")
	add("query", "WHO", "WHO #c", "WHO #d", "WHO #none", "WHO a", "WHO :", "WHOIS a", "WHOIS b", "WHOIS c", "WHOIS nobody", "WHOIS ChanServ", "WHOIS", "WHOIS :", "WHOIS a b", "NAMES", "NAMES #c", "NAMES #d", "NAMES #none", "NAMES :", "NAMES #c,#d",
		"LIST", "LIST #c", "LIST #c,#d", "LIST :", "LIST #none", "LIST ,", "ISON a b c nobody", "ISON", "ISON :", "USERHOST a b ChanServ nobody", "USERHOST", "USERHOST :", "MOTD", "MOTD x", "PING", "PING x", "PING :", "ping :lower", "PONG x", "KNOCK #c", "KNOCK #c :let me in", "KNOCK #d", "KNOCK #none", "KNOCK", "KNOCK #c a b c", "KNOCK #C", "WHO #C", "NAMES #C", "LIST #C", "INVITE c #C", "PART #C :x", "TOPIC #C", "JOIN #C key", "NOTICE #C :x",
		"AWAY", "AWAY :gone", "AWAY :", "AWAY :  ", "AWAY gone fishing")
	add("quit", "QUIT", "QUIT :bye", "QUIT :", "QUIT a b")
	add("server", "SERVER services.robustirc.net 1 :Services", "SERVER s", "SERVER", "SERVER a b", "SERVER : :")
	add("garbage", ":", ": ", " ", "", ":p", ":prefix", ":prefix ", "join #c", ":a!ua@robust/0x1 PRIVMSG #c :spoof", ":b PRIVMSG #c :spoof", ":b NICK z", "\x01", "123", "001 a :x", "PANIC", "FOO", "FOO a b c", "é", "PRIVMSG\t#c :x", "SJOIN 1 #c :a", "SVSNICK a z 1", "SVSJOIN a #c", ":ChanServ KILL a :x", "ERROR :x", "CAP LS", "NICK\x00a",
		"\nPRIVMSG #c :hi\n:b!ub@robust/0x5 PRIVMSG #c :forged", "\r\nQUIT :x", "\n", "\r", "\x00", "\nNICK z", "PRIVMSG #c :a\nb\rc\x00d")
	// CR / LF / NUL behind more than 512 bytes that the server ignores or echoes in a short form
	add("text", ":"+strings.Repeat("x", 600)+" PRIVMSG #c :hi\r\n:b!ub@robust/0x5 PRIVMSG #c :forged",
		":"+strings.Repeat("x", 600)+" PRIVMSG b :hi\nQUIT :forged", ":"+strings.Repeat("x", 700)+" TOPIC #c :t\x00u",
		"JOIN "+strings.Repeat("#zz,", 140)+"#bad\rname", "PRIVMSG "+strings.Repeat("b,", 300)+"b :x\r\nPRIVMSG #c :forged")
	for _, t := range vTexts {
		add("text", "PRIVMSG #c :"+t, "PRIVMSG b :"+t, "TOPIC #c :"+t, "KICK #c b :"+t, "PART #c :"+t, "QUIT :"+t, "AWAY :"+t, "KNOCK #c :"+t, "USER u 0 * :"+t, "MODE #c +k "+t, "MODE #c +b "+t, "NS "+t, "FOO"+t+" x", "JOIN #c "+t, "JOIN #n"+t, "NICK n"+t, "PING :"+t, "INVITE b #c"+t, "WHOIS "+t, "OPER "+t+" "+t, "PASS :"+t)
	}
	// time deviations for the few handlers that look at the clock
	for _, dt := range []time.Duration{61 * time.Second, 6 * time.Minute, 11 * time.Minute, 31 * time.Minute} {
		ls = append(ls, VLine{Data: "NICK held", Dt: dt, Tag: "time"}, VLine{Data: "JOIN #c", Dt: dt, Tag: "time"}, VLine{Data: "JOIN #c " + tok(okJoin), Dt: dt, Tag: "time"},
			VLine{Data: "PING x", Dt: dt, Tag: "time"}, VLine{Data: "WHOIS a", Dt: dt, Tag: "time"}, VLine{Data: "NICK z", Dt: dt, Tag: "time"})
	}
	ls = append(ls, VLine{Data: "PING x", Dt: -1, Tag: "time"}) // same timestamp as the previous entry
	// timestamps BEFORE the previous entry (a new leader whose clock lags behind the old one's, within the 2 s
	// the time safeguard tolerates)
	ls = append(ls, VLine{Data: "PRIVMSG #c :from the past", Dt: -1500 * time.Millisecond, Tag: "time"}, VLine{Data: "NICK past", Dt: -1500 * time.Millisecond, Tag: "time"})
	// address deviations
	ls = append(ls, VLine{Data: "PING x", Addr: "10.9.9.9", Tag: "addr"}, VLine{Data: "JOIN #c", Addr: "10.0.0.77", Tag: "addr"}, VLine{Data: "JOIN #c", Addr: "10.0.0.8", Tag: "addr"}, VLine{Data: "PING x", Addr: "-", Tag: "addr"}, VLine{Data: "NICK q", Addr: "10.9.9.9", Tag: "addr"})
	if full {
		// generic shapes for every command of the live table
		atoms := []string{"a", "b", "#c", "#d", "x", ":", ":hi there"}
		atoms3 := []string{"a", "#c", "x", ":"}
		var cmds []string
		for name := range Commands {
			if !strings.HasPrefix(name, "server_") {
				cmds = append(cmds, name)
			}
		}
		sort.Strings(cmds)
		for _, c := range cmds {
			add("generic", c)
			for _, p1 := range atoms {
				add("generic", c+" "+p1)
				if strings.HasPrefix(p1, ":") {
					continue
				}
				for _, p2 := range atoms {
					add("generic", c+" "+p1+" "+p2)
				}
			}
			for _, p1 := range atoms3[:3] {
				for _, p2 := range atoms3[:3] {
					for _, p3 := range atoms3 {
						add("generic", c+" "+p1+" "+p2+" "+p3)
					}
				}
			}
			add("generic", c+" a b c d e f g h i j k l m n o p", strings.ToLower(c)+" a #c")
		}
	}
	return vDedupLines(ls)
}

func vDedupLines(ls []VLine) []VLine {
	seen := map[string]bool{}
	var out []VLine
	for _, l := range ls {
		k := fmt.Sprintf("%s|%d|%s", l.Data, l.Dt, l.Addr)
		if seen[k] {
			continue
		}
		seen[k] = true
		out = append(out, l)
	}
	return out
}

// vServiceLines are the lines an authenticated services link sends (anope's
// robustirc protocol module): prefixed with the link name or one of its own
// pseudo-clients, parameter counts as anope emits them.
func vServiceLines(pseudo []string) []VLine {
	var ls []VLine
	add := func(data ...string) {
		for _, d := range data {
			ls = append(ls, VLine{Data: d, Tag: "svc"})
		}
	}
	srv := "services.robustirc.net"
	add("NICK ChanServ 1 1422134861 services robustirc.net "+srv+" 0 :Channel Services",
		"NICK NickServ 1 1422134861 services robustirc.net "+srv+" 0 :Nick Services",
		"NICK OperServ 1 1422134861 services robustirc.net "+srv+" 0 :Oper Services",
		":"+srv+" NICK enforcer 1 1425542735 enforcer "+srv+" "+srv+" 0 :Services Enforcer",
		"NICK a 1 1 services robustirc.net "+srv+" 0 :collides with user",
		"NICK ChanServ",
		// pseudo-clients whose nickname / user name would not pass for an ordinary client: they become the prefix
		// of every line relayed from the pseudo-client
		"NICK "+strings.Repeat("N", 500)+" 1 1422134861 services robustirc.net "+srv+" 0 :overlong nickname",
		"NICK LongUser 1 1422134861 "+strings.Repeat("u", 500)+" robustirc.net "+srv+" 0 :overlong user name",
		"NICK Bang!x@y 1 1422134861 services robustirc.net "+srv+" 0 :nickname with prefix separators",
		"PING :"+srv, "PING x",
		"SVSNICK a guest1 :1", "SVSNICK b guest2 :1", "SVSNICK a {guest} :1", "SVSNICK nobody guest3 :1", "SVSNICK a 1bad :1", "SVSNICK c guest4 :1",
		":"+srv+" SVSJOIN a #c", ":"+srv+" SVSJOIN a #d", ":"+srv+" SVSJOIN b #c", ":"+srv+" SVSJOIN a #new", ":"+srv+" SVSJOIN nobody #c", ":"+srv+" SVSJOIN a c", ":"+srv+" SVSJOIN c #c",
		":"+srv+" SVSPART a #c", ":"+srv+" SVSPART b #c", ":"+srv+" SVSPART b #d", ":"+srv+" SVSPART a #none", ":"+srv+" SVSPART nobody #c", ":"+srv+" SVSPART c #c",
		"SVSMODE a +r", "SVSMODE a -r", "SVSMODE a +d 5", "SVSMODE a +d", "SVSMODE nobody +r", "SVSMODE a r", "SVSMODE a +x", "SVSMODE b +rd 7",
		"SVSHOLD held 60 :held by services", "SVSHOLD held", "SVSHOLD a 5 :x", "SVSHOLD held abc :bad duration", "SVSHOLD other 0 :zero", "SVSHOLD held 9223372036 :the longest duration that parses", "SVSHOLD other 0.000000001 :one nanosecond", "SVSHOLD [x 60 :case",
		"QUIT :link closing", "QUIT")
	for _, p := range append([]string{srv}, pseudo...) {
		pre := ":" + p + " "
		add(pre+"JOIN #c", pre+"JOIN #d", pre+"JOIN #new", pre+"JOIN #c,#d", pre+"JOIN #new,#new2", pre+"JOIN c",
			pre+"PART #c", pre+"PART #d", pre+"PART #none", pre+"PART #c,#d",
			pre+"KICK #c a :bye", pre+"KICK #c b :bye", pre+"KICK #c nobody :x", pre+"KICK #none a :x", pre+"KICK #d b :", pre+"KICK #c "+p+" :self",
			pre+"KILL a :bye", pre+"KILL b :bye", pre+"KILL nobody :x", pre+"KILL c :x", pre+"KILL a", pre+"KILL "+p+" :self",
			pre+"MODE #c +o a", pre+"MODE #c -o a", pre+"MODE #c +o b", pre+"MODE #c +i", pre+"MODE #c -i", pre+"MODE #c +r", pre+"MODE #c +t", pre+"MODE #c -s", pre+"MODE #c +o nobody", pre+"MODE #none +i", pre+"MODE #c +k key", pre+"MODE #c +ntr", pre+"MODE #c", pre+"MODE #d +o b",
			pre+"TOPIC #c "+p+" 1422134861 :services topic", pre+"TOPIC #c "+p+" 0 :", pre+"TOPIC #c "+p+" 0 :topic with timestamp zero", pre+"TOPIC #c "+p+" abc :bad ts", pre+"TOPIC #none "+p+" 1 :x", pre+"TOPIC #d "+p+" 1422134861 :t",
			pre+"PRIVMSG #c :hi from services", pre+"PRIVMSG a :hi", pre+"PRIVMSG b :hi", pre+"PRIVMSG nobody :x", pre+"PRIVMSG #none :x", pre+"NOTICE a :note", pre+"NOTICE #c :note", pre+"PRIVMSG a :", pre+"PRIVMSG", pre+"NOTICE #d :x",
			pre+"INVITE a #c", pre+"INVITE b #c", pre+"INVITE c #c", pre+"INVITE nobody #c", pre+"INVITE a #none", pre+"INVITE c #d",
			pre+"QUIT :bye", pre+"QUIT")
	}
	// prefixes that are not the link's: a nickname nobody owns, and the nickname of an ordinary client
	for _, p := range []string{"Ghost", "a"} {
		pre := ":" + p + " "
		add(pre+"JOIN #new", pre+"JOIN #c", pre+"JOIN #new,#c", pre+"PART #c", pre+"KICK #c b :x", pre+"MODE #c +o b", pre+"TOPIC #c "+p+" 1422134861 :t",
			pre+"PRIVMSG #c :x", pre+"INVITE b #c", pre+"KILL b :x", pre+"QUIT :x")
	}
	for _, t := range vTexts {
		add(":ChanServ PRIVMSG #c :"+t, ":ChanServ NOTICE a :"+t, ":ChanServ KICK #c b :"+t, ":ChanServ TOPIC #c ChanServ 1 :"+t, "SVSHOLD held 60 :"+t, ":ChanServ QUIT :"+t, ":ChanServ KILL b :"+t)
	}
	return vDedupLines(ls)
}

// vReduce keeps one representative per (tag, command, parameter-count) class.
func vReduce(ls []VLine) []VLine {
	seen := map[string]bool{}
	var out []VLine
	for _, l := range ls {
		if l.Tag == "generic" || l.Tag == "text" {
			continue
		}
		f := strings.Fields(l.Data)
		key := l.Tag
		if len(f) > 0 {
			key += "|" + strings.ToUpper(f[0])
			if strings.HasPrefix(f[0], ":") && len(f) > 1 {
				key += "|" + strings.ToUpper(f[1])
			}
		}
		key += fmt.Sprintf("|%d", len(f))
		if l.Tag == "mode" || l.Tag == "join" || l.Tag == "kick" || l.Tag == "invite" || l.Tag == "nick" || l.Tag == "topic" || l.Tag == "part" || l.Tag == "svc" || l.Tag == "kill" || l.Tag == "oper" || l.Tag == "pass" || l.Tag == "user" {
			key = l.Data // privilege/membership-relevant classes are kept in full
			if len(key) > 60 {
				key = key[:60]
			}
		}
		if seen[key] {
			continue
		}
		seen[key] = true
		out = append(out, l)
	}
	return out
}

// vNonLineEntries are the entry kinds other than client lines, for one state.
func vNonLineEntries(sessions []robust.Id, rev uint64) []VEntry {
	es := []VEntry{
		{Type: robust.CreateSession, Data: "auth-new-session-secret"},
		{Type: robust.Config, Data: vCfgBase, Revision: rev + 1},
		{Type: robust.Config, Data: vCfgLimits, Revision: rev + 1},
		{Type: robust.Config, Data: vCfgOther, Revision: rev + 1},
		{Type: robust.Config, Data: vCfgCaptchaLogin, Revision: rev + 1},
		{Type: robust.Config, Data: vCfgInvalid, Revision: rev + 1},
		{Type: robust.Config, Data: "", Revision: rev + 1},
		{Type: robust.DeleteSession, Session: robust.Id{Id: 9999}, Data: "no such session"},
		{Type: robust.IRCFromClient, Session: robust.Id{Id: 9999}, Data: "PING x", ClientMessageId: 5},
		{Type: robust.MessageOfDeath, Session: robust.Id{Id: 9999}, Data: "PANIC", ClientMessageId: 6},
		{Type: robust.Ping}, {Type: robust.IRCToClient, Data: "x"}, {Type: robust.State, Data: ""}, {Type: robust.Any},
	}
	for _, s := range sessions {
		if s.Reply != 0 {
			continue
		}
		es = append(es,
			VEntry{Type: robust.DeleteSession, Session: s, Data: "bye"},
			VEntry{Type: robust.DeleteSession, Session: s, Data: "Ping timeout (30m0s)"},
			VEntry{Type: robust.DeleteSession, Session: s, Data: "Ping timeout: 180 seconds"},
			VEntry{Type: robust.DeleteSession, Session: s, Data: "x\ry"},
			VEntry{Type: robust.DeleteSession, Session: s, Data: "x\nQUIT :y"},
			VEntry{Type: robust.MessageOfDeath, Session: s, Data: "PANIC", ClientMessageId: 424242},
		)
	}
	return es
}

// vFocusedLines is the mutator sub-alphabet of the deep BFS tier: the lines that move membership,
// privileges, nicknames and channel state, without parameter noise.
func vFocusedLines() []VLine {
	var ls []VLine
	for _, d := range []string{
		"JOIN #c", "JOIN #d", "JOIN #c key", "JOIN #c,#d", "PART #c", "PART #d",
		"KICK #c a", "KICK #c b", "KICK #c c", "KICK #d b", "KICK #c A2", "KICK #C b", "PART #C", "JOIN #C",
		"MODE #c +o a", "MODE #c -o a", "MODE #c +o b", "MODE #c -o b", "MODE #c +o c", "MODE #c +i", "MODE #c -i", "MODE #c +k key", "MODE #c -k",
		"MODE #c +b b!*@*", "MODE #c -b b!*@*", "MODE #c +s", "MODE #c -n", "MODE #c -t", "MODE #d +o a", "MODE #d +i",
		"NICK A2", "NICK a2", "NICK a", "NICK b", "NICK c", "NICK B",
		"INVITE a #c", "INVITE b #c", "INVITE c #c", "INVITE a #d", "INVITE c #d",
		"TOPIC #c :t", "TOPIC #c :", "PRIVMSG #c :x", "PRIVMSG #d :x", "PRIVMSG b :x", "PRIVMSG a :x",
		"QUIT :bye", "OPER root operpw", "KILL b :x", "KILL c :x", "AWAY :gone", "AWAY", "MODE a +i", "MODE b +G", "USER u2 0 * :r2",
	} {
		ls = append(ls, VLine{Data: d, Tag: "focused"})
	}
	return ls
}

func vFocusedServiceLines(pseudo []string) []VLine {
	var ls []VLine
	srv := "services.robustirc.net"
	ds := []string{
		"SVSNICK a guest1 :1", "SVSNICK b guest2 :1", ":" + srv + " SVSJOIN a #c", ":" + srv + " SVSJOIN b #d", ":" + srv + " SVSJOIN c #c",
		":" + srv + " SVSPART a #c", ":" + srv + " SVSPART b #c", ":" + srv + " SVSPART b #d", "SVSMODE a +r", "SVSHOLD a2 60 :held",
		"NICK OperServ 1 1422134861 services robustirc.net " + srv + " 0 :Oper Services", "QUIT :link closing",
	}
	for _, p := range pseudo {
		pre := ":" + p + " "
		ds = append(ds, pre+"JOIN #c", pre+"JOIN #d", pre+"PART #c", pre+"PART #d", pre+"KICK #c a :x", pre+"KICK #c b :x", pre+"KILL a :x", pre+"KILL b :x",
			pre+"MODE #c +o a", pre+"MODE #c -o a", pre+"MODE #c +i", pre+"INVITE c #c", pre+"PRIVMSG #c :x", pre+"QUIT :bye", pre+"TOPIC #c "+p+" 1 :st")
	}
	for _, d := range ds {
		ls = append(ls, VLine{Data: d, Tag: "focused"})
	}
	return ls
}
