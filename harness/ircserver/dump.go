//go:build verif

package ircserver

// Canonical dump of an IRCServer (DESIGN.md section 1.2).  Every field of every
// type reachable from IRCServer is printed, unexported ones included; maps are
// printed with sorted keys, pointers by identity of the object they resolve to.
// A reflection inventory guard makes a field that is added to the repository
// later stop the run (HARNESS-OUT-OF-DATE) instead of being silently ignored.

import (
	"fmt"
	"reflect"
	"regexp"
	"sort"
	"strconv"
	"strings"
	"time"
	"unsafe"

	"github.com/robustirc/robustirc/internal/config"
	"github.com/robustirc/robustirc/internal/robust"
)

var verifInventory = map[string][]string{
	"IRCServer":  {"sessions", "sessionsMu", "serverSessions", "nicks", "channels", "svsholds", "ServerPrefix", "lastProcessed", "lastProcessedMu", "ServerCreation", "Config", "ConfigMu"},
	"Session":    {"Id", "auth", "loggedIn", "Nick", "Username", "Realname", "Channels", "LastActivity", "LastNonPing", "LastSolvedCaptcha", "Operator", "AwayMsg", "Created", "throttlingExponent", "invitedTo", "modes", "svid", "Pass", "Server", "lastClientMessageId", "ircPrefix", "deleted", "RemoteAddr"},
	"channel":    {"name", "topicNick", "topicTime", "topic", "nicks", "modes", "key", "bans"},
	"banPattern": {"re", "pattern"},
	"Network":    {"Revision", "IRC", "SessionExpiration", "PostMessageCooloff", "TrustedBridges", "CaptchaURL", "CaptchaHMACSecret", "CaptchaRequiredForLogin", "MaxSessions", "MaxChannels", "Banned", "WhitelistedOrigins"},
	"IRC":        {"Operators", "Services"},
	"IRCOp":      {"Name", "Password"},
	"Service":    {"Password"},
	"Id":         {"Id", "Reply"},
}

// vExtraFields lists, per dumped type, the fields the repository has gained since the explicit printer
// was written.  They are dumped generically (vExtra) when they are of a simple kind.
var vExtraFields = map[string][]string{}

func vSimpleKind(t reflect.Type) bool {
	switch t.Kind() {
	case reflect.Bool, reflect.Int, reflect.Int8, reflect.Int16, reflect.Int32, reflect.Int64, reflect.Uint, reflect.Uint8, reflect.Uint16, reflect.Uint32, reflect.Uint64,
		reflect.Float32, reflect.Float64, reflect.String:
		return true
	case reflect.Slice, reflect.Array:
		return vSimpleKind(t.Elem())
	case reflect.Map:
		return vSimpleKind(t.Key()) && vSimpleKind(t.Elem())
	case reflect.Struct:
		return t == reflect.TypeOf(time.Time{})
	}
	return false
}

// VerifCheckInventory compares the fields of every dumped type with the list the explicit printer
// knows.  A field that was removed or reordered, or a new field of a kind that cannot be rendered
// generically, is an error (HARNESS-OUT-OF-DATE: never silently ignored, never a violation); new
// fields of simple kinds (numbers, strings, times, slices/maps of those) and new lock fields are
// accepted and rendered generically.
func VerifCheckInventory() error {
	types := []reflect.Type{
		reflect.TypeOf(IRCServer{}), reflect.TypeOf(Session{}), reflect.TypeOf(channel{}),
		reflect.TypeOf(banPattern{}), reflect.TypeOf(config.Network{}),
		reflect.TypeOf(config.IRC{}), reflect.TypeOf(config.IRCOp{}), reflect.TypeOf(config.Service{}),
		reflect.TypeOf(robust.Id{}),
	}
	for _, t := range types {
		want := verifInventory[t.Name()]
		known := map[string]bool{}
		for _, w := range want {
			known[w] = true
		}
		var got, extra []string
		for i := 0; i < t.NumField(); i++ {
			f := t.Field(i)
			if known[f.Name] {
				got = append(got, f.Name)
				continue
			}
			ft := f.Type
			if ft.Kind() == reflect.Ptr {
				ft = ft.Elem()
			}
			if strings.Contains(ft.String(), "Mutex") {
				continue // a new lock carries no state
			}
			if !vSimpleKind(f.Type) {
				// rendered by value (vDeep), marked "+~": derived state such as a cache, which the
				// snapshot comparison of C03 masks (its continuations still run on it)
				vOpaque[t.Name()+"."+f.Name] = true
			}
			extra = append(extra, f.Name)
		}
		if strings.Join(got, ",") != strings.Join(want, ",") {
			return fmt.Errorf("HARNESS-OUT-OF-DATE: type %s has fields %v, the canonical dump knows %v", t.Name(), got, want)
		}
		vExtraFields[t.Name()] = extra
	}
	return nil
}

var vOpaque = map[string]bool{}

// VerifOpaqueRe matches the rendering of a new field of a complex kind.
var VerifOpaqueRe = regexp.MustCompile(` \+~\w+=\S*`)

// vDeep renders any value by content, without addresses and without blanks: pointers and interfaces are
// followed (a pointer seen before on the path is "cycle"), maps are sorted by the rendering of the key,
// functions and channels are rendered by nil-ness only.
func vDeep(b *strings.Builder, v reflect.Value, onPath map[uintptr]bool, depth int) {
	if depth > 12 {
		b.WriteString("deep")
		return
	}
	switch v.Kind() {
	case reflect.Invalid:
		b.WriteString("nil")
	case reflect.Bool:
		fmt.Fprintf(b, "%v", v.Bool())
	case reflect.Int, reflect.Int8, reflect.Int16, reflect.Int32, reflect.Int64:
		fmt.Fprintf(b, "%d", v.Int())
	case reflect.Uint, reflect.Uint8, reflect.Uint16, reflect.Uint32, reflect.Uint64, reflect.Uintptr:
		fmt.Fprintf(b, "%d", v.Uint())
	case reflect.Float32, reflect.Float64:
		fmt.Fprintf(b, "%v", v.Float())
	case reflect.Complex64, reflect.Complex128:
		fmt.Fprintf(b, "%v", v.Complex())
	case reflect.String:
		fmt.Fprintf(b, "s%x", v.String())
	case reflect.Ptr, reflect.Interface:
		if v.IsNil() {
			b.WriteString("nil")
			return
		}
		if v.Kind() == reflect.Interface {
			b.WriteString(strings.ReplaceAll(v.Elem().Type().String(), " ", "") + ":")
			vDeep(b, v.Elem(), onPath, depth+1)
			return
		}
		if onPath[v.Pointer()] {
			b.WriteString("cycle")
			return
		}
		onPath[v.Pointer()] = true
		b.WriteString("&")
		vDeep(b, v.Elem(), onPath, depth+1)
		delete(onPath, v.Pointer())
	case reflect.Struct:
		if v.Type() == reflect.TypeOf(time.Time{}) && v.CanAddr() {
			t := reflect.NewAt(v.Type(), unsafe.Pointer(v.UnsafeAddr())).Elem().Interface().(time.Time)
			fmt.Fprintf(b, "t%d/%v", t.UnixNano(), t.IsZero())
			return
		}
		b.WriteString("{")
		for i := 0; i < v.NumField(); i++ {
			if strings.Contains(v.Type().Field(i).Type.String(), "Mutex") {
				continue
			}
			b.WriteString(v.Type().Field(i).Name + ":")
			vDeep(b, v.Field(i), onPath, depth+1)
			b.WriteString(";")
		}
		b.WriteString("}")
	case reflect.Slice, reflect.Array:
		if v.Kind() == reflect.Slice && v.IsNil() {
			b.WriteString("nil")
			return
		}
		b.WriteString("[")
		for i := 0; i < v.Len(); i++ {
			vDeep(b, v.Index(i), onPath, depth+1)
			b.WriteString(",")
		}
		b.WriteString("]")
	case reflect.Map:
		if v.IsNil() {
			b.WriteString("nil")
			return
		}
		var items []string
		it := v.MapRange()
		for it.Next() {
			var kb strings.Builder
			vDeep(&kb, it.Key(), onPath, depth+1)
			kb.WriteString("=>")
			vDeep(&kb, it.Value(), onPath, depth+1)
			items = append(items, kb.String())
		}
		sort.Strings(items)
		b.WriteString("map[" + strings.Join(items, ",") + "]")
	default: // Func, Chan, UnsafePointer
		if v.IsNil() {
			b.WriteString("nil")
		} else {
			b.WriteString(v.Kind().String())
		}
	}
}

// vExtra renders the fields listed in vExtraFields of the struct that p points to.
func vExtra(p interface{}) string {
	v := reflect.ValueOf(p).Elem()
	names := vExtraFields[v.Type().Name()]
	if len(names) == 0 {
		return ""
	}
	var b strings.Builder
	for _, n := range names {
		f := v.FieldByName(n)
		f = reflect.NewAt(f.Type(), unsafe.Pointer(f.UnsafeAddr())).Elem()
		if vOpaque[v.Type().Name()+"."+n] {
			var d strings.Builder
			vDeep(&d, f, map[uintptr]bool{}, 0)
			fmt.Fprintf(&b, " +~%s=%s", n, d.String())
			continue
		}
		val := f.Interface()
		if t, ok := val.(time.Time); ok {
			fmt.Fprintf(&b, " +%s=%d/%v", n, t.UnixNano(), t.IsZero())
			continue
		}
		fmt.Fprintf(&b, " +%s=%v", n, val) // fmt prints maps with sorted keys
	}
	return b.String()
}

// VerifDumpOpts selects the flavour of the dump.
type VerifDumpOpts struct {
	// RelTime renders every time relative to RelNow (for state-key deduplication
	// across histories of different length) and omits lastProcessed and the three
	// per-message stamps' absolute values.
	RelTime bool
	RelNow  int64
	// NoStamps omits LastActivity/LastNonPing/lastClientMessageId/lastProcessed
	// (used to decide whether a line changed anything but the per-message stamps).
	NoStamps bool
	// NoTimes abstracts every time to zero / non-zero (deep BFS with 1 s steps: no time threshold is
	// crossed within the depth bound, so states that differ only in when something happened have
	// the same futures).
	NoTimes bool
}

type vdumper struct {
	b strings.Builder
	o VerifDumpOpts
}

func (d *vdumper) t(name string, t time.Time) {
	if t.IsZero() {
		fmt.Fprintf(&d.b, " %s=Z", name)
		return
	}
	if d.o.NoTimes {
		fmt.Fprintf(&d.b, " %s=N", name)
		return
	}
	if d.o.RelTime {
		fmt.Fprintf(&d.b, " %s=@%d", name, d.o.RelNow-t.UnixNano())
		return
	}
	fmt.Fprintf(&d.b, " %s=%d", name, t.UnixNano())
}

func vmodes(m *['z']bool) string {
	var s []byte
	for c := 0; c < len(m); c++ {
		if m[c] {
			s = append(s, byte(c))
		}
	}
	return strconv.Quote(string(s))
}

func vsortedChans(m map[lcChan]bool) string {
	var ks []string
	for k, v := range m {
		ks = append(ks, strconv.Quote(string(k))+":"+strconv.FormatBool(v))
	}
	sort.Strings(ks)
	return "[" + strings.Join(ks, ",") + "]"
}

func vsortedStrMap(m map[string]string) string {
	var ks []string
	for k, v := range m {
		ks = append(ks, strconv.Quote(k)+":"+strconv.Quote(v))
	}
	sort.Strings(ks)
	return "[" + strings.Join(ks, ",") + "]"
}

func vsortedBoolMap(m map[string]bool) string {
	var ks []string
	for k, v := range m {
		ks = append(ks, strconv.Quote(k)+":"+strconv.FormatBool(v))
	}
	sort.Strings(ks)
	return "[" + strings.Join(ks, ",") + "]"
}

func vid(id robust.Id) string { return fmt.Sprintf("%d.%d", id.Id, id.Reply) }

func (d *vdumper) session(s *Session) {
	fmt.Fprintf(&d.b, "  S %s auth=%q loggedIn=%v nick=%q user=%q real=%q chans=%s", vid(s.Id), s.auth, s.loggedIn, s.Nick, s.Username, s.Realname, vsortedChans(s.Channels))
	if !d.o.NoStamps {
		d.t("act", s.LastActivity)
		d.t("nonping", s.LastNonPing)
		fmt.Fprintf(&d.b, " cmid=%d", s.lastClientMessageId)
	}
	d.t("captcha", s.LastSolvedCaptcha)
	if d.o.NoTimes {
		// omitted
	} else if d.o.RelTime {
		fmt.Fprintf(&d.b, " created=@%d", d.o.RelNow-s.Created)
	} else {
		fmt.Fprintf(&d.b, " created=%d", s.Created)
	}
	fmt.Fprintf(&d.b, " oper=%v away=%q thr=%d invited=%s modes=%s svid=%q pass=%q server=%v prefix=%q|%q|%q deleted=%v",
		s.Operator, s.AwayMsg, s.throttlingExponent, vsortedChans(s.invitedTo), vmodes(&s.modes), s.svid, s.Pass, s.Server,
		s.ircPrefix.Name, s.ircPrefix.User, s.ircPrefix.Host, s.deleted)
	if !d.o.NoStamps {
		// the address of the most recent message is a per-message stamp like LastActivity
		fmt.Fprintf(&d.b, " addr=%q", s.RemoteAddr)
	}
	d.b.WriteString(vExtra(s))
	d.b.WriteString("\n")
}

func (d *vdumper) channel(k lcChan, c *channel) {
	fmt.Fprintf(&d.b, "  C %q name=%q topicNick=%q topic=%q", string(k), c.name, c.topicNick, c.topic)
	d.t("topicTime", c.topicTime)
	fmt.Fprintf(&d.b, " modes=%s key=%q nicks=[", vmodes(&c.modes), c.key)
	var ns []string
	for n, p := range c.nicks {
		if p == nil {
			ns = append(ns, strconv.Quote(string(n))+":nil")
			continue
		}
		ns = append(ns, fmt.Sprintf("%q:%v/%v", string(n), p[chanop], p[voice]))
	}
	sort.Strings(ns)
	d.b.WriteString(strings.Join(ns, ","))
	d.b.WriteString("] bans=[")
	for i, b := range c.bans {
		if i > 0 {
			d.b.WriteString(",")
		}
		re := "<nil>"
		if b.re != nil {
			re = b.re.String()
		}
		fmt.Fprintf(&d.b, "%q~%q", b.pattern, re)
	}
	d.b.WriteString("]")
	d.b.WriteString(vExtra(c))
	d.b.WriteString("\n")
}

func (d *vdumper) config(c *config.Network) {
	fmt.Fprintf(&d.b, " CFG rev=%d ops=[", c.Revision)
	for _, o := range c.IRC.Operators {
		fmt.Fprintf(&d.b, "%q:%q,", o.Name, o.Password)
	}
	d.b.WriteString("] services=[")
	for _, s := range c.IRC.Services {
		fmt.Fprintf(&d.b, "%q,", s.Password)
	}
	var wl map[string]bool = c.WhitelistedOrigins
	fmt.Fprintf(&d.b, "] exp=%d cooloff=%d bridges=%s captchaurl=%q hmac=%x captchalogin=%v maxsess=%d maxchan=%d banned=%s origins=%s\n",
		int64(c.SessionExpiration), int64(c.PostMessageCooloff), vsortedStrMap(c.TrustedBridges), c.CaptchaURL, []byte(c.CaptchaHMACSecret),
		c.CaptchaRequiredForLogin, c.MaxSessions, c.MaxChannels, vsortedStrMap(c.Banned), vsortedBoolMap(wl))
}

// VerifDump renders the complete state.  The caller must not hold any of the server's locks.
func VerifDump(i *IRCServer, o VerifDumpOpts) string {
	d := &vdumper{o: o}
	prefix := "<nil>"
	if i.ServerPrefix != nil {
		prefix = i.ServerPrefix.String()
	}
	fmt.Fprintf(&d.b, "SERVER prefix=%q", prefix)
	if !o.RelTime && !o.NoTimes {
		fmt.Fprintf(&d.b, " creation=%d", i.ServerCreation.UnixNano())
	}
	if !o.RelTime && !o.NoStamps {
		fmt.Fprintf(&d.b, " lastProcessed=%s", vid(i.lastProcessed))
	}
	d.b.WriteString(vExtra(i))
	d.b.WriteString("\n")
	d.config(&i.Config)

	ids := make([]robust.Id, 0, len(i.sessions))
	for id := range i.sessions {
		ids = append(ids, id)
	}
	sort.Slice(ids, func(a, b int) bool {
		if ids[a].Id != ids[b].Id {
			return ids[a].Id < ids[b].Id
		}
		return ids[a].Reply < ids[b].Reply
	})
	d.b.WriteString(" SESSIONS\n")
	for _, id := range ids {
		s := i.sessions[id]
		if s == nil {
			fmt.Fprintf(&d.b, "  S %s <nil>\n", vid(id))
			continue
		}
		if s.Id != id {
			fmt.Fprintf(&d.b, "  KEYMISMATCH %s\n", vid(id))
		}
		d.session(s)
	}
	ss := append([]uint64(nil), i.serverSessions...)
	sort.Slice(ss, func(a, b int) bool { return ss[a] < ss[b] })
	fmt.Fprintf(&d.b, " SERVERSESSIONS %v\n", ss)

	var nks []string
	for k := range i.nicks {
		nks = append(nks, string(k))
	}
	sort.Strings(nks)
	d.b.WriteString(" NICKS\n")
	for _, k := range nks {
		s := i.nicks[lcNick(k)]
		if s == nil {
			fmt.Fprintf(&d.b, "  N %q -> nil\n", k)
			continue
		}
		same := i.sessions[s.Id] == s
		fmt.Fprintf(&d.b, "  N %q -> %s indexed=%v", k, vid(s.Id), same)
		if !same {
			// a session object that is only reachable through the nick index: print it in full
			d.b.WriteString(" DETACHED:")
			d.session(s)
		} else {
			d.b.WriteString("\n")
		}
	}
	var cks []string
	for k := range i.channels {
		cks = append(cks, string(k))
	}
	sort.Strings(cks)
	d.b.WriteString(" CHANNELS\n")
	for _, k := range cks {
		c := i.channels[lcChan(k)]
		if c == nil {
			fmt.Fprintf(&d.b, "  C %q nil\n", k)
			continue
		}
		d.channel(lcChan(k), c)
	}
	var hks []string
	for k := range i.svsholds {
		hks = append(hks, string(k))
	}
	sort.Strings(hks)
	d.b.WriteString(" SVSHOLDS\n")
	for _, k := range hks {
		// (by reflection: the representation of a hold is free to change)
		h := i.svsholds[lcNick(k)]
		fmt.Fprintf(&d.b, "  H %q", k)
		hv := reflect.ValueOf(&h).Elem()
		for fi := 0; fi < hv.NumField(); fi++ {
			f := hv.Field(fi)
			f = reflect.NewAt(f.Type(), unsafe.Pointer(f.UnsafeAddr())).Elem()
			name := hv.Type().Field(fi).Name
			switch x := f.Interface().(type) {
			case time.Time:
				d.t(name, x)
			case time.Duration:
				fmt.Fprintf(&d.b, " %s=%d", name, int64(x))
			case string:
				fmt.Fprintf(&d.b, " %s=%q", name, x)
			default:
				var sb strings.Builder
				vDeep(&sb, f, map[uintptr]bool{}, 0)
				fmt.Fprintf(&d.b, " %s=%s", name, sb.String())
			}
		}
		d.b.WriteString("\n")
	}
	return d.b.String()
}
