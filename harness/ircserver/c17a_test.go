//go:build verif

package ircserver

// C17 (a): session lookup on a lagging node.  For every history (scenario, optionally
// extended by an ending suffix) and every applied prefix, GetSession is queried for
// ids around every id of the history and compared with what the full history says.

import (
	"encoding/json"
	"fmt"
	"os"
	"strconv"
	"testing"

	"github.com/robustirc/robustirc/internal/robust"
)

type vC17aResult struct {
	Histories  int            `json:"histories"`
	Prefixes   int            `json:"prefixes"`
	Queries    int            `json:"queries"`
	Outcomes   map[string]int `json:"outcomes"`
	Violations []*VViolation  `json:"violations"`
	Samples    []string       `json:"samples"`
}

func vC17aHistories() []VScenario {
	var out []VScenario
	for _, sc := range VerifScenarios() {
		out = append(out, sc)
		// suffixes that end sessions in different ways, so that "deleted" ids exist
		in := VerifBuild(sc.Hist)
		ids := vLiveSessions(in.Srv)
		h := append([]VEntry(nil), sc.Hist...)
		next := in.NextId()
		now := in.Now()
		for k, id := range ids {
			if id.Reply != 0 {
				continue
			}
			now += 1e9
			var e VEntry
			switch k % 3 {
			case 0:
				e = VEntry{Type: robust.IRCFromClient, Id: next, Session: id, Data: "QUIT :bye", UnixNano: now, ClientMessageId: next, RemoteAddr: vaddr(id.Id)}
			case 1:
				e = VEntry{Type: robust.DeleteSession, Id: next, Session: id, Data: "gone", UnixNano: now}
			case 2:
				e = VEntry{Type: robust.IRCFromClient, Id: next, Session: id, Data: "PING x", UnixNano: now, ClientMessageId: next, RemoteAddr: vaddr(id.Id)}
			}
			h = append(h, e)
			next++
			// a fresh session between the endings
			now += 1e9
			h = append(h, VEntry{Type: robust.CreateSession, Id: next, Data: vauth(next), UnixNano: now})
			next++
		}
		out = append(out, VScenario{Name: sc.Name + "+endings", Hist: h})
	}
	return out
}

func TestVerifC17a(t *testing.T) {
	shard, _ := strconv.Atoi(os.Getenv("VERIF_SHARD"))
	nshards, _ := strconv.Atoi(os.Getenv("VERIF_NSHARDS"))
	if nshards == 0 {
		nshards = 1
	}
	res := &vC17aResult{Outcomes: map[string]int{}}
	sigs := map[string]*VViolation{}
	report := func(sc string, hist []VEntry, sig, desc string) {
		sig = "C17:" + sig
		if v, ok := sigs[sig]; ok {
			v.Count++
			return
		}
		v := &VViolation{Sig: sig, Desc: desc, Scenario: sc, Hist: hist, Count: 1, Prop: "C17a"}
		sigs[sig] = v
		res.Violations = append(res.Violations, v)
	}
	for k, sc := range vC17aHistories() {
		if k%nshards != shard {
			continue
		}
		res.Histories++
		// pass 1: liveness after every entry on the full-history node
		full := VerifNewInst()
		liveAt := make([]map[uint64]bool, len(sc.Hist)+1)
		snap := func() map[uint64]bool {
			m := map[uint64]bool{}
			for id := range full.Srv.sessions {
				if id.Reply == 0 {
					m[id.Id] = true
				}
			}
			return m
		}
		liveAt[0] = snap()
		for p, e := range sc.Hist {
			if st := full.Apply(e); st.Panic != nil {
				t.Fatalf("history %s panicked at %v: %v", sc.Name, e, st.Panic)
			}
			liveAt[p+1] = snap()
		}
		liveLater := func(p int, q uint64) bool {
			for k := p; k <= len(sc.Hist); k++ {
				if liveAt[k][q] {
					return true
				}
			}
			return false
		}
		// queried ids
		qset := map[uint64]bool{0: true, 1 << 63: true}
		for _, e := range sc.Hist {
			for _, d := range []uint64{e.Id - 1, e.Id, e.Id + 1} {
				qset[d] = true
			}
		}
		// pass 2: every prefix, on a node built by replay and on a node restored from a snapshot of the prefix
		for _, restored := range []bool{false, true} {
			lag := VerifNewInst()
			for p := 0; p <= len(sc.Hist); p++ {
				if p > 0 {
					lag.Apply(sc.Hist[p-1])
				}
				node := lag.Srv
				if restored {
					j, err := vRoundTrip(lag.Srv)
					if err != nil {
						continue // a state that cannot be saved is reported by C03
					}
					node = j
				}
				res.Prefixes++
				newest := uint64(0)
				if p > 0 {
					newest = sc.Hist[p-1].Id
				}
				for q := range qset {
					_, err := node.GetSession(robust.Id{Id: q})
					res.Queries++
					kind := "found"
					if err == ErrNoSuchSession {
						kind = "nosuch"
					} else if err == ErrSessionNotYetSeen {
						kind = "notyet"
					} else if err != nil {
						kind = "other:" + err.Error()
					}
					res.Outcomes[kind]++
					mode := "replayed"
					if restored {
						mode = "snapshot-restored"
					}
					where := fmt.Sprintf("history %s, prefix %d/%d (%s node), query id %d", sc.Name, p, len(sc.Hist), mode, q)
					switch kind {
					case "found":
						if !liveAt[p][q] {
							report(sc.Name, sc.Hist[:p], "lookup finds a session that is not live at that log position ("+mode+")", where)
						}
					case "nosuch":
						if liveLater(p, q) {
							report(sc.Name, sc.Hist[:p], "lagging node reports a live session as gone ("+mode+")", where+": the session is live at this or a later log position")
						}
						if q > newest {
							report(sc.Name, sc.Hist[:p], "'no such session' for an id newer than anything applied ("+mode+")", where+fmt.Sprintf(": newest applied id is %d", newest))
						}
					case "notyet":
						if liveAt[p][q] {
							report(sc.Name, sc.Hist[:p], "'not yet seen' for a session that is live on this node ("+mode+")", where)
						}
					default:
						report(sc.Name, sc.Hist[:p], "unexpected lookup error", where+": "+kind)
					}
					if q > newest && kind != "notyet" {
						report(sc.Name, sc.Hist[:p], "id newer than anything applied is not answered 'not yet seen' ("+mode+")", where+": got "+kind)
					}
				}
			}
		}
		if len(res.Samples) < 4 {
			res.Samples = append(res.Samples, fmt.Sprintf("history %s: %d entries, %d prefixes x %d ids x {replayed, snapshot-restored}", sc.Name, len(sc.Hist), len(sc.Hist)+1, len(qset)))
		}
	}
	b, _ := json.Marshal(res)
	if out := os.Getenv("VERIF_OUT"); out != "" {
		os.WriteFile(out, b, 0644)
	} else {
		fmt.Println(string(b))
	}
}
