//go:build verif

package main

// C11: posting, reading and deleting need the secret of exactly that session; every
// non-public endpoint needs the network password.
//
// An exhaustive request matrix is sent to the real dispatchers (api.HTTP.DispatchPublic /
// DispatchPrivate) of the in-process single-node network (node_test.go):
//
//   session part    session state x id spelling x route (and off-route method/path shapes)
//                   x credential in X-Session-Auth
//   private part    private route x method x HTTP basic auth variant
//   public->private private paths below /robustirc/v1/ through the public dispatcher
//
// Oracle of a request that must be refused: status is not 2xx, the raft log has no new
// entry, the canonical state dump, the output stream position, the cluster configuration
// and the deletestate file are unchanged, and the response (body and headers) contains
// none of the message texts of the world, no session secret and not the network
// password (except what the request carried itself).  A request with the correct secret
// of a live session must be accepted and effective.

import (
	"context"
	"encoding/base64"
	"encoding/json"
	"fmt"
	"net/http"
	"net/http/httptest"
	"os"
	"path/filepath"
	"runtime"
	"sort"
	"strconv"
	"strings"
	"testing"
	"time"

	"github.com/hashicorp/raft"
	"github.com/robustirc/rafthttp"
	"github.com/robustirc/robustirc/internal/api"
	"github.com/robustirc/robustirc/internal/ircserver"
	"github.com/robustirc/robustirc/internal/robust"
)

// ------------------------------------------------------------------ route table

// c11PrivateTable is the hand-written copy of the switch in DispatchPrivateWithoutAuth
// (internal/api/api.go).  lib/checks/c11.py parses the same switch from the source at
// check time and hands it over in VERIF_C11_ROUTES; a difference is a harness error
// ("HARNESS-OUT-OF-DATE route table"), so that a route added later cannot go untested.
var c11PrivateTable = map[string][]string{
	"GET": {"/", "/status", "/status/getmessage", "/status/sessions", "/status/irclog", "/status/state",
		"/irclog", "/snapshot", "/leader", "/config", "/metrics"},
	"POST":        {"/join", "/part", "/quit", "/config", "/kill"},
	"PREFIX:POST": {"/raft/"},
}

// paths that must never be called with the correct network password by this check
// (they shut the node down, change the cluster or need a real raft transport)
var c11Destructive = []string{"/quit", "/join", "/part", "/kill", "/raft/"}

func c11RouteDiff(parsed map[string][]string) string {
	var diffs []string
	keys := map[string]bool{}
	for k := range parsed {
		keys[k] = true
	}
	for k := range c11PrivateTable {
		keys[k] = true
	}
	var ks []string
	for k := range keys {
		ks = append(ks, k)
	}
	sort.Strings(ks)
	for _, k := range ks {
		a := map[string]bool{}
		b := map[string]bool{}
		for _, p := range c11PrivateTable[k] {
			a[p] = true
		}
		for _, p := range parsed[k] {
			b[p] = true
		}
		for p := range b {
			if !a[p] {
				diffs = append(diffs, fmt.Sprintf("%s %s is in api.go but not in the harness table", k, p))
			}
		}
		for p := range a {
			if !b[p] {
				diffs = append(diffs, fmt.Sprintf("%s %s is in the harness table but not in api.go", k, p))
			}
		}
	}
	sort.Strings(diffs)
	return strings.Join(diffs, "; ")
}

// ------------------------------------------------------------------ result

// c11Cfg: like the other API tiers, but with a non-zero PostMessageCooloff: the throttle of a session
// (ThrottleUntil, called by the POST handler) is state a refused request must leave alone as well, and
// with a zero cooloff it never changes
var c11Cfg = strings.Replace(vCfgFast, `PostMessageCooloff = "0s"`, `PostMessageCooloff = "3ms"`, 1)

type c11Viol struct {
	Sig   string   `json:"sig"`
	Desc  string   `json:"desc"`
	Prop  string   `json:"prop"`
	Count int      `json:"count"`
	Unit  []string `json:"unit"`
}

type c11Result struct {
	Requests      int            `json:"requests"`
	Refused       int            `json:"refused"`
	Accepted      int            `json:"accepted"`
	Units         int            `json:"units"`
	Worlds        int            `json:"worlds"`
	Restarts      int            `json:"restarts"`
	Snapshots     int            `json:"snapshots"`
	Parts         map[string]int `json:"parts"`
	Outcomes      map[string]int `json:"outcomes"`
	Status        map[string]int `json:"status"`
	WorldLost     map[string]int `json:"world_lost"`
	OffRouteTaken int            `json:"off_route_accepted"`
	PrivatePaths  int            `json:"private_paths"`
	Violations    []*c11Viol     `json:"violations"`
	Samples       []string       `json:"samples"`
	RouteDiff     string         `json:"route_table_diff,omitempty"`
	HarnessErr    string         `json:"harness_error,omitempty"`
	Capped        bool           `json:"capped"`
	// InFlight is set in the partial result written before a request to /quit (whose handler ends the
	// process by design): a worker that dies there leaves a result that names the request.
	InFlight string `json:"in_flight,omitempty"`
}

type c11State struct {
	last     uint64
	cmds     int
	cfgs     int
	dump     string
	out      robust.Id
	servers  int
	delstate bool
}

type c11Run struct {
	n        *vNode
	dir      string
	res      *c11Result
	sigs     map[string]*c11Viol
	prog     *os.File
	scanNext uint64
	scanCmds int
	scanCfgs int
	unit     []string
	herr     string
	sampled  map[string]int
	stopped  bool
	// halt: an accepted request damaged the node (e.g. /join of an unreachable peer took the quorum
	// away); the violations found so far are reported, the rest of this worker's units is skipped
	halt bool
}

func (r *c11Run) report(sig, desc string) {
	sig = "C11:" + sig
	if v, ok := r.sigs[sig]; ok {
		v.Count++
		return
	}
	v := &c11Viol{Sig: sig, Desc: desc, Prop: "C11", Count: 1, Unit: append([]string(nil), r.unit...)}
	r.sigs[sig] = v
	r.res.Violations = append(r.res.Violations, v)
}

func (r *c11Run) write() {
	b, _ := json.Marshal(r.res)
	if o := os.Getenv("VERIF_OUT"); o != "" {
		os.WriteFile(o+".tmp", b, 0644)
		os.Rename(o+".tmp", o)
	} else {
		fmt.Println(string(b))
	}
}

func (r *c11Run) violCount() int {
	c := 0
	for _, v := range r.res.Violations {
		c += v.Count
	}
	return c
}

func (r *c11Run) fail(format string, a ...interface{}) {
	if r.halt {
		return
	}
	if r.herr == "" {
		r.herr = "HARNESS: " + fmt.Sprintf(format, a...) + " (unit " + strings.Join(r.unit, " ") + ")"
	}
}

func (r *c11Run) progress(s string) {
	if r.prog != nil {
		r.prog.WriteString(s + "\n")
	}
}

// snap reads everything a refused request must leave alone.
func (r *c11Run) snap() c11State {
	n := r.n
	last, _ := n.logStore.LastIndex()
	if r.scanNext == 0 {
		r.scanNext, _ = n.logStore.FirstIndex()
	}
	for ; r.scanNext > 0 && r.scanNext <= last; r.scanNext++ {
		var l raft.Log
		if err := n.logStore.GetLog(r.scanNext, &l); err != nil {
			continue
		}
		switch l.Type {
		case raft.LogCommand:
			r.scanCmds++
		case raft.LogConfiguration, raft.LogAddPeerDeprecated, raft.LogRemovePeerDeprecated:
			r.scanCfgs++
		}
	}
	st := c11State{last: last, cmds: r.scanCmds, cfgs: r.scanCfgs}
	st.dump = ircserver.VerifDump(ircServer, ircserver.VerifDumpOpts{})
	st.out = outputStream.LastSeen()
	if f := n.raft.GetConfiguration(); f.Error() == nil {
		st.servers = len(f.Configuration().Servers)
	}
	if _, err := os.Stat(filepath.Join(n.dir, "deletestate")); err == nil {
		st.delstate = true
	}
	return st
}

func c11Diff(a, b c11State) string {
	var d []string
	if a.last != b.last {
		d = append(d, fmt.Sprintf("last raft log index %d -> %d", a.last, b.last))
	}
	if a.cmds != b.cmds {
		d = append(d, fmt.Sprintf("command entries in the raft log %d -> %d", a.cmds, b.cmds))
	}
	if a.cfgs != b.cfgs {
		d = append(d, fmt.Sprintf("configuration entries in the raft log %d -> %d", a.cfgs, b.cfgs))
	}
	if a.out != b.out {
		d = append(d, fmt.Sprintf("output stream position %v -> %v", a.out, b.out))
	}
	if a.servers != b.servers {
		d = append(d, fmt.Sprintf("servers in the cluster %d -> %d", a.servers, b.servers))
	}
	if a.delstate != b.delstate {
		d = append(d, "deletestate file created")
	}
	if a.dump != b.dump {
		la, lb := strings.Split(a.dump, "\n"), strings.Split(b.dump, "\n")
		line := ""
		for i := 0; i < len(la) || i < len(lb); i++ {
			var x, y string
			if i < len(la) {
				x = la[i]
			}
			if i < len(lb) {
				y = lb[i]
			}
			if x != y {
				line = fmt.Sprintf("state dump line %d: %q -> %q", i+1, c11Short(x, 160), c11Short(y, 160))
				break
			}
		}
		d = append(d, line)
	}
	return strings.Join(d, "; ")
}

func c11Short(s string, n int) string {
	if len(s) > n {
		return s[:n] + "..."
	}
	return s
}

// ------------------------------------------------------------------ requests

type c11Req struct {
	part     string // "session" | "private" | "public->private"
	public   bool
	method   string
	path     string
	hdr      map[string]string
	body     string
	carried  []string // secrets the request carries itself (an echo is not a leak)
	route    string   // stable route class (signatures)
	state    string
	spell    string
	hist     string
	cred     string // credential label
	credKind string // stable credential class (signatures)
}

func (q *c11Req) String() string {
	s := fmt.Sprintf("%s %s  [credential: %s", q.method, q.path, q.cred)
	if q.state != "" {
		s += "; session state: " + q.state
	}
	if q.hist != "" {
		s += "; history: " + q.hist
	}
	if q.spell != "" {
		s += "; id spelling: " + q.spell
	}
	return s + "]"
}

func (r *c11Run) freshAPI() *api.HTTP {
	return api.NewHTTP(ircServer, r.n.raft, ircStore, outputStream, &rafthttp.HTTPTransport{}, *network, *networkPassword, r.n.dir, vPeerAddr, *useProtobuf, 3)
}

// quiesce waits until the helper goroutines of the messages handler (getMessages, pingTicker) are gone;
// they end asynchronously after the handler returned and must not meet a closed output stream.
func (r *c11Run) quiesce() {
	buf := make([]byte, 4<<20)
	for k := 0; k < 50000; k++ {
		st := string(buf[:runtime.Stack(buf, true)])
		if !strings.Contains(st, "(*HTTP).getMessages") && !strings.Contains(st, "(*HTTP).pingTicker") && !strings.Contains(st, "(*HTTP).handleGetMessages") {
			return
		}
		outputStream.InterruptGetNext()
		time.Sleep(200 * time.Microsecond)
	}
	r.fail("helper goroutines of the messages handler did not end")
}

// exec runs one request on the real dispatcher.  A handler that streams (GET .../messages that
// was accepted) is stopped as soon as `until` is satisfied.
func (r *c11Run) exec(q *c11Req, h *api.HTTP, until func(code int, body string) bool, wait time.Duration) (vResp, error) {
	if r.halt {
		return vResp{}, fmt.Errorf("halted")
	}
	r.res.Requests++
	r.res.Parts[q.part]++
	if len(r.unit) > 1 {
		q.hist = r.unit[1]
	}
	r.progress("REQ " + q.String())
	ctx, cancel := context.WithCancel(context.Background())
	defer cancel()
	req := httptest.NewRequest(q.method, "https://"+vPeerAddr+q.path, strings.NewReader(q.body)).WithContext(ctx)
	req.RemoteAddr = "192.0.2.10:4711"
	for k, v := range q.hdr {
		req.Header[http.CanonicalHeaderKey(k)] = []string{v}
	}
	w := &vStreamWriter{hdr: http.Header{}, body: &vSafeBuf{}}
	done := make(chan struct{})
	go func() {
		defer close(done)
		if q.public {
			h.DispatchPublic(w, req)
		} else {
			h.DispatchPrivate(w, req)
		}
	}()
	code := func() int {
		w.mu.Lock()
		defer w.mu.Unlock()
		return w.code
	}
	finish := func(streamed bool) vResp {
		c := code()
		if c == 0 {
			c = 200
		}
		if streamed || (q.public && q.method == "GET" && c == 200) {
			r.quiesce()
		}
		r.progress("DONE " + strconv.Itoa(c))
		return vResp{Code: c, Body: w.body.String(), Header: w.hdr}
	}
	deadline := time.Now().Add(wait)
	for {
		select {
		case <-done:
			return finish(false), nil
		case <-time.After(200 * time.Microsecond):
		}
		if until != nil && until(code(), w.body.String()) {
			cancel()
			<-done
			return finish(true), nil
		}
		if time.Now().After(deadline) {
			cancel()
			select {
			case <-done:
				return finish(true), fmt.Errorf("timeout")
			case <-time.After(30 * time.Second):
				r.progress("DONE hang")
				return vResp{Code: code(), Body: w.body.String(), Header: http.Header{}}, fmt.Errorf("handler did not return after its request was cancelled")
			}
		}
	}
}

// ------------------------------------------------------------------ world

type c11World struct {
	k        int
	ch       string
	U, L, F  vSession
	D, V     vSession
	delMode  string
	markers  []string
	cm       uint64
	lastseen string
	intact   bool
	// a node restored from a snapshot replays the compacted log: channel messages from before the
	// snapshot may be gone from the output stream
	snapshotted bool
	contentGone bool
}

func (w *c11World) nextCM() uint64 { w.cm++; return w.cm }

func (w *c11World) secrets() [][2]string {
	return [][2]string{{"U", w.U.Auth}, {"L", w.L.Auth}, {"F", w.F.Auth}, {"D", w.D.Auth}, {"V", w.V.Auth}}
}

func (r *c11Run) build(delMode string) *c11World {
	r.res.Worlds++
	k := r.res.Worlds
	w := &c11World{k: k, ch: fmt.Sprintf("#c11x%d", k), delMode: delMode, cm: uint64(k) * 100000}
	n := r.n
	mk := func(name string) vSession {
		s, resp := n.createSession()
		if resp.Code != 200 || len(s.Auth) < 16 || s.Num == 0 {
			r.fail("cannot create session %s: %d %s", name, resp.Code, c11Short(resp.Body, 200))
		}
		return s
	}
	post := func(s vSession, line string) {
		if resp := n.post(s, line, w.nextCM()); resp.Code != 200 {
			r.fail("world: %q refused: %d %s", line, resp.Code, c11Short(resp.Body, 200))
		}
	}
	mark := func(kind string) string {
		m := fmt.Sprintf("c11-marker-%d-%s", k, kind)
		w.markers = append(w.markers, m)
		return m
	}
	w.U = mk("U")
	w.L = mk("L")
	w.D = mk("D")
	for _, x := range []struct {
		s    vSession
		nick string
	}{{w.U, "u"}, {w.L, "l"}, {w.D, "d"}} {
		nick := fmt.Sprintf("%s%d", x.nick, k)
		post(x.s, "NICK "+nick)
		post(x.s, "USER "+nick+" 0 * :"+nick)
		post(x.s, "JOIN "+w.ch)
	}
	post(w.U, "PRIVMSG "+w.ch+" :"+mark("chan-a"))
	post(w.U, fmt.Sprintf("PRIVMSG l%d :%s", k, mark("direct-l")))
	post(w.U, fmt.Sprintf("PRIVMSG d%d :%s", k, mark("direct-d")))
	post(w.U, "TOPIC "+w.ch+" :"+mark("topic"))
	w.F = mk("F")
	w.V = mk("V") // younger than every other session of the world
	post(w.V, fmt.Sprintf("NICK v%d", k))
	post(w.V, fmt.Sprintf("USER v%d 0 * :v", k))
	switch delMode {
	case "DELETE":
		if resp := n.deleteSession(w.D, "c11 bye"); resp.Code != 200 {
			r.fail("world: DELETE of D refused: %d %s", resp.Code, resp.Body)
		}
	case "QUIT":
		post(w.D, "QUIT :c11 bye")
	case "adminkill":
		if resp := n.admin("POST", "/kill?session="+w.D.Id, nil, ""); resp.Code != 200 {
			r.fail("world: /kill refused: %d %s", resp.Code, resp.Body)
		}
	case "operkill":
		post(w.U, "OPER root operpw")
		post(w.U, fmt.Sprintf("KILL d%d :c11 kill", k))
	default:
		r.fail("unknown deletion mode %q", delMode)
	}
	// (whether the deletion took D out of reach is for the matrix to find out, not a harness precondition)
	last := mark("chan-b")
	post(w.U, "PRIVMSG "+w.ch+" :"+last)
	w.lastseen = fmt.Sprintf("%d.0", w.L.Num)
	if r.herr == "" {
		msgs, _, err := n.stream(w.L, w.L.Auth, "", func(lines []robust.Message) bool {
			for _, m := range lines {
				if strings.Contains(m.Data, last) {
					return true
				}
			}
			return false
		})
		if err == nil && len(msgs) > 0 {
			w.lastseen = fmt.Sprintf("%d.%d", msgs[0].Id.Id, msgs[0].Id.Reply)
		}
		r.quiesce()
	}
	w.intact = true
	return w
}

func (r *c11Run) alive(s vSession) bool {
	a, err := ircServer.GetAuth(robust.Id{Id: s.Num})
	return err == nil && a == s.Auth
}

func (r *c11Run) teardown(w *c11World) {
	if r.stopped || r.halt {
		return
	}
	for _, s := range []vSession{w.U, w.L, w.F, w.V} {
		if s.Num != 0 && r.alive(s) {
			r.n.deleteSession(s, "c11 teardown")
		}
	}
}

func (r *c11Run) history(hist string, w *c11World) {
	n := r.n
	post := func(s vSession, line string) {
		if resp := n.post(s, line, w.nextCM()); resp.Code != 200 {
			r.fail("history %s: %q refused: %d %s", hist, line, resp.Code, resp.Body)
		}
	}
	snapshot := func() {
		r.res.Snapshots++
		time.Sleep(2 * time.Millisecond) // raft names snapshots by term-index-millisecond
		if err := n.raft.Snapshot().Error(); err != nil {
			r.fail("snapshot: %v", err)
		}
	}
	restart := func() {
		r.res.Restarts++
		r.quiesce()
		n.Stop()
		nn, err := vStartNode(r.dir, false)
		if err != nil {
			r.stopped = true
			r.fail("restart: %v", err)
			return
		}
		r.n = nn
		n = nn
	}
	for oi, op := range strings.Split(hist, "+") {
		switch op {
		case "h0":
		case "post1":
			m := fmt.Sprintf("c11-marker-%d-h%d", w.k, oi)
			w.markers = append(w.markers, m)
			post(w.U, "PRIVMSG "+w.ch+" :"+m)
			w.contentGone = false
		case "config":
			if resp := n.setConfig(strings.Replace(c11Cfg, `"30m"`, fmt.Sprintf(`"%dm"`, 31+(w.k+oi)%20), 1)); resp.Code != 200 {
				r.fail("history config: %d %s", resp.Code, resp.Body)
			}
		case "snapshot":
			snapshot()
			w.snapshotted = true
		case "restart":
			restart()
			if w.snapshotted {
				w.contentGone = true
			}
		default:
			r.fail("unknown history operation %q", op)
		}
		if r.herr != "" {
			return
		}
	}
	if r.herr != "" {
		return
	}
	if !r.alive(w.U) || !r.alive(w.L) || !r.alive(w.F) || !r.alive(w.V) {
		w.intact = false
		r.res.WorldLost[hist]++
	}
}

// ------------------------------------------------------------------ oracles

func c11ContainsAny(hay string, needles []string) string {
	for _, n := range needles {
		if n != "" && strings.Contains(hay, n) {
			return n
		}
	}
	return ""
}

func c11Flat(resp vResp) string {
	var b strings.Builder
	b.WriteString(resp.Body)
	for k, vs := range resp.Header {
		b.WriteString("\n" + k + ": " + strings.Join(vs, ","))
	}
	return b.String()
}

func (r *c11Run) outcome(q *c11Req, code int, effect string) {
	route := q.route
	spell := q.spell
	r.res.Outcomes[fmt.Sprintf("%s|%s|%s|%s|%s|%d|%s", q.part, route, q.state, spell, q.cred, code, effect)]++
	r.res.Status[fmt.Sprintf("%s %d", q.part, code)]++
}

func (r *c11Run) sample(q *c11Req, resp vResp, what string) {
	key := q.part + "/" + what
	if r.sampled[key] >= 2 || len(r.res.Samples) >= 12 {
		return
	}
	r.sampled[key]++
	r.res.Samples = append(r.res.Samples, fmt.Sprintf("%s -> %d %q; %s", q.String(), resp.Code, c11Short(strings.TrimSpace(resp.Body), 60), what))
}

// leaks checks the response of a request that did not present valid credentials.
func (r *c11Run) leaks(w *c11World, q *c11Req, resp vResp) {
	flat := c11Flat(resp)
	if m := c11ContainsAny(flat, w.markers); m != "" {
		r.report("response body reveals messages", fmt.Sprintf("%s answered %d and the response contains the message text %q", q.String(), resp.Code, m))
	}
	carried := map[string]bool{}
	for _, c := range q.carried {
		carried[c] = true
	}
	for _, s := range w.secrets() {
		if s[1] != "" && !carried[s[1]] && strings.Contains(flat, s[1]) {
			r.report("response body reveals a session secret", fmt.Sprintf("%s answered %d and the response contains the secret of session %s", q.String(), resp.Code, s[0]))
		}
	}
	if !carried[vNetPassword] && strings.Contains(flat, vNetPassword) {
		r.report("response body reveals the network password", fmt.Sprintf("%s answered %d and the response contains the network password", q.String(), resp.Code))
	}
}

// refused: the request must be refused without effect and without leak.
func (r *c11Run) refused(w *c11World, q *c11Req) {
	if r.herr != "" || r.halt {
		return
	}
	h := r.n.api
	if q.part == "private" {
		h = r.freshAPI() // the back-off after a wrong password is per api.HTTP object
	}
	if q.route == "/quit" || q.route == "/raft/" {
		// these handlers end the process when they are reached (/quit by design, /raft/ because the
		// harness has no real raft transport)
		r.res.InFlight = q.String()
		r.write()
	}
	before := r.snap()
	var t200 time.Time
	resp, err := r.exec(q, h, func(code int, body string) bool {
		if code != 200 {
			return false
		}
		// already accepted (a violation); give it a moment to show what it reveals
		if t200.IsZero() {
			t200 = time.Now()
		}
		return c11ContainsAny(body, w.markers) != "" || time.Since(t200) > 30*time.Millisecond
	}, 60*time.Second)
	r.res.InFlight = ""
	if err != nil {
		r.fail("%s: %v", q.String(), err)
		return
	}
	after := r.snap()
	r.res.Refused++
	effect := "no effect"
	ok := true
	switch q.part {
	case "private":
		if resp.Code != 401 {
			ok = false
			r.report("private route answered without network password ["+q.route+"]", fmt.Sprintf("%s answered %d %q", q.String(), resp.Code, c11Short(resp.Body, 200)))
		} else if resp.Header.Get("WWW-Authenticate") == "" {
			ok = false
			r.report("401 without WWW-Authenticate header ["+q.route+"]", q.String())
		}
	case "public->private":
		if resp.Code >= 200 && resp.Code < 300 {
			ok = false
			r.report("public dispatcher reaches a private handler ["+q.route+"]", fmt.Sprintf("%s answered %d %q", q.String(), resp.Code, c11Short(resp.Body, 200)))
		}
	default:
		if resp.Code >= 200 && resp.Code < 300 && q.method != "OPTIONS" {
			ok = false
			r.report("session route accepted "+q.credKind+" ["+q.route+"]", fmt.Sprintf("%s answered %d %q", q.String(), resp.Code, c11Short(resp.Body, 200)))
		}
	}
	if d := c11Diff(before, after); d != "" {
		ok = false
		effect = "EFFECT"
		r.report("refused request changed state", fmt.Sprintf("%s answered %d; %s", q.String(), resp.Code, d))
		if before.servers != after.servers || before.cfgs != after.cfgs {
			r.halt = true
			r.res.Capped = true
		}
	}
	r.leaks(w, q, resp)
	r.outcome(q, resp.Code, effect)
	if ok {
		r.sample(q, resp, "refused, log/state/output unchanged")
	}
}

// ------------------------------------------------------------------ session part

type c11Cred struct {
	label  string
	kind   string
	absent bool
	val    string
	basic  bool // the request also carries the network password as HTTP basic auth (what a relaying peer could do)
}

func c11Flip(s string, i int) string {
	if len(s) == 0 {
		return "0"
	}
	b := []byte(s)
	if b[i] == '0' {
		b[i] = '1'
	} else {
		b[i] = '0'
	}
	return string(b)
}

var c11Denoting = []string{"hex", "decimal", "upper-case hex", "octal", "binary", "underscore", "leading zeros", "plus sign", "overflow 2^64+id", "id with a slash"}
var c11Garbage = []string{"garbage abc", "empty", "the word session", "negative", "bare 0x", "hex with g"}

func c11Spell(kind string, id uint64) string {
	switch kind {
	case "hex":
		return fmt.Sprintf("0x%x", id)
	case "decimal":
		return fmt.Sprintf("%d", id)
	case "upper-case hex":
		return fmt.Sprintf("0X%X", id)
	case "octal":
		return fmt.Sprintf("0o%o", id)
	case "binary":
		return fmt.Sprintf("0b%b", id)
	case "underscore":
		return fmt.Sprintf("0x_%x", id)
	case "leading zeros":
		return fmt.Sprintf("0x000%x", id)
	case "plus sign":
		return fmt.Sprintf("+%d", id)
	case "overflow 2^64+id":
		return fmt.Sprintf("0x1%016x", id)
	case "id with a slash":
		return fmt.Sprintf("0x%x/x", id)
	case "garbage abc":
		return "abc"
	case "empty":
		return ""
	case "the word session":
		return "session"
	case "negative":
		return "-1"
	case "bare 0x":
		return "0x"
	case "hex with g":
		return "0xg1"
	}
	panic("c11: unknown spelling " + kind)
}

type c11Shape struct {
	route  string
	method string
	suffix string
	query  string
	diag   bool
}

func c11Shapes(w *c11World) []c11Shape {
	out := []c11Shape{
		{"POST message", "POST", "/message", "", true},
		{"GET messages", "GET", "/messages", "", true},
		{"GET messages", "GET", "/messages", "?lastseen=0.0", true},
		{"GET messages", "GET", "/messages", "?lastseen=" + w.lastseen, true},
		{"GET messages", "GET", "/messages", "?lastseen=abc", true},
		{"DELETE session", "DELETE", "", "", true},
	}
	for _, m := range []string{"GET", "POST", "DELETE", "PUT", "PATCH", "HEAD", "OPTIONS"} {
		for _, sfx := range []string{"/message", "/messages", ""} {
			if (m == "POST" && sfx == "/message") || (m == "GET" && sfx == "/messages") || (m == "DELETE" && sfx == "") {
				continue
			}
			name := sfx
			if name == "" {
				name = "/"
			}
			out = append(out, c11Shape{"off-route " + m + " <id>" + name, m, sfx, "", false})
		}
	}
	out = append(out,
		c11Shape{"off-route POST <id>/message/", "POST", "/message/", "", false},
		c11Shape{"off-route GET <id>/messages/", "GET", "/messages/", "", false},
		c11Shape{"off-route DELETE <id>/", "DELETE", "/", "", false},
		c11Shape{"off-route POST <id>/message/x", "POST", "/message/x", "", false},
		c11Shape{"off-route GET <id>/messages/x", "GET", "/messages/x", "?lastseen=0.0", false},
	)
	return out
}

func (w *c11World) bodyFor(method string, text string) string {
	switch method {
	case "POST", "PUT", "PATCH":
		b, _ := json.Marshal(struct {
			Data            string
			ClientMessageId uint64
		}{text, w.nextCM()})
		return string(b)
	case "DELETE":
		return `{"Quitmessage":"c11-quit"}`
	}
	return ""
}

func (r *c11Run) sessReq(w *c11World, sh c11Shape, sp, state, spell string, c c11Cred) *c11Req {
	q := &c11Req{part: "session", public: true, method: sh.method, path: "/robustirc/v1/" + sp + sh.suffix + sh.query,
		route: sh.route, state: state, spell: spell, cred: c.label, credKind: c.kind, hdr: map[string]string{}}
	q.body = w.bodyFor(sh.method, fmt.Sprintf("PRIVMSG %s :c11-intruder-%d", w.ch, w.k))
	if !c.absent {
		q.hdr["X-Session-Auth"] = c.val
		q.carried = []string{c.val}
	}
	if c.basic {
		q.hdr["Authorization"] = "Basic " + base64.StdEncoding.EncodeToString([]byte("robustirc:"+vNetPassword))
		q.carried = append(q.carried, vNetPassword)
	}
	return q
}

// sessionUnit: one session state x one id spelling, all shapes x all credentials.
func (r *c11Run) sessionUnit(hist, state, spell string) {
	// the server tells "no such session" from "not yet seen" by comparing the id with the id it processed
	// last; in the "(older ...)" variant the youngest session V speaks last, so that both answers are covered
	const older = " (older than the last speaker)"
	lateV := strings.HasSuffix(state, older)
	delMode := "DELETE"
	if strings.HasPrefix(state, "deleted by ") {
		delMode = strings.TrimSuffix(strings.TrimPrefix(state, "deleted by "), older)
	}
	w := r.build(delMode)
	defer func() { r.teardown(w) }()
	if r.herr != "" {
		return
	}
	r.history(hist, w)
	if r.herr != "" {
		return
	}
	if lateV && w.intact {
		if resp := r.n.post(w.V, "PING late", w.nextCM()); resp.Code != 200 {
			r.fail("late PING refused: %d %s", resp.Code, resp.Body)
			return
		}
	}
	var T vSession
	live := false
	garbage := false
	switch {
	case state == "fresh":
		T, live = w.F, true
	case state == "logged in":
		T, live = w.L, true
	case strings.HasPrefix(state, "deleted by "):
		T = w.D
	case state == "never existed (id 1)":
		T = vSession{Num: 1}
	case state == "id 0":
		T = vSession{Num: 0}
	case state == "not yet seen (id 2^62)":
		T = vSession{Num: 1 << 62}
	case state == "n/a":
		garbage = true
	default:
		r.fail("unknown state %q", state)
		return
	}
	sp := c11Spell(spell, T.Num)
	T.Id = sp

	// credentials that must be refused
	var creds []c11Cred
	creds = append(creds, c11Cred{label: "header absent", kind: "a request without secret", absent: true})
	creds = append(creds, c11Cred{label: "empty string", kind: "an empty secret"})
	if T.Auth != "" {
		s := T.Auth
		creds = append(creds,
			c11Cred{label: "wrong, same length (first character changed)", kind: "a wrong secret", val: c11Flip(s, 0)},
			c11Cred{label: "wrong, same length (last character changed)", kind: "a wrong secret", val: c11Flip(s, len(s)-1)},
			c11Cred{label: "correct secret truncated by one character", kind: "a truncated secret", val: s[:len(s)-1]},
			c11Cred{label: "first half of the correct secret", kind: "a truncated secret", val: s[:len(s)/2]},
			c11Cred{label: "correct secret plus one character", kind: "an extended secret", val: s + "0"},
		)
		if up := strings.ToUpper(s); up != s {
			creds = append(creds, c11Cred{label: "correct secret in upper case", kind: "a wrong secret", val: up})
		}
		if !live {
			creds = append(creds, c11Cred{label: "the secret the session had before it was deleted", kind: "the secret of a deleted session", val: s})
		}
	} else {
		creds = append(creds, c11Cred{label: "wrong (256 hex digits)", kind: "a wrong secret", val: strings.Repeat("ab", 128)})
	}
	for _, o := range []struct {
		name string
		s    vSession
	}{{"U (logged in)", w.U}, {"L (logged in)", w.L}, {"F (fresh)", w.F}, {"V (logged in, youngest)", w.V}} {
		if o.s.Num == T.Num && !garbage {
			continue
		}
		creds = append(creds, c11Cred{label: "secret of the other live session " + o.name, kind: "another live session's secret", val: o.s.Auth})
	}
	if T.Num != w.D.Num || garbage {
		creds = append(creds, c11Cred{label: "secret of the deleted session D", kind: "the secret of a deleted session", val: w.D.Auth})
	}
	creds = append(creds, c11Cred{label: "the network password", kind: "the network password as secret", val: vNetPassword})
	// the session secret is what counts on the session routes, whatever else the request presents
	creds = append(creds, c11Cred{label: "header absent, network password as basic auth", kind: "no secret plus the network password (basic auth)", absent: true, basic: true})
	creds = append(creds, c11Cred{label: "wrong secret, network password as basic auth", kind: "a wrong secret plus the network password (basic auth)", val: strings.Repeat("cd", 16), basic: true})

	shapes := c11Shapes(w)
	viol0 := r.violCount()
	for _, sh := range shapes {
		if sh.method == "POST" && sp+sh.suffix == "session" {
			continue // POST /robustirc/v1/session is the (public) session creation
		}
		for ci, c := range creds {
			if !sh.diag && ci >= 2 && c.kind != "another live session's secret" && c.kind != "a wrong secret" {
				continue // off-route shapes: reduced credential set
			}
			r.refused(w, r.sessReq(w, sh, sp, state, spell, c))
			if r.herr != "" {
				return
			}
		}
	}
	if !live || garbage {
		return
	}
	if r.violCount() != viol0 {
		return // a request that had to be refused was accepted: the world is disturbed, no life cycle on it
	}
	if !w.intact {
		return // the history operation lost the sessions (not this property's business); refusals were still checked
	}
	correct := c11Cred{label: "correct secret", kind: "the correct secret", val: T.Auth}

	// off-route shapes with the correct secret: whatever the answer, it must not leak other secrets;
	// if it has an effect the accepted life cycle below is skipped for this unit.
	before := r.snap()
	for _, sh := range shapes {
		if sh.diag {
			continue
		}
		q := r.sessReq(w, sh, sp, state, spell, correct)
		resp, err := r.exec(q, r.n.api, func(code int, body string) bool { return code == 200 }, 60*time.Second)
		if err != nil {
			r.fail("%s: %v", q.String(), err)
			return
		}
		r.leaks(w, q, resp)
		r.outcome(q, resp.Code, "-")
	}
	if c11Diff(before, r.snap()) != "" {
		r.res.OffRouteTaken++
		return
	}
	must := spell == "hex"
	expectContent := !w.contentGone
	r.lifecycle(w, T, sp, state, spell, correct, must, expectContent)
}

// lifecycle: GET, POST, GET, DELETE with the correct secret, then the once-correct secret again.
func (r *c11Run) lifecycle(w *c11World, T vSession, sp, state, spell string, correct c11Cred, must, expectContent bool) {
	mode := "accepted"
	shapes := c11Shapes(w)
	get := func(query string, want string, stage string) {
		if r.herr != "" {
			return
		}
		q := r.sessReq(w, c11Shape{"GET messages", "GET", "/messages", query, true}, sp, state, spell, correct)
		before := r.snap()
		resp, err := r.exec(q, r.n.api, func(code int, body string) bool {
			return code == 200 && (want == "" || strings.Contains(body, want))
		}, 20*time.Second)
		after := r.snap()
		if resp.Code >= 200 && resp.Code < 300 {
			r.res.Accepted++
			if err != nil {
				r.report("correct secret refused or request not effective [GET messages]", fmt.Sprintf("%s (%s) answered 200 but did not deliver a message containing %q within 20s", q.String(), stage, want))
			} else {
				r.sample(q, vResp{Code: resp.Code, Body: fmt.Sprintf("%d bytes streamed", len(resp.Body))}, "accepted")
			}
			// reading with one's own secret must still not reveal anybody else's secret
			for _, s := range w.secrets() {
				if s[1] != T.Auth && s[1] != "" && strings.Contains(resp.Body, s[1]) {
					r.report("response body reveals a session secret", fmt.Sprintf("%s: the stream contains the secret of session %s", q.String(), s[0]))
				}
			}
			r.outcome(q, resp.Code, mode)
			return
		}
		if err != nil {
			r.fail("%s: %v", q.String(), err)
			return
		}
		r.outcome(q, resp.Code, "refused")
		if must {
			r.report("correct secret refused or request not effective [GET messages]", fmt.Sprintf("%s (%s) answered %d %q", q.String(), stage, resp.Code, c11Short(resp.Body, 200)))
		} else if d := c11Diff(before, after); d != "" {
			r.report("refused request changed state", fmt.Sprintf("%s answered %d; %s", q.String(), resp.Code, d))
		}
	}
	want := ""
	if state == "logged in" && expectContent {
		want = w.markers[len(w.markers)-1] // the most recent message U sent to the channel
	}
	for _, query := range []string{"", "?lastseen=0.0", "?lastseen=" + w.lastseen} {
		get(query, want, "before posting")
	}
	if r.herr != "" {
		return
	}

	// POST
	token := fmt.Sprintf("c11own%d", w.k)
	posted := false
	{
		q := r.sessReq(w, shapes[0], sp, state, spell, correct)
		q.body = w.bodyFor("POST", "PING "+token)
		before := r.snap()
		resp, err := r.exec(q, r.n.api, nil, 60*time.Second)
		if err != nil {
			r.fail("%s: %v", q.String(), err)
			return
		}
		after := r.snap()
		if resp.Code >= 200 && resp.Code < 300 {
			r.res.Accepted++
			r.outcome(q, resp.Code, mode)
			okEntry := false
			if after.cmds == before.cmds+1 {
				var l raft.Log
				if err := r.n.logStore.GetLog(after.last, &l); err == nil && l.Type == raft.LogCommand {
					m := robust.NewMessageFromBytes(l.Data, robust.IdFromRaftIndex(l.Index))
					okEntry = m.Type == robust.IRCFromClient && m.Session.Id == T.Num && m.Data == "PING "+token
				}
			}
			if !okEntry {
				r.report("correct secret refused or request not effective [POST message]", fmt.Sprintf("%s answered %d but the raft log went from %d to %d command entries (want exactly one new entry of session %d)", q.String(), resp.Code, before.cmds, after.cmds, T.Num))
			} else {
				posted = true
				r.sample(q, resp, "accepted, exactly one new log entry")
			}
		} else {
			r.outcome(q, resp.Code, "refused")
			if must {
				r.report("correct secret refused or request not effective [POST message]", fmt.Sprintf("%s answered %d %q", q.String(), resp.Code, c11Short(resp.Body, 200)))
			} else if d := c11Diff(before, after); d != "" {
				r.report("refused request changed state", fmt.Sprintf("%s answered %d; %s", q.String(), resp.Code, d))
			}
		}
	}
	if posted {
		// the reply to the session's own line: PONG for a logged-in session, 451 for a fresh one
		w2 := "PONG " + token
		if state == "fresh" {
			w2 = " 451 "
		}
		get("", w2, "after posting")
	}
	if r.herr != "" {
		return
	}

	// DELETE
	{
		q := r.sessReq(w, c11Shape{"DELETE session", "DELETE", "", "", true}, sp, state, spell, correct)
		before := r.snap()
		resp, err := r.exec(q, r.n.api, nil, 60*time.Second)
		if err != nil {
			r.fail("%s: %v", q.String(), err)
			return
		}
		after := r.snap()
		_, gerr := ircServer.GetSession(robust.Id{Id: T.Num})
		if resp.Code >= 200 && resp.Code < 300 {
			r.res.Accepted++
			r.outcome(q, resp.Code, mode)
			if gerr == nil || after.cmds != before.cmds+1 {
				r.report("correct secret refused or request not effective [DELETE session]", fmt.Sprintf("%s answered %d but the session still exists / command entries %d -> %d", q.String(), resp.Code, before.cmds, after.cmds))
			} else {
				r.sample(q, resp, "accepted, session ended")
			}
		} else {
			r.outcome(q, resp.Code, "refused")
			if must {
				r.report("correct secret refused or request not effective [DELETE session]", fmt.Sprintf("%s answered %d %q", q.String(), resp.Code, c11Short(resp.Body, 200)))
			} else if d := c11Diff(before, after); d != "" {
				r.report("refused request changed state", fmt.Sprintf("%s answered %d; %s", q.String(), resp.Code, d))
			}
		}
		if gerr == nil {
			return
		}
	}
	// the session is gone: its once-correct secret must be refused everywhere
	once := c11Cred{label: "the secret the session had before it was deleted", kind: "the secret of a deleted session", val: T.Auth}
	for _, sh := range shapes {
		if !sh.diag {
			continue
		}
		r.refused(w, r.sessReq(w, sh, sp, state+", then deleted with its own secret", spell, once))
	}
}

// ------------------------------------------------------------------ private part

type c11Auth struct {
	label string
	user  string
	pass  string
	basic bool
	raw   string
	hdr   map[string]string
	query string
}

func c11BadAuths(w *c11World) []c11Auth {
	pw := vNetPassword
	return []c11Auth{
		{label: "no Authorization header"},
		{label: "wrong user, right password", basic: true, user: "admin", pass: pw},
		{label: "right user, wrong password of the same length", basic: true, user: "robustirc", pass: c11Flip(pw, len(pw)-1)},
		{label: "right user, empty password", basic: true, user: "robustirc", pass: ""},
		{label: "empty user, right password", basic: true, user: "", pass: pw},
		{label: "right user, password in upper case", basic: true, user: "robustirc", pass: strings.ToUpper(pw)},
		{label: "right user, password capitalised", basic: true, user: "robustirc", pass: strings.ToUpper(pw[:1]) + pw[1:]},
		{label: "user in different case, right password", basic: true, user: "RobustIRC", pass: pw},
		{label: "right user, password truncated by one character", basic: true, user: "robustirc", pass: pw[:len(pw)-1]},
		{label: "right user, password plus one character", basic: true, user: "robustirc", pass: pw + "x"},
		{label: "right user, password plus a space", basic: true, user: "robustirc", pass: pw + " "},
		{label: "user and password swapped", basic: true, user: pw, pass: "robustirc"},
		{label: "right user, a live session's secret as password", basic: true, user: "robustirc", pass: w.L.Auth},
		{label: "Bearer scheme with the right password", raw: "Bearer " + pw},
		{label: "Basic scheme with undecodable payload", raw: "Basic !!!"},
		{label: "Basic scheme, payload without colon", raw: "Basic cm9idXN0aXJj"},
		{label: "no Authorization header, password in the query and in X-Session-Auth", query: "password=" + pw, hdr: map[string]string{"X-Session-Auth": pw, "X-Network-Password": pw}},
	}
}

func c11RouteOf(path string) string {
	if i := strings.IndexByte(path, '?'); i >= 0 {
		path = path[:i]
	}
	if strings.HasPrefix(path, "/raft/") {
		return "/raft/"
	}
	return path
}

func c11AddQuery(path, query string) string {
	if query == "" {
		return path
	}
	if strings.Contains(path, "?") {
		return path + "&" + query
	}
	return path + "?" + query
}

func c11PrivatePaths() []string {
	seen := map[string]bool{}
	var out []string
	add := func(p string) {
		if !seen[p] {
			seen[p] = true
			out = append(out, p)
		}
	}
	for _, k := range []string{"GET", "POST"} {
		for _, p := range c11PrivateTable[k] {
			add(p)
		}
	}
	for _, p := range []string{"/raft/", "/raft/AppendEntries", "/raft/RequestVote", "/raft/InstallSnapshot", "/quit?deletestate=yes",
		"/kill?session=$L", "/irclog?sessionid=$L", "/status/irclog?offset=0", "/nonexistent", "/status/"} {
		add(p)
	}
	return out
}

func (r *c11Run) privateUnit(hist, ppath string) {
	w := r.build("DELETE")
	defer func() { r.teardown(w) }()
	if r.herr != "" {
		return
	}
	r.history(hist, w)
	if r.herr != "" {
		return
	}
	path := strings.Replace(ppath, "$L", w.L.Id, 1)
	route := c11RouteOf(path)
	bodyFor := func(method string) (string, map[string]string) {
		hdr := map[string]string{}
		switch {
		case route == "/config" && method != "GET":
			g := r.n.admin("GET", "/config", nil, "")
			hdr["X-RobustIRC-Config-Revision"] = g.Header.Get("X-RobustIRC-Config-Revision")
			return strings.Replace(c11Cfg, `"30m"`, `"45m"`, 1), hdr
		case route == "/join" || route == "/part":
			return `{"Addr":"intruder.example:13001"}`, hdr
		case route == "/kill":
			hdr["Content-Type"] = "application/x-www-form-urlencoded"
			return "session=" + w.L.Id, hdr
		}
		return "", hdr
	}
	for _, method := range []string{"GET", "POST", "DELETE", "PUT"} {
		for _, a := range c11BadAuths(w) {
			body, hdr := bodyFor(method)
			q := &c11Req{part: "private", method: method, path: c11AddQuery(path, a.query), hdr: hdr, body: body, route: route, cred: a.label, credKind: a.label}
			if a.basic {
				rq, _ := http.NewRequest("GET", "http://x/", nil)
				rq.SetBasicAuth(a.user, a.pass)
				q.hdr["Authorization"] = rq.Header.Get("Authorization")
				q.carried = []string{a.user, a.pass}
			}
			if a.raw != "" {
				q.hdr["Authorization"] = a.raw
				q.carried = []string{strings.TrimPrefix(a.raw, "Bearer ")}
			}
			for k, v := range a.hdr {
				q.hdr[k] = v
				q.carried = append(q.carried, v)
			}
			r.refused(w, q)
			if r.herr != "" {
				return
			}
		}
	}
	// correct credentials: only on the non-destructive routes
	for _, d := range c11Destructive {
		if route == d {
			return
		}
	}
	for _, method := range []string{"GET", "POST", "DELETE", "PUT"} {
		body, hdr := bodyFor(method)
		q := &c11Req{part: "private", method: method, path: path, hdr: hdr, body: body, route: route, cred: "user robustirc with the network password"}
		rq, _ := http.NewRequest("GET", "http://x/", nil)
		rq.SetBasicAuth("robustirc", vNetPassword)
		q.hdr["Authorization"] = rq.Header.Get("Authorization")
		resp, err := r.exec(q, r.n.api, nil, 60*time.Second)
		if err != nil {
			r.fail("%s: %v", q.String(), err)
			return
		}
		r.res.Accepted++
		r.outcome(q, resp.Code, "authorised")
		if resp.Code == 401 {
			r.report("correct network password refused ["+route+"]", fmt.Sprintf("%s answered %d %q", q.String(), resp.Code, c11Short(resp.Body, 200)))
		} else {
			r.sample(q, vResp{Code: resp.Code, Body: fmt.Sprintf("%d bytes", len(resp.Body))}, "authorised")
		}
		if route == "/snapshot" && method == "GET" {
			// the handler starts the snapshot without waiting for it; a second, awaited one serialises
			time.Sleep(3 * time.Millisecond)
			r.n.raft.Snapshot().Error()
		}
	}
}

// pubprivUnit: private paths below /robustirc/v1/ must not be served by the public dispatcher.
func (r *c11Run) pubprivUnit(hist string) {
	w := r.build("DELETE")
	defer func() { r.teardown(w) }()
	if r.herr != "" {
		return
	}
	r.history(hist, w)
	if r.herr != "" {
		return
	}
	rq, _ := http.NewRequest("GET", "http://x/", nil)
	rq.SetBasicAuth("robustirc", vNetPassword)
	type cr struct {
		label   string
		hdr     map[string]string
		carried []string
	}
	creds := []cr{
		{"no credentials", nil, nil},
		{"X-Session-Auth of the live session L", map[string]string{"X-Session-Auth": w.L.Auth}, []string{w.L.Auth}},
		{"basic auth with the network password (must be ignored by the public dispatcher)", map[string]string{"Authorization": rq.Header.Get("Authorization")}, []string{vNetPassword}},
	}
	for _, pp := range c11PrivatePaths() {
		path := strings.Replace(pp, "$L", w.L.Id, 1)
		route := c11RouteOf(path)
		for _, method := range []string{"GET", "POST", "DELETE", "PUT"} {
			for _, c := range creds {
				q := &c11Req{part: "public->private", public: true, method: method, path: "/robustirc/v1" + path, route: route, cred: c.label, credKind: c.label,
					hdr: map[string]string{}, carried: c.carried}
				for k, v := range c.hdr {
					q.hdr[k] = v
				}
				if method == "POST" && route == "/kill" {
					q.hdr["Content-Type"] = "application/x-www-form-urlencoded"
					q.body = "session=" + w.L.Id
				}
				r.refused(w, q)
				if r.herr != "" {
					return
				}
			}
		}
	}
}

// ------------------------------------------------------------------ driver

type c11Unit struct {
	Kind  string
	Hist  string
	State string
	Arg   string
}

func c11Units(thorough bool) []c11Unit {
	hists := []string{"h0", "post1", "config", "snapshot+restart"}
	if thorough {
		// every sequence of at most three history operations
		ops := []string{"post1", "config", "snapshot", "restart"}
		hists = []string{"h0"}
		hists = append(hists, ops...)
		for _, a := range ops {
			for _, b := range ops {
				hists = append(hists, a+"+"+b)
				for _, c := range ops {
					hists = append(hists, a+"+"+b+"+"+c)
				}
			}
		}
	}
	states := []string{"fresh", "logged in", "deleted by DELETE", "deleted by QUIT", "deleted by adminkill", "deleted by operkill",
		"deleted by DELETE (older than the last speaker)", "deleted by QUIT (older than the last speaker)",
		"deleted by adminkill (older than the last speaker)", "deleted by operkill (older than the last speaker)",
		"never existed (id 1)", "id 0", "not yet seen (id 2^62)"}
	var out []c11Unit
	for _, h := range hists {
		for _, st := range states {
			for _, sp := range c11Denoting {
				out = append(out, c11Unit{"session", h, st, sp})
			}
		}
		for _, sp := range c11Garbage {
			out = append(out, c11Unit{"session", h, "n/a", sp})
		}
		for _, p := range c11PrivatePaths() {
			out = append(out, c11Unit{"private", h, "", p})
		}
		out = append(out, c11Unit{"public->private", h, "", ""})
	}
	return out
}

func TestVerifC11(t *testing.T) {
	shard, _ := strconv.Atoi(os.Getenv("VERIF_SHARD"))
	nshards, _ := strconv.Atoi(os.Getenv("VERIF_NSHARDS"))
	if nshards == 0 {
		nshards = 1
	}
	var deadline time.Time
	if d := os.Getenv("VERIF_DEADLINE"); d != "" {
		sec, _ := strconv.ParseInt(d, 10, 64)
		deadline = time.Unix(sec, 0)
	}
	res := &c11Result{Parts: map[string]int{}, Outcomes: map[string]int{}, Status: map[string]int{}, WorldLost: map[string]int{}, PrivatePaths: len(c11PrivatePaths())}
	write := func() {
		b, _ := json.Marshal(res)
		if o := os.Getenv("VERIF_OUT"); o != "" {
			os.WriteFile(o, b, 0644)
		} else {
			fmt.Println(string(b))
		}
	}
	if js := os.Getenv("VERIF_C11_ROUTES"); js != "" {
		parsed := map[string][]string{}
		if err := json.Unmarshal([]byte(js), &parsed); err != nil {
			res.HarnessErr = "HARNESS: cannot decode VERIF_C11_ROUTES: " + err.Error()
			write()
			return
		}
		if d := c11RouteDiff(parsed); d != "" {
			res.RouteDiff = d
			write()
			return
		}
	}
	units := c11Units(os.Getenv("VERIF_TIER") == "thorough")
	if rp := os.Getenv("VERIF_REPLAY"); rp != "" {
		b, _ := os.ReadFile(rp)
		var v c11Viol
		json.Unmarshal(b, &v)
		if len(v.Unit) != 4 {
			res.HarnessErr = "HARNESS: replay file " + rp + " is unreadable or names no unit"
			write()
			return
		}
		units = []c11Unit{{v.Unit[0], v.Unit[1], v.Unit[2], v.Unit[3]}}
		nshards, shard = 1, 0
	}
	r := &c11Run{res: res, sigs: map[string]*c11Viol{}, sampled: map[string]int{}, dir: filepath.Join(t.TempDir(), "node")}
	if o := os.Getenv("VERIF_OUT"); o != "" {
		r.prog, _ = os.OpenFile(o+".progress", os.O_CREATE|os.O_WRONLY|os.O_TRUNC, 0644)
	}
	r.progress("START")
	n, err := vStartNode(r.dir, true)
	if err != nil {
		res.HarnessErr = "HARNESS: cannot start the node: " + err.Error()
		write()
		return
	}
	r.n = n
	if resp := n.setConfig(c11Cfg); resp.Code != 200 {
		res.HarnessErr = fmt.Sprintf("HARNESS: config: %d %s", resp.Code, resp.Body)
		write()
		return
	}
	for ui, u := range units {
		if ui%nshards != shard {
			continue
		}
		if !deadline.IsZero() && time.Now().After(deadline) {
			res.Capped = true
			break
		}
		r.unit = []string{u.Kind, u.Hist, u.State, u.Arg}
		r.progress("UNIT " + strings.Join(r.unit, " | "))
		res.Units++
		switch u.Kind {
		case "session":
			r.sessionUnit(u.Hist, u.State, u.Arg)
		case "private":
			r.privateUnit(u.Hist, u.Arg)
		case "public->private":
			r.pubprivUnit(u.Hist)
		}
		if r.herr != "" {
			res.HarnessErr = r.herr
			break
		}
		if r.halt {
			break
		}
	}
	r.progress("END")
	if !r.stopped {
		r.quiesce()
		r.n.Stop()
	}
	write()
}
