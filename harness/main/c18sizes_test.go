//go:build verif

package main

// C18, size sweep: entries of EVERY stored size in a range that spans the usual buffer sizes go through
// FSM.Apply -> Snapshot (all retained) -> Persist -> Restore; every one of them must be in the restored log copy
// with the bytes it was stored with.  (The grids of the other parts vary values; this one varies nothing but
// the length, one byte at a time.)

import (
	"bytes"
	"encoding/json"
	"fmt"
	"io"
	"os"
	"path/filepath"
	"strconv"
	"strings"
	"testing"
	"time"

	"github.com/hashicorp/raft"
	"github.com/robustirc/rafthttp"
	"github.com/robustirc/robustirc/internal/ircserver"
	"github.com/robustirc/robustirc/internal/raftlog"
	"github.com/robustirc/robustirc/internal/robust"
)

func TestVerifC18Sizes(t *testing.T) {
	shard, _ := strconv.Atoi(os.Getenv("VERIF_SHARD"))
	res := &vSeqResult{EndStates: map[string]int{}}
	sigs := map[string]*vViol{}
	if shard == 0 {
		for _, pbuf := range []bool{true, false} {
			*useProtobuf = pbuf
			robust.MessageOffset = 4648398125000000000
			dir := filepath.Join(t.TempDir(), fmt.Sprint(pbuf))
			os.MkdirAll(dir, 0700)
			fsm, err := c02Open(dir, true)
			if err != nil {
				t.Fatal(err)
			}
			w := &c02World{dir: dir, fsm: fsm}
			now := time.Now().UnixNano()
			var entries []ircserver.VEntry
			idx := uint64(0)
			add := func(e ircserver.VEntry) {
				idx++
				e.Id, e.UnixNano = idx, now+int64(idx)
				entries = append(entries, e)
				fsm.Apply(w.raftLog(e))
			}
			add(ircserver.VEntry{Type: robust.Config, Data: c02Cfg, Revision: 1})
			add(ircserver.VEntry{Type: robust.CreateSession, Data: "auth-a-0123456789"})
			sess := robust.Id{Id: idx}
			add(ircserver.VEntry{Type: robust.IRCFromClient, Session: sess, Data: "NICK a", ClientMessageId: 7, RemoteAddr: "10.0.0.1"})
			add(ircserver.VEntry{Type: robust.IRCFromClient, Session: sess, Data: "USER a 0 * :A", ClientMessageId: 8, RemoteAddr: "10.0.0.1"})
			for l := 0; l <= 1300; l++ {
				add(ircserver.VEntry{Type: robust.IRCFromClient, Session: sess, Data: "PRIVMSG #nowhere :" + strings.Repeat("x", l), ClientMessageId: uint64(100 + l), RemoteAddr: "10.0.0.1"})
			}
			raws := map[uint64][]byte{}
			sizes := map[int]bool{}
			it := fsm.ircstore.GetBulkIterator(0, ^uint64(0))
			for it.Next() {
				if k := it.Key(); len(k) == 8 {
					var i uint64
					for _, b := range k {
						i = i<<8 | uint64(b)
					}
					raws[i] = append([]byte(nil), it.Value()...)
					sizes[len(it.Value())] = true
				}
			}
			it.Release()
			snap, err := fsm.Snapshot()
			if err != nil {
				t.Fatalf("Snapshot: %v", err)
			}
			fss, err := raft.NewFileSnapshotStore(dir, 3, io.Discard)
			if err != nil {
				t.Fatal(err)
			}
			sink, err := fss.Create(1, idx, 1, raft.Configuration{}, 0, &rafthttp.HTTPTransport{})
			if err != nil {
				t.Fatal(err)
			}
			if err := snap.Persist(sink); err != nil {
				res.report(sigs, "C18", "Persist fails in the size sweep", err.Error(), []string{"c18sizes"})
				sink.Cancel()
				continue
			}
			sink.Close()
			snaps, _ := fss.List()
			_, rc, err := fss.Open(snaps[0].ID)
			if err != nil {
				t.Fatal(err)
			}
			var rerr error
			var perr interface{}
			func() {
				defer func() { perr = recover() }()
				rerr = fsm.Restore(rc)
			}()
			enc := map[bool]string{true: "protobuf", false: "json"}[pbuf]
			if rerr != nil || perr != nil {
				res.report(sigs, "C18", "Restore fails on a snapshot whose entries have every size of a range", fmt.Sprintf("%s: entries of %d distinct stored sizes (%d..%d bytes): error %v, panic %v", enc, len(sizes), 60, 1500, rerr, perr), []string{"c18sizes", enc})
			} else {
				for i, raw := range raws {
					var l raft.Log
					res.Ops++
					if err := fsm.ircstore.GetLog(i, &l); err != nil {
						res.report(sigs, "C18", "an entry is missing after Persist+Restore (size sweep)", fmt.Sprintf("%s: index %d, stored with %d bytes: %v", enc, i, len(raw), err), []string{"c18sizes", enc})
						continue
					}
					if want, err := raftlog.FromBytes(raw); err == nil && !bytes.Equal(want.Data, l.Data) {
						res.report(sigs, "C18", "an entry changed in Persist+Restore (size sweep)", fmt.Sprintf("%s: index %d, stored with %d bytes", enc, i, len(raw)), []string{"c18sizes", enc})
					}
				}
			}
			res.Sequences++
			res.EndStates[fmt.Sprintf("%s: %d entries, %d distinct stored sizes", enc, len(raws), len(sizes))]++
			fsm.ircstore.Close()
			fsm.store.Close()
			outputStream.Close()
		}
		robust.MessageOffset = 0
	}
	b, _ := json.Marshal(res)
	if o := os.Getenv("VERIF_OUT"); o != "" {
		os.WriteFile(o, b, 0644)
	} else {
		fmt.Println(string(b))
	}
}
