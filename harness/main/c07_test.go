//go:build verif

package main

// C07: a message of death is contained.  Child processes (this test binary re-executed
// with ROBUSTIRC_TESTING_ENABLE_PANIC_COMMAND=1) apply a log through the real FSM.Apply
// with real stores; the parent enumerates histories x position and role of the crashing
// entry x encoding x snapshot placement (none, before the crash, after it without / with folding the marked entry), inspects exit status and the durable raft log,
// and starts further children for the restart(s).

import (
	"encoding/base64"
	"encoding/json"
	"fmt"
	"io"
	"os"
	"os/exec"
	"path/filepath"
	"strconv"
	"strings"
	"testing"
	"time"

	"github.com/hashicorp/go-hclog"
	"github.com/hashicorp/raft"
	"github.com/robustirc/rafthttp"
	"github.com/robustirc/robustirc/internal/ircserver"
	"github.com/robustirc/robustirc/internal/raftstore"
	"github.com/robustirc/robustirc/internal/robust"
)

type c07Case struct {
	Name     string
	Entries  []ircserver.VEntry
	Crash    int    // position (index into Entries) of the PANIC line
	Role     string // registered, operator, unregistered, services
	Protobuf bool
	Snapshot string // none, before, after
	SnapAt   int    // "before": snapshot after this many entries (< Crash)
	Extra    ircserver.VEntry
}

func (c c07Case) String() string {
	enc := "json"
	if c.Protobuf {
		enc = "protobuf"
	}
	return fmt.Sprintf("%s: PANIC at position %d from a %s session, %s, snapshot %s", c.Name, c.Crash, c.Role, enc, c.Snapshot)
}

type c07ChildOut struct {
	Dump    string            `json:"dump"`
	Markers map[string]uint64 `json:"markers"`
	Outputs map[string]string `json:"outputs"`
	Applied int               `json:"applied"`
	Note    string            `json:"note"`
}

func c07Outputs(ids []uint64) map[string]string {
	out := map[string]string{}
	for _, id := range ids {
		msgs, ok := outputStream.Get(robust.Id{Id: id})
		if !ok {
			continue
		}
		var parts []string
		for _, m := range msgs {
			d := m.Data
			if strings.Contains(d, " 003 ") {
				d = "<003>"
			}
			parts = append(parts, fmt.Sprintf("%d.%d %q %s", m.Id.Id, m.Id.Reply, d, c02Recips(m.InterestingFor)))
		}
		out[strconv.FormatUint(id, 10)] = strings.Join(parts, "\n")
	}
	return out
}

// TestVerifC07Child is the body of the child processes.
func TestVerifC07Child(t *testing.T) {
	spec := os.Getenv("VERIF_C07_CASE")
	if spec == "" {
		t.Skip("only runs as a child of TestVerifC07")
	}
	var c c07Case
	if err := json.Unmarshal([]byte(spec), &c); err != nil {
		t.Fatal(err)
	}
	mode := os.Getenv("VERIF_C07_MODE")
	dir := os.Getenv("VERIF_C07_DIR")
	*useProtobuf = c.Protobuf
	robust.MessageOffset = 0
	os.MkdirAll(dir, 0700)
	fsm, err := c02Open(dir, mode == "run1")
	if err != nil {
		t.Fatal(err)
	}
	fss, err := raft.NewFileSnapshotStoreWithLogger(dir, 5, hclog.New(&hclog.LoggerOptions{Output: io.Discard, Level: hclog.Off}))
	if err != nil {
		t.Fatal(err)
	}
	w := &c02World{dir: dir, fsm: fsm, fss: fss}
	out := &c07ChildOut{Markers: map[string]uint64{}}
	snapshot := func(index uint64) {
		*canaryCompactionStart = c02Epoch - int64(time.Hour) // compact nothing: the placement is what matters here
		if c.Snapshot == "after-fold" {
			// ... or everything: the marked entry itself is folded into the snapshot state
			*canaryCompactionStart = c02Epoch + int64(1000*time.Hour)
		}
		s, err := fsm.Snapshot()
		if err != nil {
			out.Note += "snapshot failed: " + err.Error() + ";"
			return
		}
		sink, err := fss.Create(1, index, 1, raft.Configuration{}, 0, &rafthttp.HTTPTransport{})
		if err != nil {
			t.Fatal(err)
		}
		if err := s.Persist(sink); err != nil {
			sink.Cancel()
			out.Note += "persist failed;"
			return
		}
		sink.Close()
	}
	var ids []uint64
	switch mode {
	case "run1":
		// raft persists the entries in its log before they are applied
		var logs []*raft.Log
		for _, e := range c.Entries {
			logs = append(logs, w.raftLog(e))
		}
		if err := fsm.store.StoreLogs(logs); err != nil {
			t.Fatal(err)
		}
		for k, e := range c.Entries {
			if c.Snapshot == "before" && k == c.SnapAt {
				snapshot(c.Entries[k-1].Id)
			}
			fsm.Apply(w.raftLog(e)) // the crashing entry terminates the process in here
			out.Applied++
			ids = append(ids, e.Id)
		}
	case "run2", "run3", "other":
		// restart: newest snapshot (if any), then every entry of the durable log above it
		from := uint64(0)
		if snaps, _ := fss.List(); len(snaps) > 0 {
			_, rc, err := fss.Open(snaps[0].ID)
			if err != nil {
				t.Fatal(err)
			}
			if err := fsm.Restore(rc); err != nil {
				t.Fatalf("Restore: %v", err)
			}
			from = snaps[0].Index
		}
		first, _ := fsm.store.FirstIndex()
		last, _ := fsm.store.LastIndex()
		for i := first; i <= last && i > 0; i++ {
			var l raft.Log
			if err := fsm.store.GetLog(i, &l); err != nil {
				continue
			}
			ids = append(ids, i)
			if i <= from {
				continue
			}
			fsm.Apply(&l)
			out.Applied++
		}
		if mode == "run2" {
			// the node continues to apply new entries
			extra := w.raftLog(c.Extra)
			if err := fsm.store.StoreLogs([]*raft.Log{extra}); err != nil {
				t.Fatal(err)
			}
			fsm.Apply(extra)
			ids = append(ids, c.Extra.Id)
			if c.Snapshot == "after" || c.Snapshot == "after-fold" {
				snapshot(c.Extra.Id)
			}
		}
	}
	out.Dump = c02CreationRe.ReplaceAllString(ircserver.VerifDump(ircServer, ircserver.VerifDumpOpts{}), "creation=X")
	for id := range ircServer.GetSessions() {
		out.Markers[fmt.Sprintf("%d.%d", id.Id, id.Reply)] = ircserver.VerifMarker(ircServer, id)
	}
	out.Outputs = c07Outputs(ids)
	b, _ := json.Marshal(out)
	os.WriteFile(os.Getenv("VERIF_C07_OUT"), b, 0644)
	fsm.store.Close()
	fsm.ircstore.Close()
	outputStream.Close()
}

func c07Cases(thorough bool) []c07Case {
	var cases []c07Case
	type hist struct {
		name  string
		lines [][]string
	}
	hs := []hist{
		{"two-users", [][]string{{"cfg", "+A", "A: NICK a", "A: USER a 0 * :A", "+B", "B: NICK b", "B: USER b 0 * :B", "A: JOIN #c", "B: JOIN #c", "A: PRIVMSG #c :hi", "B: TOPIC #c :t"}}},
		{"oper-services", [][]string{{"cfg", "+A", "A: NICK a", "A: USER a 0 * :A", "A: OPER root operpw", "+S", "S: PASS :services=svcpw", "S: SERVER services.robustirc.net 1 :Services", "+U", "U: NICK u", "A: JOIN #c"}}},
	}
	if thorough {
		hs = append(hs, hist{"busy", [][]string{{"cfg", "+A", "A: NICK a", "A: USER a 0 * :A", "A: JOIN #c,#d", "+B", "B: NICK b", "B: USER b 0 * :B", "B: JOIN #c", "A: MODE #c +i", "A: KICK #c b", "A: INVITE b #c", "B: JOIN #c", "B: AWAY :gone", "A: PRIVMSG b :x"}}})
	}
	for _, h := range hs {
		base := c02MakeLog(h.name, h.lines, []int{0}, []int{2}).Chunks[0].Entries
		// sessions by letter, and their role at each position
		for pos := 1; pos <= len(base); pos++ {
			// roles available at this position: derive from a twin replay of the prefix
			tw := ircserver.VerifBuild(base[:pos])
			for id, s := range tw.Srv.GetSessions() {
				if id.Reply != 0 {
					continue
				}
				role := "unregistered"
				switch {
				case s.Server:
					role = "services"
				case s.Operator:
					role = "operator"
				case s.Nick != "" && s.Username != "":
					role = "registered"
				}
				for _, pb := range []bool{true, false} {
					// client message ids are client-chosen and not monotonic: the crashing entry carries an id
					// above (false) or below (true) every earlier id of its session
					for _, lowId := range []bool{false, true} {
						for _, snap := range []string{"none", "before", "after", "after-fold"} {
							if snap == "before" && pos < 3 {
								continue
							}

							// build the log: prefix, PANIC entry, rest (indexes shifted by one behind the insertion)
							var es []ircserver.VEntry
							es = append(es, base[:pos]...)
							crashId := base[pos-1].Id + 1
							es = append(es, ircserver.VEntry{Type: robust.IRCFromClient, Id: crashId, Session: id, Data: "PANIC now", UnixNano: base[pos-1].UnixNano + 1e8, ClientMessageId: 777000 + crashId, RemoteAddr: "10.0.0.1"})
							cname := h.name
							if lowId {
								es[len(es)-1].ClientMessageId = 2 // the base log uses 3*k+1, k >= 1
								cname += "/low-id"
							}
							for _, e := range base[pos:] {
								e.Id++
								if e.Session.Id >= crashId {
									e.Session.Id++
								}
								es = append(es, e)
							}
							lastE := es[len(es)-1]
							extra := ircserver.VEntry{Type: robust.IRCFromClient, Id: lastE.Id + 1, Session: robust.Id{Id: 4}, Data: "AWAY :after the crash", UnixNano: lastE.UnixNano + 1e9, ClientMessageId: 888000, RemoteAddr: "10.0.0.4"}
							cases = append(cases, c07Case{Name: cname, Entries: es, Crash: pos, Role: role, Protobuf: pb, Snapshot: snap, SnapAt: pos - 1, Extra: extra})
						}
					}
				}
			}
		}
	}
	return cases
}

func c07RunChild(c c07Case, mode, dir, outFile string) (int, string) {
	spec, _ := json.Marshal(c)
	cmd := exec.Command(os.Args[0], "-test.run", "^TestVerifC07Child$", "-test.timeout", "120s", "-logtostderr")
	cmd.Env = append(os.Environ(), "ROBUSTIRC_TESTING_ENABLE_PANIC_COMMAND=1", "VERIF_C07_CASE="+string(spec), "VERIF_C07_MODE="+mode, "VERIF_C07_DIR="+dir, "VERIF_C07_OUT="+outFile, "VERIF_OUT=")
	os.Remove(outFile)
	b, err := cmd.CombinedOutput()
	code := 0
	if err != nil {
		if ee, ok := err.(*exec.ExitError); ok {
			code = ee.ExitCode()
		} else {
			code = -1
		}
	}
	tail := string(b)
	if len(tail) > 1500 {
		tail = tail[len(tail)-1500:]
	}
	return code, tail
}

type c07LogEntry struct {
	Index uint64
	Type  robust.Type
	Raw   string
	Msg   robust.Message
	// Undecodable: the panic text when the stored bytes do not decode
	Undecodable string
	// raft's own fields of the durable entry
	Term uint64
	At   int64
	Ext  string
}

func c07ReadLog(dir string, pb bool) ([]c07LogEntry, error) {
	*useProtobuf = pb
	st, err := raftstore.NewLevelDBStore(filepath.Join(dir, "raftlog"), false, pb)
	if err != nil {
		return nil, err
	}
	defer st.Close()
	first, _ := st.FirstIndex()
	last, _ := st.LastIndex()
	var out []c07LogEntry
	for i := first; i <= last && i > 0; i++ {
		var l raft.Log
		if err := st.GetLog(i, &l); err != nil {
			continue
		}
		// (the decoder of the repository panics on bytes it cannot decode: an entry of the durable log that does
		// not decode is a finding about the entry, not a reason for the harness to die)
		var m robust.Message
		undecodable := ""
		func() {
			defer func() {
				if r := recover(); r != nil {
					undecodable = fmt.Sprint(r)
					if len(undecodable) > 160 {
						undecodable = undecodable[:160]
					}
				}
			}()
			m = robust.NewMessageFromBytes(l.Data, robust.IdFromRaftIndex(l.Index))
		}()
		out = append(out, c07LogEntry{Index: i, Type: m.Type, Raw: base64.StdEncoding.EncodeToString(l.Data), Msg: m, Undecodable: undecodable, Term: l.Term, At: l.AppendedAt.UnixNano(), Ext: string(l.Extensions)})
	}
	return out, nil
}

func TestVerifC07(t *testing.T) {
	shard, _ := strconv.Atoi(os.Getenv("VERIF_SHARD"))
	nshards, _ := strconv.Atoi(os.Getenv("VERIF_NSHARDS"))
	if nshards == 0 {
		nshards = 1
	}
	thorough := os.Getenv("VERIF_TIER") == "thorough"
	var deadline time.Time
	if d := os.Getenv("VERIF_DEADLINE"); d != "" {
		sec, _ := strconv.ParseInt(d, 10, 64)
		deadline = time.Unix(sec, 0)
	}
	res := &vSeqResult{EndStates: map[string]int{}}
	sigs := map[string]*vViol{}
	base := t.TempDir()
	cases := c07Cases(thorough)
	if rp := os.Getenv("VERIF_REPLAY"); rp != "" {
		b, _ := os.ReadFile(rp)
		var v struct {
			Case c07Case `json:"case"`
		}
		json.Unmarshal(b, &v)
		cases = []c07Case{v.Case}
		nshards, shard = 1, 0
	}
	children := 0
	for ci, c := range cases {
		if ci%nshards != shard {
			continue
		}
		if !deadline.IsZero() && time.Now().After(deadline) {
			res.HarnessErr = "time cap reached"
			break
		}
		res.Sequences++
		dir := fmt.Sprintf("%s/c%d", base, ci)
		outFile := dir + ".out.json"
		seq := []string{c.String()}
		rep := func(sig, desc string) {
			sig = "C07:" + sig
			if v, ok := sigs[sig]; ok {
				v.Count++
				return
			}
			v := &vViol{Sig: sig, Desc: c.String() + ": " + desc, Prop: "C07", Count: 1, Seq: seq}
			sigs[sig] = v
			res.Violations = append(res.Violations, v)
		}
		shouldCrash := c.Role == "registered" || c.Role == "operator"
		code, tail := c07RunChild(c, "run1", dir, outFile)
		children++
		res.Ops++
		crashed := code != 0
		if _, err := os.Stat(outFile); err == nil && crashed {
			crashed = false // wrote its result and failed later: treat as harness problem below
		}
		if shouldCrash && !crashed {
			rep("panicking entry did not terminate the node ["+c.Role+"]", fmt.Sprintf("exit status %d", code))
			os.RemoveAll(dir)
			continue
		}
		if !shouldCrash {
			if crashed {
				rep("PANIC fired for a session that cannot run commands ["+c.Role+"]", fmt.Sprintf("exit status %d: %s", code, tail))
			}
			res.EndStates["negative case: no crash ("+c.Role+")"]++
			os.RemoveAll(dir)
			continue
		}
		// durable log after the crash
		entries, err := c07ReadLog(dir, c.Protobuf)
		if err != nil {
			res.HarnessErr = "HARNESS: reading the raft log: " + err.Error()
			break
		}
		crashId := c.Entries[c.Crash].Id
		orig := map[uint64]ircserver.VEntry{}
		for _, e := range c.Entries {
			orig[e.Id] = e
		}
		*useProtobuf = c.Protobuf
		for _, le := range entries {
			o := orig[le.Index]
			if le.Undecodable != "" {
				kind := "an entry of the durable log does not decode after the crash"
				if le.Index == crashId {
					kind = "the marked entry in the durable log does not decode"
				}
				rep(kind, fmt.Sprintf("index %d: %s", le.Index, le.Undecodable))
				continue
			}
			// raft's own fields: marking rewrites the message, not the entry (a changed term makes raft treat the
			// entry as conflicting and replace it by the leader's unmarked copy)
			if want := (&c02World{}).raftLog(o); le.Term != want.Term || le.At != want.AppendedAt.UnixNano() || le.Ext != string(want.Extensions) {
				kind := "raft fields (term / append time / extensions) of a durable entry changed"
				if le.Index == crashId {
					kind = "marking the message of death changed the raft fields (term / append time / extensions) of the entry"
				}
				rep(kind, fmt.Sprintf("index %d: term %d (want %d), appended at %d (want %d), extensions %q", le.Index, le.Term, want.Term, le.At, want.AppendedAt.UnixNano(), le.Ext))
			}
			if le.Index == crashId {
				if le.Type != robust.MessageOfDeath {
					rep("crashing entry is not marked as message of death in the durable log", fmt.Sprintf("index %d has type %s", le.Index, le.Type))
				}
				if le.Msg.Session != o.Session || le.Msg.ClientMessageId != o.ClientMessageId || le.Msg.Data != o.Data || le.Msg.Id.Id != o.Id {
					rep("marked entry lost its identity (id/session/client message id/data)", fmt.Sprintf("index %d: %+v", le.Index, le.Msg))
				}
				continue
			}
			if le.Raw != base64.StdEncoding.EncodeToString(c02Encode(o)) {
				rep("an entry other than the crashing one was modified in the durable log", fmt.Sprintf("index %d type %s", le.Index, le.Type))
			}
		}
		if len(entries) != len(c.Entries) {
			rep("durable log lost or gained entries", fmt.Sprintf("%d entries, want %d", len(entries), len(c.Entries)))
		}
		// twin: the log with the crashing entry replaced by "only advance the marker"
		twin := ircserver.VerifNewInst()
		twinOut := map[uint64]string{}
		applyTwin := func(e ircserver.VEntry) {
			if e.Id == crashId {
				e.Type = robust.MessageOfDeath
			}
			st := twin.Apply(e)
			var parts []string
			for _, m := range st.Msgs {
				d := m.Data
				if strings.Contains(d, " 003 ") {
					d = "<003>"
				}
				parts = append(parts, fmt.Sprintf("%d.%d %q %s", m.Id.Id, m.Id.Reply, d, c02Recips(m.InterestingFor)))
			}
			if len(parts) > 0 {
				twinOut[e.Id] = strings.Join(parts, "\n")
			}
		}
		for _, e := range c.Entries {
			applyTwin(e)
		}
		compare := func(stage string, withExtra bool) bool {
			b, err := os.ReadFile(outFile)
			if err != nil {
				rep("node crashed again during "+stage, "no result")
				return false
			}
			var co c07ChildOut
			json.Unmarshal(b, &co)
			want := c02CreationRe.ReplaceAllString(ircserver.VerifDump(twin.Srv, ircserver.VerifDumpOpts{}), "creation=X")
			if co.Dump != want {
				la, lb := strings.Split(co.Dump, "\n"), strings.Split(want, "\n")
				detail := ""
				for k := 0; k < len(la) && k < len(lb); k++ {
					if la[k] != lb[k] {
						detail = fmt.Sprintf("node %q, expected %q", la[k], lb[k])
						break
					}
				}
				rep("state after "+stage+" differs from a replay that skips exactly the crashing entry", detail)
			}
			// duplicate-detection markers: equal to the replay in which the crashing entry only advances
			// the marker (when it is the session's last entry, the marker is its client message id)
			for id := range twin.Srv.GetSessions() {
				key := fmt.Sprintf("%d.%d", id.Id, id.Reply)
				if want := ircserver.VerifMarker(twin.Srv, id); co.Markers[key] != want {
					kind := "duplicate-detection marker differs"
					if id == c.Entries[c.Crash].Session && want == c.Entries[c.Crash].ClientMessageId {
						kind = "duplicate-detection marker did not advance for the message of death"
					}
					rep(kind+" ("+stage+")", fmt.Sprintf("session %s: marker %d, want %d", key, co.Markers[key], want))
				}
			}
			if _, has := co.Outputs[strconv.FormatUint(crashId, 10)]; has {
				rep("message of death produced output ("+stage+")", co.Outputs[strconv.FormatUint(crashId, 10)])
			}
			for id, w := range twinOut {
				if c.Snapshot == "after-fold" {
					break // the snapshot folded everything, the outputs are legitimately gone (C02 decides that)
				}
				if got := co.Outputs[strconv.FormatUint(id, 10)]; got != w {
					rep("output of another entry differs after "+stage, fmt.Sprintf("input %d: %q vs %q", id, got, w))
					break
				}
			}
			return true
		}
		// a different, fresh node that receives the log with the entry already marked
		dir2 := dir + "-other"
		os.MkdirAll(dir2, 0700)
		if err := exec.Command("cp", "-r", filepath.Join(dir, "raftlog"), filepath.Join(dir2, "raftlog")).Run(); err != nil {
			res.HarnessErr = "HARNESS: cp: " + err.Error()
			break
		}
		os.Remove(filepath.Join(dir2, "raftlog", "LOCK"))
		code, tail = c07RunChild(c, "other", dir2, outFile)
		children++
		if code != 0 {
			rep("a fresh node crashes on an entry that is already marked as message of death", fmt.Sprintf("exit status %d: %s", code, tail))
		} else {
			compare("replay on a fresh node", false)
			after, _ := c07ReadLog(dir2, c.Protobuf)
			for k := range entries {
				if k >= len(after) || after[k].Raw != entries[k].Raw {
					rep("applying an already marked entry touched the raft log of a fresh node", fmt.Sprintf("index %d", entries[k].Index))
					break
				}
			}
		}
		os.RemoveAll(dir2)
		// restart
		code, tail = c07RunChild(c, "run2", dir, outFile)
		children++
		res.Restarts++
		if code != 0 {
			rep("node does not come up after the message of death was marked", fmt.Sprintf("exit status %d: %s", code, tail))
			os.RemoveAll(dir)
			continue
		}
		applyTwin(c.Extra)
		if compare("restart", true) {
			// the durable log must be untouched by the replay (apart from the appended entry)
			after, _ := c07ReadLog(dir, c.Protobuf)
			for k := range entries {
				if k < len(after) && (after[k].Raw != entries[k].Raw) {
					rep("replaying a marked entry modified the durable log", fmt.Sprintf("index %d", entries[k].Index))
				}
			}
			// a second restart (through the snapshot taken after the crash, if any)
			code, tail = c07RunChild(c, "run3", dir, outFile)
			children++
			res.Restarts++
			if code != 0 {
				rep("node does not come up on the second restart", fmt.Sprintf("exit status %d: %s", code, tail))
			} else {
				// (after a snapshot that folded everything the outputs are legitimately gone: C02 decides that)
				compare("second restart", true)
			}
		}
		res.EndStates[fmt.Sprintf("crash contained (%s, snapshot %s)", c.Role, c.Snapshot)]++
		if len(res.Samples) < 1 || (len(res.Samples) < 3 && ci%41 == shard) {
			res.Samples = append(res.Samples, c.String()+": child exited non-zero, entry marked, two restarts reproduced the expected state")
		}
		os.RemoveAll(dir)
		os.Remove(outFile)
	}
	res.Retries = children
	b, _ := json.Marshal(res)
	if o := os.Getenv("VERIF_OUT"); o != "" {
		os.WriteFile(o, b, 0644)
	} else {
		fmt.Println(string(b))
	}
}
