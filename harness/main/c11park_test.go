//go:build verif

package main

// C11, parked requests: a request that names a session id which does not exist YET (ids are predictable:
// message offset + next raft index) is sent with a credential that can never be right, and only then the
// victim creates exactly that session, logs in and receives a private message.  Whatever the handler does
// with the early request (refuse at once, wait, proxy), it must never be served: no 200, no message of the
// victim in the answer, no effect on the session.  Routes x credentials x {request first, session first}.

import (
	"context"
	"encoding/json"
	"fmt"
	"net/http"
	"net/http/httptest"
	"os"
	"runtime"
	"strconv"
	"strings"
	"testing"
	"time"

	"github.com/robustirc/robustirc/internal/ircserver"
	"github.com/robustirc/robustirc/internal/robust"
)

func TestVerifC11Park(t *testing.T) {
	shard, _ := strconv.Atoi(os.Getenv("VERIF_SHARD"))
	nshards, _ := strconv.Atoi(os.Getenv("VERIF_NSHARDS"))
	if nshards == 0 {
		nshards = 1
	}
	res := &vSeqResult{EndStates: map[string]int{}}
	sigs := map[string]*vViol{}
	base := t.TempDir()
	routes := []string{"GET messages", "POST message", "DELETE"}
	creds := []string{"wrong", "other-session", "right-length", "one-char"}
	type job struct{ route, cred string }
	var jobs []job
	for _, r := range routes {
		for _, c := range creds {
			jobs = append(jobs, job{r, c})
		}
	}
	for ji, j := range jobs {
		if ji%nshards != shard {
			continue
		}
		dir := fmt.Sprintf("%s/n%d", base, ji)
		n, err := vStartNode(dir, true)
		if err != nil {
			t.Fatal(err)
		}
		if r := n.setConfig(vCfgFast); r.Code != 200 {
			t.Fatalf("config: %d %s", r.Code, r.Body)
		}
		O, _ := n.createSession()
		n.post(O, "NICK o", 11)
		n.post(O, "USER o 0 * :o", 12)
		predicted := robust.IdFromRaftIndex(n.raft.LastIndex() + 1)
		cred := map[string]string{"wrong": "definitely-not-the-secret", "other-session": O.Auth, "right-length": strings.Repeat("a", len(O.Auth)), "one-char": "a"}[j.cred]
		early := vSession{Id: fmt.Sprintf("0x%x", predicted), Auth: cred, Num: predicted}
		seq := []string{"c11park", j.route, j.cred}
		res.Sequences++
		type answer struct {
			code int
			body string
		}
		done := make(chan answer, 1)
		ctx, cancel := context.WithCancel(context.Background())
		go func() {
			var method, path, body string
			switch j.route {
			case "GET messages":
				method, path = "GET", "/robustirc/v1/"+early.Id+"/messages?lastseen=0.0"
			case "POST message":
				b, _ := json.Marshal(struct {
					Data            string
					ClientMessageId uint64
				}{"PRIVMSG o :forged by the early request", 777})
				method, path, body = "POST", "/robustirc/v1/"+early.Id+"/message", string(b)
			case "DELETE":
				b, _ := json.Marshal(struct{ Quitmessage string }{"deleted by the early request"})
				method, path, body = "DELETE", "/robustirc/v1/"+early.Id, string(b)
			}
			req := httptest.NewRequest(method, "https://"+vPeerAddr+path, strings.NewReader(body)).WithContext(ctx)
			req.RemoteAddr = "192.0.2.66:4711"
			req.Header.Set("X-Session-Auth", early.Auth)
			w := &vStreamWriter{hdr: http.Header{}, body: &vSafeBuf{}}
			fin := make(chan struct{})
			go func() {
				defer close(fin)
				n.api.DispatchPublic(w, req)
			}()
			select {
			case <-fin:
			case <-time.After(6 * time.Second):
				// still being served: look at what it got so far, then hang up
				cancel()
				<-fin
				done <- answer{200, "(still streaming after 6s) " + w.body.String()}
				return
			}
			w.mu.Lock()
			code := w.code
			w.mu.Unlock()
			if code == 0 {
				code = 200
			}
			done <- answer{code, w.body.String()}
		}()
		time.Sleep(30 * time.Millisecond)
		// the victim appears
		T, r := n.createSession()
		if r.Code != 200 || T.Num != predicted {
			res.HarnessErr = fmt.Sprintf("HARNESS: predicted session id %d, got %d (%d)", predicted, T.Num, r.Code)
			cancel()
			n.Stop()
			break
		}
		n.post(T, "NICK t", 21)
		n.post(T, "USER t 0 * :t", 22)
		n.post(O, "PRIVMSG t :for-the-eyes-of-t-only", 13)
		a := <-done
		cancel()
		res.Ops++
		res.EndStates[fmt.Sprintf("%s with %s credential -> %d", j.route, j.cred, a.code)]++
		if a.code == 200 {
			res.report(sigs, "C11", "early request with a wrong credential is served once the session exists ["+j.route+"]", fmt.Sprintf("%s on the not yet existing session %s with credential %q (%s), then the session is created: answered 200 %.200q", j.route, early.Id, cred, j.cred, a.body), seq)
		}
		if strings.Contains(a.body, "for-the-eyes-of-t-only") || strings.Contains(a.body, " 001 ") {
			res.report(sigs, "C11", "early request with a wrong credential receives the victim's messages ["+j.route+"]", fmt.Sprintf("%s, credential %s: %.300q", j.route, j.cred, a.body), seq)
		}
		if _, err := ircServer.GetSession(robust.Id{Id: T.Num}); err != nil {
			res.report(sigs, "C11", "early request with a wrong credential ended the victim's session ["+j.route+"]", fmt.Sprintf("%s, credential %s: %v", j.route, j.cred, err), seq)
		}
		for _, e := range n.logEntries() {
			if e.ClientMessageId == 777 || strings.Contains(e.Data, "early request") {
				res.report(sigs, "C11", "early request with a wrong credential was committed to the log ["+j.route+"]", fmt.Sprintf("%s, credential %s: entry %q", j.route, j.cred, e.Data), seq)
			}
		}
		// let the handler's helper goroutines end before the stores are closed
		buf := make([]byte, 1<<20)
		for k := 0; k < 20000; k++ {
			if !strings.Contains(string(buf[:runtimeStack(buf)]), "(*HTTP).getMessages") {
				break
			}
			outputStream.InterruptGetNext()
			time.Sleep(100 * time.Microsecond)
		}
		n.Stop()
		os.RemoveAll(dir)
	}
	b, _ := json.Marshal(res)
	if o := os.Getenv("VERIF_OUT"); o != "" {
		os.WriteFile(o, b, 0644)
	} else {
		fmt.Println(string(b))
	}
}

func runtimeStack(buf []byte) int { return runtime.Stack(buf, true) }

// TestVerifC11Open: the victim has a GetMessages request open (the normal state of a connected client).  A
// request on the victim's session id with a credential that is refused (routes x credentials) must leave that
// connection alone: a message sent to the victim afterwards still arrives on the SAME connection.
func TestVerifC11Open(t *testing.T) {
	shard, _ := strconv.Atoi(os.Getenv("VERIF_SHARD"))
	nshards, _ := strconv.Atoi(os.Getenv("VERIF_NSHARDS"))
	if nshards == 0 {
		nshards = 1
	}
	res := &vSeqResult{EndStates: map[string]int{}}
	sigs := map[string]*vViol{}
	base := t.TempDir()
	routes := []string{"GET messages", "POST message", "DELETE"}
	creds := []string{"missing", "wrong", "other-session", "one-char"}
	type job struct{ route, cred string }
	var jobs []job
	for _, r := range routes {
		for _, c := range creds {
			jobs = append(jobs, job{r, c})
		}
	}
	for ji, j := range jobs {
		if ji%nshards != shard {
			continue
		}
		dir := fmt.Sprintf("%s/o%d", base, ji)
		n, err := vStartNode(dir, true)
		if err != nil {
			t.Fatal(err)
		}
		if r := n.setConfig(vCfgFast); r.Code != 200 {
			t.Fatalf("config: %d %s", r.Code, r.Body)
		}
		O, _ := n.createSession()
		n.post(O, "NICK o", 11)
		n.post(O, "USER o 0 * :o", 12)
		T, _ := n.createSession()
		n.post(T, "NICK t", 21)
		n.post(T, "USER t 0 * :t", 22)
		seq := []string{"c11open", j.route, j.cred}
		res.Sequences++
		marker := fmt.Sprintf("still-connected-%d", ji)
		type got struct {
			msgs []robust.Message
			err  error
		}
		ch := make(chan got, 1)
		go func() {
			ms, _, err := n.stream(T, T.Auth, "", func(lines []robust.Message) bool {
				for _, m := range lines {
					if strings.HasSuffix(m.Data, marker) {
						return true
					}
				}
				return false
			})
			ch <- got{ms, err}
		}()
		time.Sleep(50 * time.Millisecond) // the victim's request is parked at the end of its stream now
		cred := map[string]string{"missing": "", "wrong": "definitely-not-the-secret", "other-session": O.Auth, "one-char": "a"}[j.cred]
		bad := vSession{Id: T.Id, Auth: cred, Num: T.Num}
		var code int
		switch j.route {
		case "GET messages":
			code = vGetStatus(n, bad).Code
		case "POST message":
			code = n.post(bad, "PRIVMSG o :forged", 777).Code
		case "DELETE":
			code = n.deleteSession(bad, "forged").Code
		}
		res.Ops++
		res.EndStates[fmt.Sprintf("%s with %s credential on a session with an open stream -> %d", j.route, j.cred, code)]++
		if code == 200 {
			res.report(sigs, "C11", "request with a refused credential is served ["+j.route+"]", fmt.Sprintf("%s with %s credential: 200", j.route, j.cred), seq)
		}
		time.Sleep(20 * time.Millisecond)
		if r := n.post(O, "PRIVMSG t :"+marker, 13); r.Code != 200 {
			t.Fatalf("marker: %d %s", r.Code, r.Body)
		}
		g := <-ch
		found := false
		for _, m := range g.msgs {
			if strings.HasSuffix(m.Data, marker) {
				found = true
			}
		}
		if !found {
			res.report(sigs, "C11", "a refused request ended the victim's open message stream ["+j.route+"]", fmt.Sprintf("%s on the victim's session with %s credential (answered %d): the victim's open GetMessages connection ended after %d messages and did not deliver the next message (%v)", j.route, j.cred, code, len(g.msgs), g.err), seq)
		}
		n.Stop()
		os.RemoveAll(dir)
	}
	b, _ := json.Marshal(res)
	if o := os.Getenv("VERIF_OUT"); o != "" {
		os.WriteFile(o, b, 0644)
	} else {
		fmt.Println(string(b))
	}
}

// TestVerifC11Body: the session a message is applied to is the one whose secret the request carried -- nothing
// in the request BODY can redirect it.  The attacker posts on its own session with its own correct secret; the
// body carries, next to Data and ClientMessageId, every other member of the replicated message structure
// (Session, Id, Type, RemoteAddr, UnixNano, Revision, Servers) naming the victim.
func TestVerifC11Body(t *testing.T) {
	shard, _ := strconv.Atoi(os.Getenv("VERIF_SHARD"))
	res := &vSeqResult{EndStates: map[string]int{}}
	sigs := map[string]*vViol{}
	if shard == 0 {
		n, err := vStartNode(t.TempDir()+"/b", true)
		if err != nil {
			t.Fatal(err)
		}
		if r := n.setConfig(vCfgFast); r.Code != 200 {
			t.Fatalf("config: %d %s", r.Code, r.Body)
		}
		A, _ := n.createSession()
		n.post(A, "NICK attacker", 11)
		n.post(A, "USER a 0 * :a", 12)
		T, _ := n.createSession()
		n.post(T, "NICK victim", 21)
		n.post(T, "USER t 0 * :t", 22)
		bodies := []string{
			`{"Data":"NICK hijacked1","ClientMessageId":101,"Session":{"Id":%d,"Reply":0}}`,
			`{"Data":"NICK hijacked2","ClientMessageId":102,"Session":{"Id":%d},"Id":{"Id":%d},"Type":2,"RemoteAddr":"6.6.6.6","UnixNano":1}`,
			`{"Data":"NICK hijacked4","ClientMessageId":104,"Type":1,"Session":{"Id":%d}}`,
			`{"Data":"NICK hijacked5","ClientMessageId":105,"Type":6,"Revision":99,"Session":{"Id":%d}}`,
			`{"Data":"QUIT :bye","ClientMessageId":103,"session":{"id":%d}}`,
		}
		for k, tmpl := range bodies {
			body := strings.ReplaceAll(tmpl, "%d", strconv.FormatUint(T.Num, 10))
			before := len(n.logEntries())
			markerT := ircserver.VerifMarker(ircServer, robust.Id{Id: T.Num})
			r := n.do("POST", "/robustirc/v1/"+A.Id+"/message", map[string]string{"X-Session-Auth": A.Auth}, body)
			res.Ops++
			res.EndStates[fmt.Sprintf("body %d -> %d", k, r.Code)]++
			seq := []string{"c11body", strconv.Itoa(k)}
			ts, err := ircServer.GetSession(robust.Id{Id: T.Num})
			if err != nil {
				res.report(sigs, "C11", "a POST on the attacker's own session ended another session (Session member in the body)", fmt.Sprintf("body %s: %v", body, err), seq)
				break
			}
			if ts.Nick != "victim" {
				res.report(sigs, "C11", "a POST on the attacker's own session was applied to another session (Session member in the body)", fmt.Sprintf("body %s: the victim's nickname is now %q", body, ts.Nick), seq)
			}
			if m := ircserver.VerifMarker(ircServer, robust.Id{Id: T.Num}); m != markerT {
				res.report(sigs, "C11", "a POST on the attacker's own session moved another session's duplicate-detection marker", fmt.Sprintf("body %s: %d -> %d", body, markerT, m), seq)
			}
			for _, e := range n.logEntries()[before:] {
				if e.Session.Id != A.Num || e.Type != robust.IRCFromClient {
					res.report(sigs, "C11", "a POST was committed with a session or type taken from the request body", fmt.Sprintf("body %s: committed entry has session %d (authenticated: %d), type %v", body, e.Session.Id, A.Num, e.Type), seq)
				}
				if e.RemoteAddr == "6.6.6.6" {
					res.report(sigs, "C11", "a POST was committed with the client address taken from the request body", fmt.Sprintf("body %s", body), seq)
				}
			}
		}
		res.Sequences++
		n.Stop()
	}
	b, _ := json.Marshal(res)
	if o := os.Getenv("VERIF_OUT"); o != "" {
		os.WriteFile(o, b, 0644)
	} else {
		fmt.Println(string(b))
	}
}
