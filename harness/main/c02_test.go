//go:build verif

package main

// C02: compaction, snapshot and restore never change the replicated state.  The real
// FSM (Apply / Snapshot / Restore), the real robustSnapshot.Persist, real LevelDB
// irclog, the real output stream and raft's FileSnapshotStore are driven through every
// schedule (up to a length) of a fixed log, and compared after every operation with a
// twin that applied the same prefix and never snapshotted.

import (
	"encoding/json"
	"errors"
	"fmt"
	"io"
	"os"
	"path/filepath"
	"regexp"
	"sort"
	"strconv"
	"strings"
	"testing"
	"time"

	"github.com/golang/protobuf/proto"
	"github.com/hashicorp/go-hclog"
	"github.com/hashicorp/raft"
	"github.com/robustirc/rafthttp"
	"github.com/robustirc/robustirc/internal/ircserver"
	"github.com/robustirc/robustirc/internal/outputstream"
	"github.com/robustirc/robustirc/internal/raftstore"
	"github.com/robustirc/robustirc/internal/robust"
)

// ---- logs -------------------------------------------------------------------------

// c02Chunk is a group of entries that share an age class; age is the chunk's position on
// the time axis (in hours from c02Epoch), so patterns like old/new/old are expressible.
type c02Chunk struct {
	Hours   int
	Gap     int // raft-internal entries (index gap) in front of the chunk
	Entries []ircserver.VEntry
}

type c02Log struct {
	Name   string
	Chunks []c02Chunk
}

const c02Epoch = int64(1600000000) * 1e9

func c02Expiration() time.Duration { return 30 * time.Minute } // SessionExpiration of c02Cfg

const c02Cfg = `SessionExpiration = "30m"
PostMessageCooloff = "0s"
[IRC]
[[IRC.Operators]]
Name = "root"
Password = "operpw"
[[IRC.Services]]
Password = "svcpw"
`

// c02MakeLog assigns indexes (= message ids, MessageOffset is 0), timestamps and session ids.
// Lines refer to sessions by the letters A,B,C; "+A" creates the session, "-A" deletes it,
// "cfg" is a config entry, "A: line" a client line.
func c02MakeLog(name string, chunks [][]string, hours []int, gaps []int) c02Log {
	l := c02Log{Name: name}
	idx := uint64(0)
	sess := map[string]uint64{}
	rev := uint64(0)
	for ci, lines := range chunks {
		ch := c02Chunk{Hours: hours[ci], Gap: gaps[ci]}
		idx += uint64(gaps[ci])
		for k, line := range lines {
			idx++
			ts := c02Epoch + int64(hours[ci])*int64(time.Hour) + int64(k)*int64(time.Second)
			e := ircserver.VEntry{Id: idx, UnixNano: ts}
			switch {
			case line == "cfg":
				rev++
				e.Type, e.Data, e.Revision = robust.Config, c02Cfg, rev
			case line == "cfg60":
				rev++
				e.Type, e.Data, e.Revision = robust.Config, strings.Replace(c02Cfg, `"30m"`, `"60m"`, 1), rev
			case strings.HasPrefix(line, "+"):
				sess[line[1:]] = idx
				e.Type, e.Data = robust.CreateSession, "auth-"+line[1:]+"-0123456789"
			case strings.HasPrefix(line, "-"):
				// "-A" or "-A <quit message>" (the quit message of DELETE is chosen by the client)
				name, reason := line[1:], "gone"
				if k := strings.Index(name, " "); k > 0 {
					name, reason = name[:k], name[k+1:]
				}
				e.Type, e.Session, e.Data = robust.DeleteSession, robust.Id{Id: sess[name]}, reason
			default:
				who, data, _ := strings.Cut(line, ": ")
				for name, at := range sess {
					data = strings.ReplaceAll(data, "{"+name+"}", fmt.Sprintf("{sess:%d}", at))
				}
				if strings.HasPrefix(who, "!") {
					// a message which crashed the server before and was marked so it is skipped
					who = who[1:]
					e.Type = robust.MessageOfDeath
					e.Session, e.Data, e.ClientMessageId, e.RemoteAddr = robust.Id{Id: sess[who]}, data, idx*3+1, "10.0.0."+strconv.Itoa(int(sess[who]))
					break
				}
				e.Type, e.Session, e.Data, e.ClientMessageId, e.RemoteAddr = robust.IRCFromClient, robust.Id{Id: sess[who]}, data, idx*3+1, "10.0.0."+strconv.Itoa(int(sess[who]))
			}
			ch.Entries = append(ch.Entries, e)
		}
		l.Chunks = append(l.Chunks, ch)
	}
	return l
}

// c02LenLog: n old entries (setup and keep-alives, 100 ms apart) followed by one recent JOIN.  Code that treats
// ranges of the log in blocks has its boundaries somewhere along this axis.
func c02LenLog(n int) c02Log {
	old := []string{"cfg", "+A", "A: NICK a", "A: USER a 0 * :A"}
	for k := len(old); k < n; k++ {
		old = append(old, fmt.Sprintf("A: PING %d", k))
	}
	l := c02MakeLog(fmt.Sprintf("len-%d", n), [][]string{old, {"A: JOIN #new"}}, []int{0, 100}, []int{0, 0})
	for k := range l.Chunks[0].Entries {
		l.Chunks[0].Entries[k].UnixNano = c02Epoch + int64(k)*int64(100*time.Millisecond)
	}
	return l
}

func c02Logs(thorough bool) []c02Log {
	setup := []string{"cfg", "+A", "A: NICK a", "A: USER a 0 * :A"}
	join := []string{"A: JOIN #c", "+B", "B: NICK b", "B: USER b 0 * :B", "B: JOIN #c"}
	talk := []string{"A: TOPIC #c :hello", "B: PRIVMSG #c :hi", "A: MODE #c +i"}
	more := []string{"B: PART #c", "+C", "C: NICK c", "A: OPER root operpw", "A: GLINE b :spam"}
	end := []string{"-A", "C: USER c 0 * :C", "C: JOIN #d"}
	logs := []c02Log{
		// everything old: a snapshot folds every stored entry
		c02MakeLog("all-old", [][]string{setup, join, talk}, []int{0, 1, 2}, []int{2, 0, 0}),
		// old -> new: only a prefix can be folded
		c02MakeLog("old-new", [][]string{setup, join, talk}, []int{0, 1, 100}, []int{2, 0, 0}),
		// raft-internal entries (index gaps) in the middle and at the end of what gets folded
		c02MakeLog("gaps", [][]string{setup, join, talk, more}, []int{0, 1, 2, 3}, []int{1, 2, 1, 3}),
		// old -> new -> old: an old entry behind a new one must be retained
		c02MakeLog("old-new-old", [][]string{setup, join, talk, more}, []int{0, 100, 1, 101}, []int{2, 0, 0, 0}),
		// sessions end, a nick-less session exists at the cut
		c02MakeLog("endings", [][]string{setup, join, more, end}, []int{0, 1, 2, 3}, []int{2, 0, 1, 0}),
		// the session expiration is raised by a second, newer config entry: folding the old config entry must
		// not bring the old (shorter) horizon back
		c02MakeLog("two-configs", [][]string{setup, {"cfg60", "A: JOIN #c"}, talk}, []int{0, 1, 2}, []int{2, 0, 1}),
		// exactly one entry is too new to be folded and it is the last one
		c02MakeLog("one-new-last", [][]string{setup, join, {"B: PRIVMSG #c :hi"}}, []int{0, 1, 100}, []int{2, 0, 0}),
		// a marked message of death is the last message of its session in what gets folded: its
		// duplicate-detection marker has to survive the fold
		c02MakeLog("death", [][]string{setup, {"A: JOIN #c", "+B", "B: NICK b", "!A: PRIVMSG #c :boom"}, {"B: USER b 0 * :B", "B: JOIN #c"}}, []int{0, 1, 2}, []int{2, 0, 0}),
		// a ban on a session host: the mask is stored twice (host pattern and the session's address at that
		// moment); both have to come back from a snapshot state
		c02MakeLog("host-ban", [][]string{setup, join, {"A: MODE #c +b *!*@robust/{B}", "B: PART #c", "A: MODE #c +b nobody!*@*"}, {"A: TOPIC #c :later"}}, []int{0, 1, 2, 100}, []int{2, 0, 0, 0}),
		// a PING has side effects when it is applied: it closes a session that is still unregistered ten minutes
		// after its creation (B here); folding such an entry has to have them as well
		c02MakeLog("stale-ping", [][]string{setup, {"+B", "A: JOIN #c"}, {"B: PING keepalive", "A: TOPIC #c :t"}, {"A: PRIVMSG #c :later"}}, []int{0, 1, 2, 100}, []int{2, 0, 0, 0}),
		// a services link and a pseudo-client are folded into the snapshot state; the link acts afterwards
		c02MakeLog("services-link", [][]string{setup, {"A: JOIN #c", "+S", "S: PASS :services=svcpw", "S: SERVER services.robustirc.net 1 :Services", "S: NICK ChanServ 1 1422134861 services robustirc.net services.robustirc.net 0 :Channel Services", "S: :ChanServ JOIN #c"}, {"S: SVSMODE a +r", "S: :ChanServ PRIVMSG #c :hello", "S: :services.robustirc.net SVSJOIN a #d", "S: :ChanServ TOPIC #d ChanServ 0 :topic with time zero"}, {"S: :ChanServ TOPIC #c ChanServ 1422134861 :topic", "A: TOPIC #d", "A: PRIVMSG #c :later"}}, []int{0, 1, 2, 100}, []int{2, 0, 1, 0}),
		// all new: nothing may ever be folded
		c02MakeLog("all-new", [][]string{setup, join}, []int{100, 101}, []int{2, 0}),
	}
	if thorough {
		logs = append(logs,
			c02MakeLog("long", [][]string{setup, join, talk, more, end}, []int{0, 1, 2, 3, 4}, []int{2, 1, 0, 2, 0}),
			c02MakeLog("new-old", [][]string{setup, join, talk}, []int{100, 0, 1}, []int{2, 0, 0}),
		)
	}
	return logs
}

// c02Msg translates an entry from raft-index space (in which the logs are written: Id = raft index,
// Session = index of the CreateSession entry) into message-id space (ids = MessageOffset + index).
var c02SessRe = regexp.MustCompile(`\{sess:(\d+)\}`)

func c02Msg(e ircserver.VEntry) ircserver.VEntry {
	// "{sess:N}" in a line stands for the host form of the session created at raft index N (robust/0x<id>)
	if strings.Contains(e.Data, "{sess:") {
		e.Data = c02SessRe.ReplaceAllStringFunc(e.Data, func(m string) string {
			n, _ := strconv.ParseUint(c02SessRe.FindStringSubmatch(m)[1], 10, 64)
			return fmt.Sprintf("0x%x", robust.IdFromRaftIndex(n))
		})
	}
	e.Id = robust.IdFromRaftIndex(e.Id)
	if e.Session.Id != 0 {
		e.Session.Id = robust.IdFromRaftIndex(e.Session.Id)
	}
	return e
}

func c02Encode(e ircserver.VEntry) []byte { return c02EncodeAs(e, *useProtobuf) }

func c02EncodeAs(e ircserver.VEntry, asProto bool) []byte {
	me := c02Msg(e)
	m := me.Msg()
	m.Id = robust.Id{} // the API leaves the id to the raft index
	if asProto {
		b, err := proto.Marshal(m.ProtoMessage())
		if err != nil {
			panic(err)
		}
		return append([]byte{'p'}, b...)
	}
	b, err := json.Marshal(m)
	if err != nil {
		panic(err)
	}
	return b
}

// ---- world ---------------------------------------------------------------------------

type c02World struct {
	dir              string
	log              c02Log
	fsm              *FSM
	fss              *raft.FileSnapshotStore
	applied          []ircserver.VEntry // every command entry applied so far, in order (the "raft log")
	nextChunk        int
	pending          *robustSnapshot
	pendingIx        uint64
	persisted        []uint64 // raft indexes of successfully persisted snapshots
	twin             *ircserver.VInst
	twinOut          map[uint64][]*robust.Message
	maxCompactionEnd time.Time
	snapErr          string
}

func c02Open(dir string, fresh bool) (*FSM, error) {
	*raftDir = dir
	*network = vNetName
	if err := outputstream.DeleteOldDatabases(dir); err != nil {
		return nil, err
	}
	ircServer = ircserver.NewIRCServer(*network, time.Unix(0, ircserver.VerifT0))
	var err error
	outputStream, err = outputstream.NewOutputStream(dir)
	if err != nil {
		return nil, err
	}
	logStore, err := raftstore.NewLevelDBStore(filepath.Join(dir, "raftlog"), false, *useProtobuf)
	if err != nil {
		return nil, err
	}
	ircStore, err = raftstore.NewLevelDBStore(filepath.Join(dir, "irclog"), false, *useProtobuf)
	if err != nil {
		return nil, err
	}
	return &FSM{
		store:             logStore,
		ircstore:          ircStore,
		lastSnapshotState: make(map[uint64][]byte),
		ReplaceState:      func(*ircserver.IRCServer, *raftstore.LevelDBStore, *outputstream.OutputStream) {},
	}, nil
}

func c02NewWorld(dir string, l c02Log) (*c02World, error) {
	if err := os.MkdirAll(dir, 0700); err != nil {
		return nil, err
	}
	fsm, err := c02Open(dir, true)
	if err != nil {
		return nil, err
	}
	fss, err := raft.NewFileSnapshotStoreWithLogger(dir, 5, hclog.New(&hclog.LoggerOptions{Output: io.Discard, Level: hclog.Off}))
	if err != nil {
		return nil, err
	}
	return &c02World{dir: dir, log: l, fsm: fsm, fss: fss, twin: ircserver.VerifNewInst(), twinOut: map[uint64][]*robust.Message{}}, nil
}

func (w *c02World) close() {
	w.fsm.store.Close()
	w.fsm.ircstore.Close()
	outputStream.Close()
}

func (w *c02World) raftLog(e ircserver.VEntry) *raft.Log {
	return &raft.Log{Index: e.Id, Term: 1, Type: raft.LogCommand, Data: c02Encode(e), AppendedAt: time.Unix(1700000000, 0)}
}

func (w *c02World) lastIndex() uint64 {
	if len(w.applied) == 0 {
		return 0
	}
	return w.applied[len(w.applied)-1].Id
}

// opApply applies the next chunk on the node and on the twin.
func (w *c02World) opApply() {
	ch := w.log.Chunks[w.nextChunk]
	w.nextChunk++
	for _, e := range ch.Entries {
		w.fsm.Apply(w.raftLog(e))
		st := w.twin.Apply(c02Msg(e))
		w.twinOut[e.Id] = st.Msgs
		w.applied = append(w.applied, e)
	}
}

// horizon returns the compaction start that makes exactly the chunks with Hours <= h "old".
func c02CompactionStart(hours int, inclusive bool) int64 {
	exp := c02Expiration() + expireSessionsInterval
	// the newest entry of an hour class is at most 59 s after the full hour
	t := c02Epoch + int64(hours)*int64(time.Hour) + int64(59*time.Second) + int64(exp)
	if !inclusive {
		t = c02Epoch + int64(hours)*int64(time.Hour) + int64(exp) - 1
	}
	return t
}

func (w *c02World) opSnapshot(cs int64) {
	*canaryCompactionStart = cs
	// the horizon of the property: configured session expiration + 10 s (taken from the twin's
	// configuration, not from what the FSM happens to use)
	w.twin.Srv.ConfigMu.RLock()
	exp := time.Duration(w.twin.Srv.Config.SessionExpiration)
	w.twin.Srv.ConfigMu.RUnlock()
	ce := time.Unix(0, cs).Add(-(exp + expireSessionsInterval))
	s, err := w.fsm.Snapshot()
	if err != nil {
		w.snapErr = err.Error()
		w.pending = nil
		return
	}
	if ce.After(w.maxCompactionEnd) {
		w.maxCompactionEnd = ce
	}
	w.pending = s.(*robustSnapshot)
	w.pendingIx = w.lastIndex()
}

type c02FailSink struct {
	raft.SnapshotSink
	failAt int
	writes int
}

func (s *c02FailSink) Write(p []byte) (int, error) {
	if s.writes == s.failAt {
		return 0, errors.New("injected write failure")
	}
	s.writes++
	return s.SnapshotSink.Write(p)
}

// opPersist persists the pending snapshot; failAt >= 0 makes the failAt-th write of the sink fail.
func (w *c02World) opPersist(failAt int) error {
	time.Sleep(1100 * time.Microsecond) // raft names snapshots by term-index-millisecond
	sink, err := w.fss.Create(1, w.pendingIx, 1, raft.Configuration{}, 0, &rafthttp.HTTPTransport{})
	if err != nil {
		return fmt.Errorf("HARNESS: fss.Create: %v", err)
	}
	var target raft.SnapshotSink = sink
	if failAt >= 0 {
		target = &c02FailSink{SnapshotSink: sink, failAt: failAt}
	}
	perr := w.pending.Persist(target)
	if perr != nil {
		sink.Cancel()
	} else {
		if err := sink.Close(); err != nil {
			return fmt.Errorf("HARNESS: sink.Close: %v", err)
		}
		w.persisted = append(w.persisted, w.pendingIx)
	}
	w.pending.Release()
	w.pending = nil
	if failAt >= 0 && perr == nil {
		return nil // fewer writes than failAt: persisted normally
	}
	return nil
}

// restoreLatest does what raft does with the newest snapshot: FSM.Restore, then the entries above
// the snapshot index are applied again.
func (w *c02World) restoreLatest() error {
	snaps, err := w.fss.List()
	if err != nil {
		return fmt.Errorf("HARNESS: fss.List: %v", err)
	}
	from := uint64(0)
	if len(snaps) > 0 {
		_, rc, err := w.fss.Open(snaps[0].ID)
		if err != nil {
			return fmt.Errorf("HARNESS: fss.Open: %v", err)
		}
		if err := w.fsm.Restore(rc); err != nil {
			return fmt.Errorf("Restore failed: %v", err)
		}
		from = snaps[0].Index
	}
	for _, e := range w.applied {
		if e.Id > from {
			w.fsm.Apply(w.raftLog(e))
		}
	}
	return nil
}

// opRestart: the process is killed between two operations and started again on the same directory.
func (w *c02World) opRestart() error {
	w.close()
	w.pending = nil
	fsm, err := c02Open(w.dir, false)
	if err != nil {
		return fmt.Errorf("HARNESS: reopen: %v", err)
	}
	w.fsm = fsm
	return w.restoreLatest()
}

// opRestore: a snapshot is installed on the live FSM (as raft does for a follower that is too far
// behind; the snapshot here is the node's own newest one), followed by the tail of the log.
func (w *c02World) opRestore() error {
	w.pending = nil
	if snaps, _ := w.fss.List(); len(snaps) == 0 {
		return nil // nothing to install (an earlier snapshot or persist did not succeed)
	}
	return w.restoreLatest()
}

// ---- oracle ---------------------------------------------------------------------------------

var c02CreationRe = regexp.MustCompile(`creation=-?[0-9]+`)

func c02Recips(m map[uint64]bool) string {
	var rs []string
	for id, ok := range m {
		if ok {
			rs = append(rs, strconv.FormatUint(id, 10))
		}
	}
	sort.Strings(rs)
	return strings.Join(rs, ",")
}

// check compares the node with the twin; it returns (signature, description) pairs.
func (w *c02World) check(after string) [][2]string {
	var bad [][2]string
	add := func(sig, desc string) { bad = append(bad, [2]string{sig + " [after " + after + "]", desc}) }
	// the server start time (numeric 003) is the one tolerated difference between replicas
	d1 := c02CreationRe.ReplaceAllString(ircserver.VerifDump(ircServer, ircserver.VerifDumpOpts{}), "creation=X")
	d2 := c02CreationRe.ReplaceAllString(ircserver.VerifDump(w.twin.Srv, ircserver.VerifDumpOpts{}), "creation=X")
	if d1 != d2 {
		la, lb := strings.Split(d1, "\n"), strings.Split(d2, "\n")
		detail := fmt.Sprintf("%d vs %d lines", len(la), len(lb))
		for k := 0; k < len(la) && k < len(lb); k++ {
			if la[k] != lb[k] {
				detail = fmt.Sprintf("node %q, never-snapshotted twin %q", la[k], lb[k])
				break
			}
		}
		kind := "state differs from a node that never snapshotted"
		if len(ircServer.GetSessions()) == 0 && len(w.twin.Srv.GetSessions()) > 0 {
			kind = "all sessions lost"
		}
		add(kind, detail)
	}
	// irclog contents
	keys := map[uint64]bool{}
	it := w.fsm.ircstore.GetBulkIterator(0, ^uint64(0))
	for it.Next() {
		k := it.Key()
		if len(k) == 8 {
			var idx uint64
			for _, b := range k {
				idx = idx<<8 | uint64(b)
			}
			keys[idx] = true
		}
	}
	it.Release()
	appliedIds := map[uint64]bool{}
	seenRetained := false
	for _, e := range w.applied {
		appliedIds[e.Id] = true
		if keys[e.Id] {
			seenRetained = true
			var l raft.Log
			if err := w.fsm.ircstore.GetLog(e.Id, &l); err != nil {
				add("retained entry cannot be read back", fmt.Sprintf("index %d: %v", e.Id, err))
			} else if (string(l.Data) != string(c02EncodeAs(e, true)) && string(l.Data) != string(c02EncodeAs(e, false))) || l.Index != e.Id {
				// (either encoding of the same message: during a rolling upgrade a node stores entries it got from
				// a snapshot of a node with the other encoding verbatim)
				add("retained entry differs from what was applied", fmt.Sprintf("index %d", e.Id))
			}
			continue
		}
		// dropped
		if seenRetained {
			add("an entry behind a retained one was dropped (dropped entries are not a prefix)", fmt.Sprintf("index %d", e.Id))
		}
		if time.Unix(0, e.UnixNano).After(w.maxCompactionEnd) {
			add("an entry newer than the compaction horizon was dropped from the log copy", fmt.Sprintf("index %d, timestamp %v, horizon %v", e.Id, time.Unix(0, e.UnixNano).UTC(), w.maxCompactionEnd.UTC()))
		}
	}
	for k := range keys {
		if !appliedIds[k] {
			add("log copy contains an entry that was never applied", fmt.Sprintf("index %d", k))
		}
	}
	first, _ := w.fsm.ircstore.FirstIndex()
	last, _ := w.fsm.ircstore.LastIndex()
	var min, max uint64
	for k := range keys {
		if min == 0 || k < min {
			min = k
		}
		if k > max {
			max = k
		}
	}
	if first != min || last != max {
		add("FirstIndex/LastIndex inconsistent with the log copy", fmt.Sprintf("first=%d last=%d, keys %d..%d", first, last, min, max))
	}
	// outputs
	for _, e := range w.applied {
		want := w.twinOut[e.Id]
		got, ok := outputStream.Get(robust.Id{Id: robust.IdFromRaftIndex(e.Id)})
		if !keys[e.Id] {
			if ok {
				add("output of a folded entry is still served", fmt.Sprintf("input %d", e.Id))
			}
			continue
		}
		if ok != (len(want) > 0) {
			add("output of a retained entry is missing or unexpected", fmt.Sprintf("input %d (%s): stream has it=%v, twin produced %d replies", e.Id, e.String(), ok, len(want)))
			continue
		}
		if !ok {
			continue
		}
		same := len(got) == len(want)
		for k := 0; same && k < len(got); k++ {
			if strings.Contains(got[k].Data, " 003 ") && strings.Contains(want[k].Data, " 003 ") {
				continue
			}
			if got[k].Id != want[k].Id || got[k].Data != want[k].Data || c02Recips(got[k].InterestingFor) != c02Recips(want[k].InterestingFor) {
				same = false
			}
		}
		if !same {
			add("output of a retained entry differs from the never-snapshotted node", fmt.Sprintf("input %d (%s)", e.Id, e.String()))
		}
	}
	return bad
}

// ---- schedules ----------------------------------------------------------------------------------

// c02Schedules enumerates all operation sequences of the given length that are enabled on the abstract
// state (chunks applied, snapshot pending, snapshots persisted).
func c02Schedules(l c02Log, length int) [][]string {
	var out [][]string
	hoursSet := map[int]bool{}
	for _, c := range l.Chunks {
		hoursSet[c.Hours] = true
	}
	var rec func(cur []string, applied int, pending bool, persisted int)
	rec = func(cur []string, applied int, pending bool, persisted int) {
		if len(cur) == length {
			out = append(out, append([]string(nil), cur...))
			return
		}
		ext := func(op string, a int, p bool, s int) { rec(append(cur, op), a, p, s) }
		if applied < len(l.Chunks) {
			ext("apply", applied+1, pending, persisted)
		}
		if applied > 0 && !pending {
			// compaction times: nothing old, each applied age class (inclusive), everything old
			seen := map[int]bool{}
			ext("snap:none", applied, true, persisted)
			for k := 0; k < applied; k++ {
				h := l.Chunks[k].Hours
				if !seen[h] {
					seen[h] = true
					ext(fmt.Sprintf("snap:%d", h), applied, true, persisted)
				}
			}
			// a compaction time that puts the newest applied chunk between "10 minutes" and the
			// configured expiration (30 minutes): it must not be folded
			ext(fmt.Sprintf("snapmid:%d", l.Chunks[applied-1].Hours), applied, true, persisted)
			if l.Name == "two-configs" {
				// 45 minutes after the newest chunk: inside a 60 minute horizon, outside a 30 minute one
				ext(fmt.Sprintf("snap45:%d", l.Chunks[applied-1].Hours), applied, true, persisted)
			}
			// the common case as one step: snapshot immediately followed by a successful persist
			seen = map[int]bool{}
			for k := 0; k < applied; k++ {
				h := l.Chunks[k].Hours
				if !seen[h] {
					seen[h] = true
					ext(fmt.Sprintf("snapP:%d", h), applied, false, persisted+1)
				}
			}
		}
		if pending {
			ext("persist", applied, false, persisted+1)
			ext("persist-fail0", applied, false, persisted)
			ext("persist-fail2", applied, false, persisted)
		}
		if applied > 0 {
			ext("restart", applied, false, persisted)
			if persisted > 0 {
				ext("restore", applied, false, persisted)
			}
		}
	}
	rec(nil, 0, false, 0)
	return out
}

func (w *c02World) run(op string) error {
	switch {
	case op == "apply":
		w.opApply()
	case op == "snap:none":
		w.opSnapshot(c02Epoch - int64(time.Hour))
	case strings.HasPrefix(op, "snapP:"):
		h, _ := strconv.Atoi(op[6:])
		w.opSnapshot(c02CompactionStart(h, true))
		if w.pending != nil {
			return w.opPersist(-1)
		}
	case strings.HasPrefix(op, "snap45:"):
		h, _ := strconv.Atoi(op[7:])
		w.opSnapshot(c02Epoch + int64(h)*int64(time.Hour) + int64(59*time.Second) + int64(45*time.Minute) + int64(expireSessionsInterval))
	case strings.HasPrefix(op, "snapmid:"):
		h, _ := strconv.Atoi(op[8:])
		w.opSnapshot(c02Epoch + int64(h)*int64(time.Hour) + int64(59*time.Second) + int64(20*time.Minute) + int64(expireSessionsInterval))
	case strings.HasPrefix(op, "snap:"):
		h, _ := strconv.Atoi(op[5:])
		w.opSnapshot(c02CompactionStart(h, true))
	case op == "persist":
		if w.pending != nil {
			return w.opPersist(-1)
		}
	case op == "persist-fail0":
		if w.pending != nil {
			return w.opPersist(0)
		}
	case op == "persist-fail2":
		if w.pending != nil {
			return w.opPersist(2)
		}
	case op == "restart":
		return w.opRestart()
	case op == "restore":
		return w.opRestore()
	}
	return nil
}

func TestVerifC02(t *testing.T) {
	shard, _ := strconv.Atoi(os.Getenv("VERIF_SHARD"))
	nshards, _ := strconv.Atoi(os.Getenv("VERIF_NSHARDS"))
	if nshards == 0 {
		nshards = 1
	}
	thorough := os.Getenv("VERIF_TIER") == "thorough"
	length := 5
	if thorough {
		length = 6
	}
	if d := os.Getenv("VERIF_DEPTH"); d != "" {
		length, _ = strconv.Atoi(d)
	}
	var deadline time.Time
	if d := os.Getenv("VERIF_DEADLINE"); d != "" {
		sec, _ := strconv.ParseInt(d, 10, 64)
		deadline = time.Unix(sec, 0)
	}
	if err := ircserver.VerifCheckInventory(); err != nil {
		t.Fatal(err)
	}
	res := &vSeqResult{EndStates: map[string]int{}, Depth: length}
	sigs := map[string]*vViol{}
	base := t.TempDir()
	type job struct {
		log c02Log
		seq []string
		pb  bool
	}
	var jobs []job
	encs := []bool{true, false}
	for _, pb := range encs {
		for _, l := range c02Logs(thorough) {
			// the legacy JSON encoding: all logs in the thorough tier, two of them in the quick tier
			if !pb && !thorough && l.Name != "old-new" && l.Name != "gaps" {
				continue
			}
			for _, s := range c02Schedules(l, length) {
				jobs = append(jobs, job{l, s, pb})
			}
		}
	}
	// length sweep: every number of old entries from 4 to 260 (thorough: 520) in front of one recent entry;
	// snapshot that folds the old ones, persist, restart
	maxLen := 260
	if thorough {
		maxLen = 520
	}
	for n := 4; n <= maxLen; n++ {
		jobs = append(jobs, job{c02LenLog(n), []string{"apply", "apply", "snapP:0", "restart"}, true})
	}
	if rp := os.Getenv("VERIF_REPLAY"); rp != "" {
		b, _ := os.ReadFile(rp)
		var v vViol
		json.Unmarshal(b, &v)
		jobs = nil
		if len(v.Seq) > 2 && strings.HasPrefix(v.Seq[0], "len-") {
			n, _ := strconv.Atoi(v.Seq[0][4:])
			jobs = append(jobs, job{c02LenLog(n), v.Seq[2:], v.Seq[1] == "protobuf"})
		}
		for _, l := range c02Logs(true) {
			if len(v.Seq) > 0 && l.Name == v.Seq[0] {
				jobs = append(jobs, job{l, v.Seq[2:], v.Seq[1] == "protobuf"})
			}
		}
		nshards, shard = 1, 0
	}
	folded := 0
	for ji, j := range jobs {
		if ji%nshards != shard {
			continue
		}
		if !deadline.IsZero() && time.Now().After(deadline) {
			res.HarnessErr = "time cap reached"
			break
		}
		*useProtobuf = j.pb
		// message ids = MessageOffset + raft index: every other schedule runs with the production default
		robust.MessageOffset = 0
		if ji%2 == 1 {
			robust.MessageOffset = 4648398125000000000
		}
		enc := "protobuf"
		if !j.pb {
			enc = "json"
		}
		dir := fmt.Sprintf("%s/w%d", base, ji)
		w, err := c02NewWorld(dir, j.log)
		if err != nil {
			t.Fatal(err)
		}
		res.Sequences++
		full := append([]string{j.log.Name, enc}, j.seq...)
		for oi, op := range j.seq {
			res.Ops++
			var herr error
			var perr interface{}
			func() {
				defer func() { perr = recover() }()
				herr = w.run(op)
			}()
			switch {
			case op == "restart":
				res.Restarts++
			case strings.HasPrefix(op, "snap"):
				res.Snapshots++
			}
			if perr != nil {
				res.report(sigs, "C02", "panic during "+strings.SplitN(op, ":", 2)[0], fmt.Sprintf("log %s, schedule %v, op %d: %v", j.log.Name, j.seq, oi, perr), full)
				break
			}
			if herr != nil {
				if strings.HasPrefix(herr.Error(), "HARNESS") {
					res.HarnessErr = herr.Error()
				} else {
					res.report(sigs, "C02", "operation failed: "+strings.SplitN(herr.Error(), ":", 2)[0], fmt.Sprintf("log %s, schedule %v, op %d (%s): %v", j.log.Name, j.seq, oi, op, herr), full)
				}
				break
			}
			for _, b := range w.check(strings.SplitN(op, ":", 2)[0]) {
				res.report(sigs, "C02", b[0], fmt.Sprintf("log %s (%s), schedule %v, after op %d (%s): %s", j.log.Name, enc, j.seq, oi, op, b[1]), full)
			}
		}
		// how much was folded in the end (non-vacuity)
		n := 0
		it := w.fsm.ircstore.GetBulkIterator(0, ^uint64(0))
		for it.Next() {
			n++
		}
		it.Release()
		if n < len(w.applied) {
			folded++
		}
		if strings.HasPrefix(j.log.Name, "len-") {
			res.EndStates[fmt.Sprintf("len-N (length sweep): all but %d folded, %d snapshots persisted", n, len(w.persisted))]++
		} else {
			res.EndStates[fmt.Sprintf("%s: %d applied, %d retained, %d snapshots persisted", j.log.Name, len(w.applied), n, len(w.persisted))]++
		}
		if len(res.Samples) < 4 && ji%211 == shard {
			res.Samples = append(res.Samples, fmt.Sprintf("log %s (%s) schedule %v: %d entries applied, %d retained in the log copy, %d snapshots persisted", j.log.Name, enc, j.seq, len(w.applied), n, len(w.persisted)))
		}
		w.close()
		os.RemoveAll(dir)
		if res.HarnessErr != "" && res.HarnessErr != "time cap reached" {
			break
		}
	}
	res.Retries = folded // reported as schedules_that_folded by the driver
	b, _ := json.Marshal(res)
	if o := os.Getenv("VERIF_OUT"); o != "" {
		os.WriteFile(o, b, 0644)
	} else {
		fmt.Println(string(b))
	}
}
