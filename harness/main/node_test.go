//go:build verif

package main

// In-process single-node network for the API tiers (C05 tier 2, C10, C11, C15 API, C16):
// real hashicorp/raft (in-memory transport, 20 ms timers), the real FSM, real LevelDB
// raftlog/irclog, raft's FileSnapshotStore and the real api.HTTP handlers driven through
// httptest.  The construction mirrors main() of robustirc.go (which cannot be called
// in-process: flags, TLS listener, log.Fatal).

import (
	"bufio"
	"bytes"
	"context"
	"encoding/json"
	"fmt"
	"io"
	"log"
	"net/http"
	"net/http/httptest"
	"os"
	"path/filepath"
	"runtime"
	"strconv"
	"strings"
	"sync"
	"time"

	"github.com/golang/protobuf/proto"
	"github.com/hashicorp/go-hclog"
	"github.com/hashicorp/raft"
	"github.com/robustirc/rafthttp"
	"github.com/robustirc/robustirc/internal/api"
	"github.com/robustirc/robustirc/internal/ircserver"
	"github.com/robustirc/robustirc/internal/outputstream"
	"github.com/robustirc/robustirc/internal/raftstore"
	"github.com/robustirc/robustirc/internal/robust"
)

const (
	vNetPassword = "networkpw"
	vNetName     = "robustirc.net"
	vPeerAddr    = "node1.example:13001"
)

// vGateFSM is the FSM handed to raft: the real FSM, except that Persist of a snapshot can be held back
// by the harness.  raft calls FSM.Snapshot on the goroutine that applies entries and Persist later on
// another one; entries that are applied in between are the window the harness opens with the gate.
type vGateFSM struct {
	*FSM
	mu    sync.Mutex
	gate  chan struct{} // nil: not armed
	taken chan struct{}
}

type vGateSnap struct {
	raft.FSMSnapshot
	g *vGateFSM
}

func (g *vGateFSM) Snapshot() (raft.FSMSnapshot, error) {
	s, err := g.FSM.Snapshot()
	if err != nil {
		return s, err
	}
	return &vGateSnap{s, g}, nil
}

func (s *vGateSnap) Persist(sink raft.SnapshotSink) error {
	s.g.mu.Lock()
	gate, taken := s.g.gate, s.g.taken
	s.g.mu.Unlock()
	if gate != nil {
		select {
		case taken <- struct{}{}:
		default:
		}
		<-gate
	}
	return s.FSMSnapshot.Persist(sink)
}

// applyStamped commits a message the way the API does, but with the timestamp given (the API stamps with its own
// clock: this is a leader whose clock differs from the previous leader's).
func (n *vNode) applyStamped(m *robust.Message, unixNano int64) error {
	m.UnixNano = unixNano
	var data []byte
	if *useProtobuf {
		b, err := proto.Marshal(m.ProtoMessage())
		if err != nil {
			return err
		}
		data = append([]byte{'p'}, b...)
	} else {
		b, err := json.Marshal(m)
		if err != nil {
			return err
		}
		data = b
	}
	return n.raft.Apply(data, 10*time.Second).Error()
}

// snapshotWith forces a raft snapshot and runs f after FSM.Snapshot returned and before Persist starts.
func (n *vNode) snapshotWith(f func()) error {
	g := n.gate
	g.mu.Lock()
	g.gate, g.taken = make(chan struct{}), make(chan struct{}, 1)
	gate, taken := g.gate, g.taken
	g.mu.Unlock()
	fut := n.raft.Snapshot()
	ferr := make(chan error, 1)
	go func() { ferr <- fut.Error() }()
	var err error
	finished := false
	select {
	case <-taken:
		f()
	case err = <-ferr:
		finished = true // the snapshot ended (was refused) before Persist was reached: f does not run
	case <-time.After(30 * time.Second):
	}
	close(gate)
	g.mu.Lock()
	g.gate = nil
	g.mu.Unlock()
	if !finished {
		err = <-ferr
	}
	return err
}

type vNode struct {
	logcache *raft.LogCache // what raft's replication reads from (in front of logStore, as in main())
	gate     *vGateFSM
	dir      string
	raft     *raft.Raft
	fsm      *FSM
	api      *api.HTTP
	logStore *raftstore.LevelDBStore
	fss      *raft.FileSnapshotStore
	trans    *raft.InmemTransport
}

// vStartNode starts (bootstrap=true: creates) a single-node network on dir and waits for leadership.
func vStartNode(dir string, bootstrap bool) (*vNode, error) {
	return vStartNodeAs(dir, bootstrap, false)
}

// vStartFollower starts a node that is a member of a two-server configuration whose other server does
// not exist: it never becomes leader and applies nothing by itself.  The harness feeds its FSM directly
// (FSM.Apply), which is what replication does on a follower that lags behind.
func vStartFollower(dir string) (*vNode, error) { return vStartNodeAs(dir, true, true) }

// vStartQuietFollower is the same with election timers of an hour: the node stays in raft state Follower
// (vStartFollower's node times out after 20 ms and is a Candidate from then on).
func vStartQuietFollower(dir string) (*vNode, error) {
	vQuietTimers = true
	defer func() { vQuietTimers = false }()
	return vStartNodeAs(dir, true, true)
}

var vQuietTimers bool

func vStartNodeAs(dir string, bootstrap, follower bool) (*vNode, error) {
	log.SetOutput(io.Discard)
	// -pre1.0_protobuf: the flag default (protobuf) unless the driver asks for the legacy JSON encoding
	// ("json-upgrade": the network starts with the legacy encoding and every node start after the first one runs
	// with protobuf: opening the stores converts them)
	enc := os.Getenv("VERIF_ENCODING")
	*useProtobuf = !(enc == "json" || enc == "json-upgrade" && bootstrap)
	// message ids = offset + raft index; main() sets the offset from a flag whose default is this value
	robust.MessageOffset = 4648398125000000000
	if o := os.Getenv("VERIF_MSGOFFSET"); o != "" {
		robust.MessageOffset, _ = strconv.ParseUint(o, 10, 64)
	}
	*raftDir = dir
	*network = vNetName
	*peerAddr = vPeerAddr
	*networkPassword = vNetPassword
	if err := os.MkdirAll(dir, 0700); err != nil {
		return nil, err
	}
	if err := outputstream.DeleteOldDatabases(dir); err != nil {
		return nil, err
	}
	ircServer = ircserver.NewIRCServer(*network, time.Unix(0, ircserver.VerifT0))
	var err error
	outputStream, err = outputstream.NewOutputStream(dir)
	if err != nil {
		return nil, err
	}
	config := raft.DefaultConfig()
	config.Logger = hclog.New(&hclog.LoggerOptions{Output: io.Discard, Level: hclog.Off})
	config.HeartbeatTimeout = 20 * time.Millisecond
	config.ElectionTimeout = 20 * time.Millisecond
	config.LeaderLeaseTimeout = 20 * time.Millisecond
	config.CommitTimeout = 2 * time.Millisecond
	if vQuietTimers {
		config.HeartbeatTimeout, config.ElectionTimeout, config.LeaderLeaseTimeout = time.Hour, time.Hour, time.Hour
	}
	config.SnapshotInterval = 24 * time.Hour
	config.SnapshotThreshold = 1 << 40
	config.TrailingLogs = 1 << 20
	config.LocalID = raft.ServerID(vPeerAddr)
	fss, err := raft.NewFileSnapshotStoreWithLogger(dir, 5, config.Logger)
	if err != nil {
		return nil, err
	}
	logStore, err := raftstore.NewLevelDBStore(filepath.Join(dir, "raftlog"), bootstrap, *useProtobuf)
	if err != nil {
		return nil, err
	}
	ircStore, err = raftstore.NewLevelDBStore(filepath.Join(dir, "irclog"), bootstrap, *useProtobuf)
	if err != nil {
		return nil, err
	}
	fsm := &FSM{
		store:             logStore,
		ircstore:          ircStore,
		lastSnapshotState: make(map[uint64][]byte),
		ReplaceState:      func(*ircserver.IRCServer, *raftstore.LevelDBStore, *outputstream.OutputStream) {},
	}
	logcache, err := raft.NewLogCache(512, logStore)
	if err != nil {
		return nil, err
	}
	_, trans := raft.NewInmemTransport(raft.ServerAddress(vPeerAddr))
	gate := &vGateFSM{FSM: fsm}
	r, err := raft.NewRaft(config, gate, logcache, logStore, fss, trans)
	if err != nil {
		return nil, err
	}
	node = r
	if bootstrap {
		servers := []raft.Server{{ID: config.LocalID, Address: raft.ServerAddress(vPeerAddr)}}
		if follower {
			servers = append(servers, raft.Server{ID: "ghost.example:13001", Address: "ghost.example:13001"})
		}
		if err := r.BootstrapCluster(raft.Configuration{Servers: servers}).Error(); err != nil {
			return nil, err
		}
	}
	h := api.NewHTTP(ircServer, r, ircStore, outputStream, &rafthttp.HTTPTransport{}, *network, *networkPassword, dir, vPeerAddr, *useProtobuf, 3)
	fsm.ReplaceState = h.ReplaceState
	n := &vNode{dir: dir, raft: r, fsm: fsm, api: h, logStore: logStore, fss: fss, trans: trans, gate: gate, logcache: logcache}
	if follower {
		return n, nil
	}
	deadline := time.Now().Add(60 * time.Second)
	for r.State() != raft.Leader {
		if time.Now().After(deadline) {
			return nil, fmt.Errorf("HARNESS: node did not become leader within 60s")
		}
		time.Sleep(time.Millisecond)
	}
	// a barrier makes sure every entry of the restored log has been applied
	if err := r.Barrier(60 * time.Second).Error(); err != nil {
		return nil, err
	}
	return n, nil
}

// Stop shuts the node down (graceful: like SIGTERM).  Directory contents stay.
func (n *vNode) Stop() {
	n.raft.Shutdown().Error()
	n.logStore.Close()
	n.fsm.ircstore.Close()
	outputStream.Close()
}

type vResp struct {
	Code   int
	Body   string
	Header http.Header
}

func (n *vNode) do(method, path string, hdr map[string]string, body string, basicAuth ...string) vResp {
	req := httptest.NewRequest(method, "https://"+vPeerAddr+path, strings.NewReader(body))
	req.RemoteAddr = "192.0.2.10:4711"
	for k, v := range hdr {
		req.Header.Set(k, v)
	}
	if len(basicAuth) == 2 {
		req.SetBasicAuth(basicAuth[0], basicAuth[1])
	}
	w := httptest.NewRecorder()
	if strings.HasPrefix(path, "/robustirc/v1/") {
		n.api.DispatchPublic(w, req)
	} else {
		n.api.DispatchPrivate(w, req)
	}
	return vResp{Code: w.Code, Body: w.Body.String(), Header: w.Result().Header}
}

func (n *vNode) admin(method, path string, hdr map[string]string, body string) vResp {
	return n.do(method, path, hdr, body, "robustirc", vNetPassword)
}

// setConfig posts a configuration with the revision currently in force.
func (n *vNode) setConfig(toml string) vResp {
	g := n.admin("GET", "/config", nil, "")
	return n.admin("POST", "/config", map[string]string{"X-RobustIRC-Config-Revision": g.Header.Get("X-RobustIRC-Config-Revision")}, toml)
}

type vSession struct {
	Id   string
	Auth string
	Num  uint64
}

func (n *vNode) createSession() (vSession, vResp) {
	r := n.do("POST", "/robustirc/v1/session", nil, "")
	var s struct{ Sessionid, Sessionauth, Prefix string }
	json.Unmarshal([]byte(r.Body), &s)
	num, _ := strconv.ParseUint(s.Sessionid, 0, 64)
	return vSession{Id: s.Sessionid, Auth: s.Sessionauth, Num: num}, r
}

func (n *vNode) post(s vSession, data string, cmid uint64) vResp {
	b, _ := json.Marshal(struct {
		Data            string
		ClientMessageId uint64
	}{data, cmid})
	return n.do("POST", "/robustirc/v1/"+s.Id+"/message", map[string]string{"X-Session-Auth": s.Auth}, string(b))
}

func (n *vNode) deleteSession(s vSession, quitmsg string) vResp {
	b, _ := json.Marshal(struct{ Quitmessage string }{quitmsg})
	return n.do("DELETE", "/robustirc/v1/"+s.Id, map[string]string{"X-Session-Auth": s.Auth}, string(b))
}

type vSafeBuf struct {
	mu  sync.Mutex
	buf bytes.Buffer
}

func (b *vSafeBuf) Write(p []byte) (int, error) {
	b.mu.Lock()
	defer b.mu.Unlock()
	return b.buf.Write(p)
}
func (b *vSafeBuf) String() string { b.mu.Lock(); defer b.mu.Unlock(); return b.buf.String() }

type vStreamWriter struct {
	hdr  http.Header
	code int
	mu   sync.Mutex
	body *vSafeBuf
}

func (w *vStreamWriter) Header() http.Header         { return w.hdr }
func (w *vStreamWriter) Write(p []byte) (int, error) { return w.body.Write(p) }
func (w *vStreamWriter) WriteHeader(c int)           { w.mu.Lock(); w.code = c; w.mu.Unlock() }
func (w *vStreamWriter) Flush()                      {}

// stream runs the real GET .../messages handler until `until` reports true for the lines received
// so far (or the handler returns by itself); it returns the decoded IRC messages (pings dropped) and
// the HTTP status.  A harness time-out (60 s) is reported as an error, never as a property violation.
func (n *vNode) stream(s vSession, auth, lastseen string, until func(lines []robust.Message) bool) ([]robust.Message, int, error) {
	path := "/robustirc/v1/" + s.Id + "/messages"
	if lastseen != "" {
		path += "?lastseen=" + lastseen
	}
	ctx, cancel := context.WithCancel(context.Background())
	defer cancel()
	req := httptest.NewRequest("GET", "https://"+vPeerAddr+path, nil).WithContext(ctx)
	req.RemoteAddr = "192.0.2.10:4711"
	if auth != "" {
		req.Header.Set("X-Session-Auth", auth)
	}
	w := &vStreamWriter{hdr: http.Header{}, body: &vSafeBuf{}}
	done := make(chan struct{})
	g0 := runtime.NumGoroutine()
	go func() {
		defer close(done)
		n.api.DispatchPublic(w, req)
	}()
	// the handler's helper goroutines (getMessages, pingTicker) end asynchronously after the handler
	// returned; wait for them so that a later Stop() does not close the stream under a live reader
	defer func() {
		buf := make([]byte, 1<<20)
		for k := 0; k < 20000; k++ {
			// (the goroutine count alone is not reliable: raft's own goroutines come and go)
			if runtime.NumGoroutine() <= g0 && !strings.Contains(string(buf[:runtime.Stack(buf, true)]), "(*HTTP).getMessages") {
				break
			}
			outputStream.InterruptGetNext()
			time.Sleep(100 * time.Microsecond)
		}
	}()
	parse := func() []robust.Message {
		var out []robust.Message
		sc := bufio.NewScanner(strings.NewReader(w.body.String()))
		sc.Buffer(make([]byte, 1<<20), 1<<20)
		for sc.Scan() {
			var m robust.Message
			if err := json.Unmarshal(sc.Bytes(), &m); err != nil {
				continue // a partially written last line
			}
			if m.Type == robust.Ping {
				continue
			}
			out = append(out, m)
		}
		return out
	}
	deadline := time.Now().Add(60 * time.Second)
	for {
		select {
		case <-done:
			w.mu.Lock()
			code := w.code
			w.mu.Unlock()
			if code == 0 {
				code = 200
			}
			return parse(), code, nil
		default:
		}
		msgs := parse()
		if until != nil && until(msgs) {
			cancel()
			<-done
			return parse(), 200, nil
		}
		if time.Now().After(deadline) {
			cancel()
			<-done
			return parse(), 0, fmt.Errorf("HARNESS: message stream did not reach the expected point within 60s (have %d messages)", len(msgs))
		}
		time.Sleep(200 * time.Microsecond)
	}
}

// drain posts a PING with a fresh token from the session and reads the stream until the matching
// PONG arrives: everything addressed to the session before that point has then been delivered.
var vDrainCounter int

func (n *vNode) drain(s vSession, lastseen string) ([]robust.Message, error) {
	vDrainCounter++
	token := fmt.Sprintf("drain-%d", vDrainCounter)
	if r := n.post(s, "PING "+token, uint64(1000000+vDrainCounter)); r.Code != 200 {
		return nil, fmt.Errorf("HARNESS: drain PING refused: %d %s", r.Code, r.Body)
	}
	msgs, _, err := n.stream(s, s.Auth, lastseen, func(lines []robust.Message) bool {
		for _, m := range lines {
			if strings.HasSuffix(m.Data, "PONG "+token) {
				return true
			}
		}
		return false
	})
	var out []robust.Message
	for _, m := range msgs {
		if strings.Contains(m.Data, "PONG drain-") {
			continue
		}
		out = append(out, m)
	}
	return out, err
}

// drainVia is like drain, but the marker is a PRIVMSG to #c posted by a separate sentinel session (which
// must be on #c together with s), so that the observed session itself posts nothing -- its
// duplicate-detection marker stays what the test made it.
func (n *vNode) drainVia(sentinel, s vSession, lastseen string) ([]robust.Message, error) {
	vDrainCounter++
	token := fmt.Sprintf("drain-%d", vDrainCounter)
	if r := n.post(sentinel, "PRIVMSG #c :"+token, uint64(1000000+vDrainCounter)); r.Code != 200 {
		return nil, fmt.Errorf("HARNESS: drain marker refused: %d %s", r.Code, r.Body)
	}
	msgs, _, err := n.stream(s, s.Auth, lastseen, func(lines []robust.Message) bool {
		for _, m := range lines {
			if strings.HasSuffix(m.Data, token) {
				return true
			}
		}
		return false
	})
	var out []robust.Message
	for _, m := range msgs {
		if strings.Contains(m.Data, "drain-") {
			continue
		}
		out = append(out, m)
	}
	return out, err
}

// logEntries returns the decoded command entries of the durable raft log.
func (n *vNode) logEntries() []robust.Message {
	first, _ := n.logStore.FirstIndex()
	last, _ := n.logStore.LastIndex()
	var out []robust.Message
	for i := first; i <= last && i > 0; i++ {
		var l raft.Log
		if err := n.logStore.GetLog(i, &l); err != nil {
			continue
		}
		if l.Type != raft.LogCommand {
			continue
		}
		out = append(out, robust.NewMessageFromBytes(l.Data, robust.IdFromRaftIndex(l.Index)))
	}
	return out
}

const vCfgFast = `SessionExpiration = "30m"
PostMessageCooloff = "0s"
[IRC]
[[IRC.Operators]]
Name = "root"
Password = "operpw"
[[IRC.Services]]
Password = "svcpw"
`
