//go:build verif

package main

// C15, API tier: every line of the client alphabet (control characters, long and multi-byte text
// in every echoed position) is POSTed through the real handler of an in-process node; (a) the
// entry that reaches the log must equal the sanitiser mirror used by the state-machine tier
// (conformance of the mirror), (b) every line delivered to the poster and to another channel
// member through the real GET handler must satisfy the line oracle.  The same for quit messages
// of DELETE requests.

import (
	"encoding/json"
	"fmt"
	"os"
	"strconv"
	"strings"
	"testing"

	"github.com/robustirc/robustirc/internal/ircserver"
	"github.com/robustirc/robustirc/internal/robust"
)

func TestVerifC15Api(t *testing.T) {
	shard, _ := strconv.Atoi(os.Getenv("VERIF_SHARD"))
	nshards, _ := strconv.Atoi(os.Getenv("VERIF_NSHARDS"))
	if nshards == 0 {
		nshards = 1
	}
	type result struct {
		Posts       int      `json:"posts"`
		BridgePosts int      `json:"posts_via_trusted_bridge"`
		Deletes     int      `json:"deletes"`
		Lines       int      `json:"delivered_lines_checked"`
		Sanitized   int      `json:"posts_changed_by_sanitising"`
		MirrorDiff  []string `json:"mirror_mismatches"`
		Violations  []*vViol `json:"violations"`
		Samples     []string `json:"samples"`
	}
	res := &result{}
	sigs := map[string]*vViol{}
	rep := func(sig, desc string) {
		sig = "C15:" + sig
		if v, ok := sigs[sig]; ok {
			v.Count++
			return
		}
		v := &vViol{Sig: sig, Desc: desc, Prop: "C15api", Count: 1}
		sigs[sig] = v
		res.Violations = append(res.Violations, v)
	}
	n, err := vStartNode(t.TempDir()+"/n", true)
	if err != nil {
		t.Fatal(err)
	}
	defer n.Stop()
	// (with a trusted bridge configured: requests that present its key are treated differently by the handler --
	// the client address is taken from X-Forwarded-For -- and must be sanitised like all others)
	n.setConfig(vCfgFast + "[TrustedBridges]\nbridgeauth = \"bridge1\"\n")
	V, _ := n.createSession()
	B, _ := n.createSession()
	cm := uint64(10)
	next := func() uint64 { cm++; return cm }
	for _, l := range []string{"NICK v", "USER v 0 * :v", "JOIN #c"} {
		n.post(V, l, next())
	}
	for _, l := range []string{"NICK b", "USER b 0 * :b", "JOIN #c"} {
		n.post(B, l, next())
	}
	lines := ircserver.VerifClientAlphabet(true)
	checkStream := func(who string, s vSession, origin string) {
		msgs, err := n.drainVia(V, s, "")
		if err != nil {
			t.Fatal(err)
		}
		for _, m := range msgs {
			res.Lines++
			if d := ircserver.VerifLineDefect(m.Data); d != "" {
				kind := strings.Fields(m.Data + " x")[0]
				if strings.HasPrefix(kind, ":") && len(strings.Fields(m.Data)) > 1 {
					kind = strings.Fields(m.Data)[1]
				}
				if len(kind) > 12 {
					kind = kind[:12]
				}
				rep(fmt.Sprintf("delivered line %s [%s via the HTTP API]", d, kind), fmt.Sprintf("session %s received %q (%s) after %s", who, m.Data, d, origin))
			}
		}
	}
	// a fresh poster per group of lines, so that state-changing lines (QUIT, NICK ...) do not end the run
	group := 40
	for g := 0; g*group < len(lines); g++ {
		if g%nshards != shard {
			continue
		}
		for _, viaBridge := range []bool{false, true} {
			A, _ := n.createSession()
			nick := fmt.Sprintf("a%d", g)
			if viaBridge {
				nick = fmt.Sprintf("w%d", g)
			}
			for _, l := range []string{"NICK " + nick, "USER a 0 * :a", "JOIN #c"} {
				n.post(A, l, next())
			}
			before := len(n.logEntries())
			var sent []string
			for _, l := range lines[g*group : min(len(lines), (g+1)*group)] {
				var r vResp
				if viaBridge {
					b, _ := json.Marshal(struct {
						Data            string
						ClientMessageId uint64
					}{l, next()})
					r = n.do("POST", "/robustirc/v1/"+A.Id+"/message", map[string]string{"X-Session-Auth": A.Auth, "X-Bridge-Auth": "bridgeauth", "X-Forwarded-For": "203.0.113.9"}, string(b))
					res.BridgePosts++
				} else {
					r = n.post(A, l, next())
				}
				res.Posts++
				if r.Code == 200 {
					sent = append(sent, l)
				} else if r.Code != 404 && r.Code != 400 { // 404: the session ended by an earlier line of the group
					rep("POST of a client line answered with an error status", fmt.Sprintf("%q: %d %s", l, r.Code, r.Body))
				}
			}
			// (a) mirror conformance on the entries that reached the log
			var logged []robust.Message
			for _, e := range n.logEntries()[before:] {
				if e.Type == robust.IRCFromClient && e.Session.Id == A.Num {
					logged = append(logged, e)
				}
			}
			if len(logged) != len(sent) {
				res.MirrorDiff = append(res.MirrorDiff, fmt.Sprintf("group %d: %d posts acknowledged but %d entries logged", g, len(sent), len(logged)))
			} else {
				for k := range sent {
					want := ircserver.VerifSanitize(sent[k])
					if want != sent[k] {
						res.Sanitized++
					}
					if logged[k].Data != want {
						// the real handler and the mirror disagree: decide by the oracle which side is wrong
						if strings.ContainsAny(logged[k].Data, "\r\n\x00") {
							rep("posted text reaches the log with a line separator or NUL", fmt.Sprintf("POST %q was logged as %q", sent[k], logged[k].Data))
						} else {
							res.MirrorDiff = append(res.MirrorDiff, fmt.Sprintf("POST %q logged as %q, mirror says %q", sent[k], logged[k].Data, want))
						}
					}
				}
			}
			// (b) what was delivered
			checkStream("b", B, fmt.Sprintf("lines %d..%d of the alphabet", g*group, (g+1)*group))
			if len(res.Samples) < 3 {
				res.Samples = append(res.Samples, fmt.Sprintf("group %d: %d lines posted (e.g. %q), %d delivered lines checked so far", g, len(sent), lines[g*group], res.Lines))
			}
		}
	}
	// quit messages of DELETE requests
	for k, txt := range ircserver.VerifTexts() {
		if k%nshards != shard {
			continue
		}
		A, _ := n.createSession()
		for _, l := range []string{fmt.Sprintf("NICK d%d", k), "USER d 0 * :d", "JOIN #c"} {
			n.post(A, l, next())
		}
		before := len(n.logEntries())
		r := n.deleteSession(A, txt)
		res.Deletes++
		if r.Code != 200 {
			rep("DELETE with a quit message answered with an error status", fmt.Sprintf("%q: %d", txt, r.Code))
			continue
		}
		for _, e := range n.logEntries()[before:] {
			if e.Type == robust.DeleteSession {
				if strings.ContainsAny(e.Data, "\r\n\x00") {
					rep("quit message reaches the log with a line separator or NUL", fmt.Sprintf("DELETE %q was logged as %q", txt, e.Data))
				} else if e.Data != ircserver.VerifSanitize(txt) {
					res.MirrorDiff = append(res.MirrorDiff, fmt.Sprintf("DELETE %q logged as %q, mirror says %q", txt, e.Data, ircserver.VerifSanitize(txt)))
				}
			}
		}
		checkStream("b", B, fmt.Sprintf("DELETE with quit message %q", txt))
	}
	b, _ := json.Marshal(res)
	if o := os.Getenv("VERIF_OUT"); o != "" {
		os.WriteFile(o, b, 0644)
	} else {
		fmt.Println(string(b))
	}
}
