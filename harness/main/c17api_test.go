//go:build verif

package main

// C17, API tier: what a client is TOLD by a node that lags behind.  A node that is not the leader (member
// of a two-server configuration whose other server does not exist) gets a prefix of a log applied to its
// FSM directly -- a lagging follower -- and is asked through the real public handlers (GET messages, POST
// message, DELETE) about every session of the whole log with the session's correct secret, and about ids
// that never name a session.  For every prefix and every id:
//   - a session that the node has not seen yet (created behind the prefix) is never answered with
//     404 "gone" (the client would give the session up), and never with 200;
//   - a session that ended within the prefix is never served (200);
//   - a live session is never answered with 404.

import (
	"context"
	"encoding/json"
	"fmt"
	"net/http"
	"net/http/httptest"
	"os"
	"strconv"
	"strings"
	"testing"
	"time"

	"github.com/hashicorp/raft"
	"github.com/robustirc/robustirc/internal/ircserver"
	"github.com/robustirc/robustirc/internal/robust"
)

func TestVerifC17Api(t *testing.T) {
	shard, _ := strconv.Atoi(os.Getenv("VERIF_SHARD"))
	nshards, _ := strconv.Atoi(os.Getenv("VERIF_NSHARDS"))
	if nshards == 0 {
		nshards = 1
	}
	res := &vSeqResult{EndStates: map[string]int{}}
	sigs := map[string]*vViol{}
	base := t.TempDir()
	setup := []string{"cfg", "+A", "A: NICK a", "A: USER a 0 * :A"}
	logs := []c02Log{
		c02MakeLog("create-delete", [][]string{setup, {"A: JOIN #c", "+B", "B: NICK b", "B: USER b 0 * :B", "B: JOIN #c"}, {"-A", "+C", "C: NICK c"}, {"B: QUIT :bye", "+D"}}, []int{0, 0, 0, 0}, []int{2, 0, 1, 3}),
		// the quit message of a DELETE is chosen by the client; bridges relay the words of the server they replace
		c02MakeLog("client-quit-messages", [][]string{setup, {"+B", "B: NICK b", "A: PING x", "-A Ping timeout: 180 seconds", "B: PING y", "-B Ping timeout (30m0s)", "+C", "-C "}}, []int{0, 0}, []int{0, 0}),
		c02MakeLog("sessions-only", [][]string{{"+A", "+B", "-A", "+C", "-C", "+D"}}, []int{0}, []int{0}),
	}
	type job struct {
		log   c02Log
		p     int
		quiet bool // the node stays a raft Follower (otherwise it is a Candidate after its election timeout)
	}
	var jobs []job
	for _, l := range logs {
		n := 0
		for _, ch := range l.Chunks {
			n += len(ch.Entries)
		}
		for p := 0; p <= n; p++ {
			jobs = append(jobs, job{l, p, false}, job{l, p, true})
		}
	}
	for ji, j := range jobs {
		if ji%nshards != shard {
			continue
		}
		*useProtobuf = true
		var entries []ircserver.VEntry
		for _, ch := range j.log.Chunks {
			entries = append(entries, ch.Entries...)
		}
		start, wantState := vStartFollower, raft.Candidate
		if j.quiet {
			start, wantState = vStartQuietFollower, raft.Follower
		}
		n, err := start(fmt.Sprintf("%s/f%d", base, ji))
		if err != nil {
			t.Fatal(err)
		}
		for k := 0; k < 5000 && n.raft.State() != wantState; k++ {
			time.Sleep(time.Millisecond)
		}
		if n.raft.State() != wantState {
			res.HarnessErr = fmt.Sprintf("HARNESS: node is in raft state %v, expected %v", n.raft.State(), wantState)
			n.Stop()
			break
		}
		w := &c02World{}
		applied := uint64(0)
		for _, e := range entries[:j.p] {
			n.fsm.Apply(w.raftLog(e))
			applied = e.Id
		}
		res.Sequences++
		seq := []string{"c17api", j.log.Name, strconv.Itoa(j.p), wantState.String()}
		// ground truth from the log itself
		type sess struct {
			idx     uint64
			auth    string
			ended   uint64 // index of the entry that ends it (0: never)
			session vSession
		}
		var all []*sess
		for _, e := range entries {
			switch e.Type {
			case robust.CreateSession:
				id := robust.IdFromRaftIndex(e.Id)
				all = append(all, &sess{idx: e.Id, auth: e.Data, session: vSession{Id: fmt.Sprintf("0x%x", id), Auth: e.Data, Num: id}})
			case robust.DeleteSession:
				for _, s := range all {
					if s.idx == e.Session.Id {
						s.ended = e.Id
					}
				}
			case robust.IRCFromClient:
				if len(e.Data) >= 4 && e.Data[:4] == "QUIT" {
					for _, s := range all {
						if s.idx == e.Session.Id {
							s.ended = e.Id
						}
					}
				}
			}
		}
		ask := func(s vSession) map[string]vResp {
			out := map[string]vResp{}
			out["GET messages"] = vGetStatus(n, s)
			out["POST message"] = n.post(s, "PING x", 4242)
			out["DELETE"] = n.deleteSession(s, "bye")
			return out
		}
		for _, s := range all {
			state := "live"
			switch {
			case s.idx > applied:
				state = "not yet seen"
			case s.ended != 0 && s.ended <= applied:
				state = "ended"
			}
			for route, r := range ask(s.session) {
				res.Ops++
				res.EndStates[fmt.Sprintf("%v node, %s: %s -> %d", wantState, state, route, r.Code)]++
				switch state {
				case "not yet seen":
					if r.Code == 404 {
						res.report(sigs, "C17", "a lagging node answers 404 (session gone) for a session it has not seen yet ["+route+"]", fmt.Sprintf("log %s, %d entries applied (last index %d): session created at index %d: %s answered %d %s", j.log.Name, j.p, applied, s.idx, route, r.Code, r.Body), seq)
					}
					if r.Code == 200 {
						res.report(sigs, "C17", "a lagging node answers 200 for a session it has not seen yet ["+route+"]", fmt.Sprintf("log %s, %d entries applied: session created at index %d", j.log.Name, j.p, s.idx), seq)
					}
				case "ended":
					// (404, or the "not yet seen" answer while nothing newer than the session id has been
					// processed: the property only forbids "gone" for sessions that are not gone)
					if r.Code == 200 {
						res.report(sigs, "C17", "an ended session is served ["+route+"]", fmt.Sprintf("log %s, %d entries applied: session of index %d ended at %d: %s answered %d %s", j.log.Name, j.p, s.idx, s.ended, route, r.Code, r.Body), seq)
					}
				case "live":
					if r.Code == 404 {
						res.report(sigs, "C17", "a live session is answered with 404 ["+route+"]", fmt.Sprintf("log %s, %d entries applied: session of index %d: %s answered %d %s", j.log.Name, j.p, s.idx, route, r.Code, r.Body), seq)
					}
				}
			}
		}
		// ids that never name a session: newer than everything applied -> not 404
		for _, idx := range []uint64{applied + 1, applied + 1000} {
			id := robust.IdFromRaftIndex(idx)
			isSession := false
			for _, s := range all {
				if s.idx == idx {
					isSession = true
				}
			}
			if isSession {
				continue
			}
			for route, r := range ask(vSession{Id: fmt.Sprintf("0x%x", id), Auth: "auth-x-0123456789", Num: id}) {
				res.Ops++
				if r.Code == 404 || r.Code == 200 {
					res.report(sigs, "C17", "a lagging node answers definitively for an id newer than anything it applied ["+route+"]", fmt.Sprintf("log %s, %d entries applied (last index %d): id of index %d: %d %s", j.log.Name, j.p, applied, idx, r.Code, r.Body), seq)
				}
			}
		}
		if n.raft.State() == raft.Leader {
			res.HarnessErr = "HARNESS: the follower became leader"
		}
		n.Stop()
		os.RemoveAll(n.dir)
	}
	b, _ := json.Marshal(res)
	if o := os.Getenv("VERIF_OUT"); o != "" {
		os.WriteFile(o, b, 0644)
	} else {
		fmt.Println(string(b))
	}
}

// vGetStatus runs the real GET .../messages handler and returns the status it answers with; a request that
// is accepted (the handler starts streaming and does not return) counts as 200 and is cancelled.
func vGetStatus(n *vNode, s vSession) vResp {
	ctx, cancel := context.WithCancel(context.Background())
	defer cancel()
	req := httptest.NewRequest("GET", "https://"+vPeerAddr+"/robustirc/v1/"+s.Id+"/messages?lastseen=0.0", nil).WithContext(ctx)
	req.RemoteAddr = "192.0.2.10:4711"
	req.Header.Set("X-Session-Auth", s.Auth)
	w := &vStreamWriter{hdr: http.Header{}, body: &vSafeBuf{}}
	done := make(chan struct{})
	go func() {
		defer close(done)
		n.api.DispatchPublic(w, req)
	}()
	select {
	case <-done:
	case <-time.After(3 * time.Second):
		cancel()
		<-done
		return vResp{Code: 200, Body: "(streaming)"}
	}
	w.mu.Lock()
	code := w.code
	w.mu.Unlock()
	if code == 0 {
		code = 200
	}
	return vResp{Code: code, Body: w.body.String()}
}

// TestVerifC10Follower (C10): a retried POST reaches a node that is not the leader and knows no leader (the
// moment clients fail over).  The node has applied the first copy, so it answers the retry itself, with
// success, from its own duplicate-detection marker -- it neither needs a leader for that nor may it hand the
// message on.  Both raft states of a non-leader, every session of the log, the last message and an older one.
func TestVerifC10Follower(t *testing.T) {
	shard, _ := strconv.Atoi(os.Getenv("VERIF_SHARD"))
	res := &vSeqResult{EndStates: map[string]int{}}
	sigs := map[string]*vViol{}
	base := t.TempDir()
	setup := []string{"cfg", "+A", "A: NICK a", "A: USER a 0 * :A"}
	l := c02MakeLog("retry", [][]string{setup, {"A: JOIN #c", "+B", "B: NICK b", "B: USER b 0 * :B", "B: JOIN #c", "A: PRIVMSG #c :one", "B: PRIVMSG #c :two", "A: PING keepalive"}}, []int{0, 0}, []int{2, 0})
	if shard == 0 {
		for ji, quiet := range []bool{false, true} {
			*useProtobuf = true
			var entries []ircserver.VEntry
			for _, ch := range l.Chunks {
				entries = append(entries, ch.Entries...)
			}
			start, wantState := vStartFollower, raft.Candidate
			if quiet {
				start, wantState = vStartQuietFollower, raft.Follower
			}
			n, err := start(fmt.Sprintf("%s/r%d", base, ji))
			if err != nil {
				t.Fatal(err)
			}
			for k := 0; k < 5000 && n.raft.State() != wantState; k++ {
				time.Sleep(time.Millisecond)
			}
			w := &c02World{}
			lastOf := map[uint64]ircserver.VEntry{}
			prevOf := map[uint64]ircserver.VEntry{}
			auth := map[uint64]string{}
			for _, e := range entries {
				n.fsm.Apply(w.raftLog(e))
				if e.Type == robust.CreateSession {
					auth[e.Id] = e.Data
				}
				if e.Type == robust.IRCFromClient {
					if le, ok := lastOf[e.Session.Id]; ok {
						prevOf[e.Session.Id] = le
					}
					lastOf[e.Session.Id] = e
				}
			}
			res.Sequences++
			for sidx, le := range lastOf {
				id := robust.IdFromRaftIndex(sidx)
				s := vSession{Id: fmt.Sprintf("0x%x", id), Auth: auth[sidx], Num: id}
				before := len(n.logEntries())
				r := n.post(s, le.Data, le.ClientMessageId)
				res.Ops++
				res.EndStates[fmt.Sprintf("%v node: retry of the last message -> %d", wantState, r.Code)]++
				if r.Code != 200 {
					res.report(sigs, "C10", "retry of the last message is not acknowledged by a node that has applied it but knows no leader", fmt.Sprintf("%v node, session of index %d: retry of %q (client message id %d) answered %d %s", wantState, sidx, le.Data, le.ClientMessageId, r.Code, r.Body), []string{"c10follower", wantState.String()})
				}
				if len(n.logEntries()) != before {
					res.report(sigs, "C10", "retry appended to the log of a non-leader", fmt.Sprintf("%v node, session of index %d", wantState, sidx), []string{"c10follower", wantState.String()})
				}
			}
			n.Stop()
			os.RemoveAll(n.dir)
		}
	}
	b, _ := json.Marshal(res)
	if o := os.Getenv("VERIF_OUT"); o != "" {
		os.WriteFile(o, b, 0644)
	} else {
		fmt.Println(string(b))
	}
}

// TestVerifC17Leader (C17): the end of a session through the real DELETE handler of a leader.  The quit
// message is chosen by the client: whatever it says, and whatever the session did just before, a DELETE that
// was answered with success ends the session -- afterwards the state machine does not know it and no handler
// serves it.  Grid: quit messages x what the session did before.
func TestVerifC17Leader(t *testing.T) {
	shard, _ := strconv.Atoi(os.Getenv("VERIF_SHARD"))
	res := &vSeqResult{EndStates: map[string]int{}}
	sigs := map[string]*vViol{}
	if shard == 0 {
		*useProtobuf = true
		n, err := vStartNode(t.TempDir()+"/leader", true)
		if err != nil {
			t.Fatal(err)
		}
		if r := n.setConfig(vCfgFast); r.Code != 200 {
			res.HarnessErr = "HARNESS: config: " + r.Body
		}
		quits := []string{"bye", "", "Ping timeout: 180 seconds", "Ping timeout (30m0s)", "Ping timeout", "ping timeout: 1 seconds", "Read error: Connection reset by peer", "Killed (x (y))", "x :y", "Too many authentication failures", "Excess Flood"}
		before := [][]string{{}, {"NICK v%d", "USER v 0 * :v"}, {"NICK v%d", "USER v 0 * :v", "PING x"}, {"NICK v%d", "USER v 0 * :v", "JOIN #c"}, {"NICK v%d", "USER v 0 * :v", "JOIN #c", "PRIVMSG #c :last words"}}
		k := 0
		for _, q := range quits {
			for bi, lines := range before {
				if res.HarnessErr != "" {
					break
				}
				k++
				s, r := n.createSession()
				if r.Code != 200 {
					res.HarnessErr = "HARNESS: create: " + r.Body
					break
				}
				for li, l := range lines {
					if strings.Contains(l, "%d") {
						l = fmt.Sprintf(l, k)
					}
					if r := n.post(s, l, uint64(k*100+li+1)); r.Code != 200 {
						res.HarnessErr = fmt.Sprintf("HARNESS: post %q: %d %s", l, r.Code, r.Body)
					}
				}
				seq := []string{"c17leader", q, strconv.Itoa(bi)}
				res.Sequences++
				d := n.deleteSession(s, q)
				res.Ops++
				res.EndStates[fmt.Sprintf("DELETE -> %d", d.Code)]++
				if d.Code != 200 {
					// (a refused DELETE is not the subject here, the session stays)
					continue
				}
				_, gerr := ircServer.GetSession(robust.Id{Id: s.Num})
				p := n.post(s, "PING after", uint64(k*100+50))
				res.Ops++
				res.EndStates[fmt.Sprintf("after DELETE: POST -> %d, known to the state machine: %v", p.Code, gerr == nil)]++
				if gerr == nil || p.Code == 200 {
					res.report(sigs, "C17", "a session whose DELETE was answered with success lives on", fmt.Sprintf("quit message %q after %v: DELETE answered 200; GetSession error: %v; a later POST is answered %d", q, lines, gerr, p.Code), seq)
					continue
				}
				if g := vGetStatus(n, s); g.Code == 200 {
					res.report(sigs, "C17", "an ended session is served [GET messages]", fmt.Sprintf("quit message %q after %v", q, lines), seq)
				}
				res.Ops++
			}
		}
		n.Stop()
	}
	b, _ := json.Marshal(res)
	if o := os.Getenv("VERIF_OUT"); o != "" {
		os.WriteFile(o, b, 0644)
	} else {
		fmt.Println(string(b))
	}
}
