//go:build verif

package main

// C18, node tier: the encoded message that the API hands to raft is read back through two readers of the
// node -- the durable log store and the in-memory log cache in front of it, from which raft serves
// followers that lag or join.  Both must decode to the message that was posted; an entry in the cache must not
// change when later messages are accepted.

import (
	"bytes"
	"encoding/json"
	"fmt"
	"os"
	"strconv"
	"strings"
	"testing"

	"github.com/hashicorp/raft"
	"github.com/robustirc/robustirc/internal/robust"
)

func TestVerifC18Cache(t *testing.T) {
	shard, _ := strconv.Atoi(os.Getenv("VERIF_SHARD"))
	res := &vSeqResult{EndStates: map[string]int{}}
	sigs := map[string]*vViol{}
	if shard == 0 {
		for _, enc := range []string{"", "json"} {
			os.Setenv("VERIF_ENCODING", enc)
			n, err := vStartNode(t.TempDir()+"/c"+enc, true)
			if err != nil {
				t.Fatal(err)
			}
			if r := n.setConfig(vCfgFast); r.Code != 200 {
				t.Fatalf("config: %d %s", r.Code, r.Body)
			}
			A, _ := n.createSession()
			n.post(A, "NICK a", 11)
			n.post(A, "USER a 0 * :a", 12)
			n.post(A, "JOIN #c", 13)
			// messages of decreasing and increasing length, so that a reused buffer would show
			var texts []string
			for k := 0; k < 12; k++ {
				l := []int{400, 3, 120, 1, 250, 17, 300, 2, 64, 5, 200, 9}[k]
				texts = append(texts, fmt.Sprintf("m%02d-%s", k, strings.Repeat(string(rune('a'+k)), l)))
			}
			posted := map[uint64]string{}
			for k, tx := range texts {
				n.post(A, "PRIVMSG #c :"+tx, uint64(100+k))
				last, _ := n.logStore.LastIndex()
				posted[last] = "PRIVMSG #c :" + tx
				// after every accepted message: every earlier entry still reads the same through both readers
				for idx, want := range posted {
					var fromStore, fromCache raft.Log
					if err := n.logStore.GetLog(idx, &fromStore); err != nil {
						res.report(sigs, "C18", "entry missing from the log store", fmt.Sprintf("index %d: %v", idx, err), []string{"c18cache"})
						continue
					}
					if err := n.logcache.GetLog(idx, &fromCache); err != nil {
						res.report(sigs, "C18", "entry missing from the log cache", fmt.Sprintf("index %d: %v", idx, err), []string{"c18cache"})
						continue
					}
					res.Ops++
					if !bytes.Equal(fromStore.Data, fromCache.Data) {
						res.report(sigs, "C18", "log cache and log store hold different bytes for the same entry", fmt.Sprintf("encoding %q, index %d after %d further messages: store %d bytes, cache %d bytes", enc, idx, len(posted), len(fromStore.Data), len(fromCache.Data)), []string{"c18cache"})
						continue
					}
					for name, l := range map[string]*raft.Log{"store": &fromStore, "cache": &fromCache} {
						var m robust.Message
						func() {
							defer func() {
								if r := recover(); r != nil {
									m = robust.Message{Data: fmt.Sprintf("<does not decode: %v>", r)}
								}
							}()
							m = robust.NewMessageFromBytes(l.Data, robust.IdFromRaftIndex(l.Index))
						}()
						if m.Data != want || m.Session.Id != A.Num {
							res.report(sigs, "C18", "an entry read from the log "+name+" does not decode to the message that was posted", fmt.Sprintf("encoding %q, index %d: want %.40q, decoded %.60q (session %d)", enc, idx, want, m.Data, m.Session.Id), []string{"c18cache"})
						}
					}
				}
			}
			res.Sequences++
			n.Stop()
		}
		os.Setenv("VERIF_ENCODING", "")
	}
	b, _ := json.Marshal(res)
	if o := os.Getenv("VERIF_OUT"); o != "" {
		os.WriteFile(o, b, 0644)
	} else {
		fmt.Println(string(b))
	}
}
