//go:build verif

package main

// C04, API tier: resume at EVERY position of a real stream.  Histories are applied by the real node (real
// FSM: the batches in the output stream are the ones sendMessages really stores -- with replies that
// nobody receives, multi-reply bursts, replies addressed to several sessions); then for every session and
// every message m of the stream that session was served, a new GET .../messages?lastseen=<id of m> must
// deliver exactly the messages behind m: none missing, none twice, in order.  The exhaustive dimension is
// the resume position (every message of every batch) x session x history x {live node, restarted node}.

import (
	"encoding/json"
	"fmt"
	"os"
	"strconv"
	"strings"
	"testing"
	"time"

	"github.com/robustirc/robustirc/internal/ircserver"
	"github.com/robustirc/robustirc/internal/robust"
)

func TestVerifC04Api(t *testing.T) {
	shard, _ := strconv.Atoi(os.Getenv("VERIF_SHARD"))
	nshards, _ := strconv.Atoi(os.Getenv("VERIF_NSHARDS"))
	if nshards == 0 {
		nshards = 1
	}
	res := &vSeqResult{EndStates: map[string]int{}}
	sigs := map[string]*vViol{}
	base := t.TempDir()
	type hist struct {
		name  string
		lines [][2]string // session letter, line
	}
	hists := []hist{
		{"login-join-talk", [][2]string{{"A", "NICK a"}, {"A", "USER a 0 * :A"}, {"B", "NICK b"}, {"B", "USER b 0 * :B"}, {"A", "JOIN #c"}, {"B", "JOIN #c"}, {"A", "PRIVMSG #c :one"}, {"B", "PRIVMSG #c :two"}, {"A", "TOPIC #c :t"}, {"B", "NAMES #c"}, {"B", "WHO #c"}}},
		{"multi-target", [][2]string{{"A", "NICK a"}, {"A", "USER a 0 * :A"}, {"B", "NICK b"}, {"B", "USER b 0 * :B"}, {"A", "JOIN #c,#d"}, {"B", "JOIN #d,#c"}, {"A", "MODE #c +i"}, {"A", "MODE #c"}, {"B", "WHOIS a"}, {"A", "KICK #c b :out"}, {"B", "LIST"}, {"A", "PART #c,#d"}}},
		// a batch whose first replies go to somebody else only: A joins #a and #b, B is a member of #b only
		{"partial-overlap", [][2]string{{"A", "NICK a"}, {"A", "USER a 0 * :A"}, {"B", "NICK b"}, {"B", "USER b 0 * :B"}, {"B", "JOIN #b"}, {"A", "JOIN #a,#b"}, {"A", "PRIVMSG #a :only a"}, {"A", "PRIVMSG #b :both"}, {"A", "PART #a,#b :bye"}, {"B", "PRIVMSG a :pm"}}},
		// a services link sets a topic with time 0 ("unknown"); topic queries and joins come later
		{"services-topic", [][2]string{{"A", "NICK a"}, {"A", "USER a 0 * :A"}, {"B", "NICK b"}, {"B", "USER b 0 * :B"}, {"A", "JOIN #c"}, {"S", "PASS :services=svcpw"}, {"S", "SERVER services.robustirc.net 1 :Services"}, {"S", "NICK ChanServ 1 1422134861 services robustirc.net services.robustirc.net 0 :Channel Services"}, {"S", ":ChanServ JOIN #c"}, {"S", ":ChanServ TOPIC #c ChanServ 0 :topic with time zero"}, {"A", "PRIVMSG #c :filler one"}, {"A", "PRIVMSG #c :filler two"}, {"A", "TOPIC #c"}, {"B", "JOIN #c"}, {"B", "TOPIC #c"}, {"A", "PART #c :bye"}, {"A", "JOIN #c"}}},
		{"errors-and-away", [][2]string{{"A", "NICK a"}, {"B", "NICK a"}, {"A", "USER a 0 * :A"}, {"B", "NICK b"}, {"B", "USER b 0 * :B"}, {"A", "AWAY :gone"}, {"B", "PRIVMSG a :hi"}, {"A", "FOO"}, {"A", "JOIN #c"}, {"B", "INVITE a #c"}, {"A", "MOTD"}, {"B", "QUIT :bye"}}},
	}
	// a history long enough for the message ids to cross a multiple of 256 more than once (the output store orders
	// its keys bytewise; a reader that connects for the first time, or resumes on a position without output, is
	// located by a range scan over those keys)
	long := hist{name: "long", lines: [][2]string{{"A", "NICK a"}, {"A", "USER a 0 * :A"}, {"B", "NICK b"}, {"B", "USER b 0 * :B"}, {"A", "JOIN #c"}, {"B", "JOIN #c"}}}
	for k := 0; k < 560; k++ {
		who := "A"
		if k%3 == 0 {
			who = "B"
		}
		long.lines = append(long.lines, [2]string{who, fmt.Sprintf("PRIVMSG #c :line %d", k)})
	}
	hists = append(hists, long)
	type job struct {
		h       hist
		restart bool
		order   []string // the order in which the sessions read (decoded batches are cached per node)
		mid     bool     // after 60% of the history: a snapshot that folds everything, then a restart -- the rest of
		// the history is applied by a node that was restored from a snapshot state
	}
	var jobs []job
	for _, h := range hists {
		for _, o := range [][]string{{"A", "B"}, {"B", "A"}} {
			jobs = append(jobs, job{h, false, o, false}, job{h, true, o, false})
		}
		jobs = append(jobs, job{h, false, []string{"A", "B"}, true})
	}
	prop := os.Getenv("VERIF_API_PROP")
	if prop == "" {
		prop = "C04"
	}
	for ji, j := range jobs {
		if ji%nshards != shard {
			continue
		}
		dir := fmt.Sprintf("%s/n%d", base, ji)
		n, err := vStartNode(dir, true)
		if err != nil {
			t.Fatal(err)
		}
		if r := n.setConfig(vCfgFast); r.Code != 200 {
			t.Fatalf("config: %d %s", r.Code, r.Body)
		}
		sess := map[string]vSession{}
		cm := uint64(500)
		foldedId := uint64(0)
		for li, l := range j.h.lines {
			s, ok := sess[l[0]]
			if !ok {
				s, _ = n.createSession()
				sess[l[0]] = s
			}
			cm++
			if j.mid && li == len(j.h.lines)*6/10 {
				li0, _ := n.logStore.LastIndex()
				foldedId = robust.IdFromRaftIndex(li0) // outputs up to here are compacted away with the fold, by design
				*canaryCompactionStart = time.Now().Add(1000 * time.Hour).UnixNano()
				time.Sleep(2 * time.Millisecond)
				err := n.raft.Snapshot().Error()
				*canaryCompactionStart = 0
				if err != nil {
					res.HarnessErr = "HARNESS: snapshot: " + err.Error()
					break
				}
				n.Stop()
				if n, err = vStartNode(dir, false); err != nil {
					t.Fatal(err)
				}
				res.Restarts++
				res.Snapshots++
			}
			if strings.HasPrefix(l[1], "QUIT") && prop == "C04" {
				// the session ends with this line: what it is still owed (ERROR :Closing Link) can only be
				// received by a reader that is connected at that moment -- afterwards the session is unknown
				type got struct {
					msgs []robust.Message
					err  error
				}
				ch := make(chan got, 1)
				go func() {
					ms, _, err := n.stream(s, s.Auth, "", func(lines []robust.Message) bool {
						for _, m := range lines {
							if strings.HasPrefix(m.Data, "ERROR") {
								return true
							}
						}
						return false
					})
					ch <- got{ms, err}
				}()
				time.Sleep(20 * time.Millisecond) // let the reader reach the end of the stream
				if r := n.post(s, l[1], cm); r.Code != 200 {
					t.Fatalf("post %v: %d %s", l, r.Code, r.Body)
				}
				g := <-ch
				res.Ops++
				sawError := false
				for _, m := range g.msgs {
					if strings.HasPrefix(m.Data, "ERROR") {
						sawError = true
					}
				}
				if !sawError {
					last := "(nothing)"
					if len(g.msgs) > 0 {
						last = g.msgs[len(g.msgs)-1].Data
					}
					res.report(sigs, "C04", "the last batch of an ending session is not delivered to its connected reader", fmt.Sprintf("history %s: session %s posted %q while reading its stream; the stream ended (%v) after %d messages without the ERROR line, last message %q", j.h.name, l[0], l[1], g.err, len(g.msgs), last), []string{"c04api", j.h.name})
				}
				continue
			}
			if r := n.post(s, l[1], cm); r.Code != 200 {
				t.Fatalf("post %v: %d %s", l, r.Code, r.Body)
			}
		}
		// a sentinel that every reader sees last: V joins #z together with nobody, so the marker is a private
		// message to each reader instead
		V, _ := n.createSession()
		for _, l := range []string{"NICK v", "USER v 0 * :v"} {
			cm++
			n.post(V, l, cm)
		}
		if j.restart {
			n.Stop()
			if n, err = vStartNode(dir, false); err != nil {
				t.Fatal(err)
			}
			res.Restarts++
		}
		seq := []string{"c04api", j.h.name, fmt.Sprint(j.restart), strings.Join(j.order, "")}
		// addressed reports whether the state machine addressed message m to session num (C12: nobody else
		// is served it, whichever path of the handler produced the line)
		// reference: a deep copy of every stored batch, taken before any reader touched the stream (readers share
		// the decoded batches of the node's cache: a reader that modifies one must not modify the oracle)
		type refMsg struct {
			reply uint64
			data  string
			for_  map[uint64]bool
		}
		// ... and what the store holds is itself compared with a twin: a plain state machine that is fed the
		// committed log and whose replies are copied the moment they are produced (the output store marshals a
		// batch a second time when the next one is added)
		ref := map[uint64][]refMsg{}
		twin := ircserver.VerifNewInst()
		for _, e := range n.logEntries() {
			st := twin.Apply(ircserver.VEntry{Type: e.Type, Id: e.Id.Id, Session: e.Session, Data: e.Data, UnixNano: e.UnixNano, ClientMessageId: e.ClientMessageId, Revision: e.Revision, RemoteAddr: e.RemoteAddr})
			for _, om := range st.Msgs {
				f := map[uint64]bool{}
				for k, v := range om.InterestingFor {
					f[k] = v
				}
				ref[e.Id.Id] = append(ref[e.Id.Id], refMsg{om.Id.Reply, om.Data, f})
			}
			if batch, ok := outputStream.Get(robust.Id{Id: e.Id.Id}); ok {
				tw := ref[e.Id.Id]
				same := len(batch) == len(tw)
				for k := 0; same && k < len(batch); k++ {
					if batch[k].Id.Reply != tw[k].reply || (batch[k].Data != tw[k].data && !strings.Contains(tw[k].data, " 003 ")) || len(batch[k].InterestingFor) != len(tw[k].for_) {
						same = false
					}
					for id, v := range batch[k].InterestingFor {
						if tw[k].for_[id] != v {
							same = false
						}
					}
				}
				if !same {
					res.report(sigs, prop, "the stored output of an entry differs from what the state machine produced for it", fmt.Sprintf("history %s: input %d (%q): stored batch of %d messages, the twin produced %d", j.h.name, e.Id.Id-robust.MessageOffset, e.Data, len(batch), len(tw)), []string{"c04api", j.h.name})
				}
			}
		}
		addressed := func(m robust.Message, num uint64) bool {
			batch, ok := ref[m.Id.Id]
			if !ok {
				return true // produced after the reference was taken (markers)
			}
			for _, om := range batch {
				if om.reply == m.Id.Reply {
					return om.for_[num] && (om.data == m.Data || strings.Contains(om.data, " 003 "))
				}
			}
			return false
		}
		res.Sequences++
		for _, who := range j.order {
			s, ok := sess[who]
			if !ok {
				continue
			}
			nick := strings.ToLower(who)
			if _, err := ircServer.GetSession(robust.Id{Id: s.Num}); err != nil {
				continue // the session ended in the history (QUIT): no reader
			}
			cm++
			marker := fmt.Sprintf("resume-marker-%d-%s", ji, who)
			if r := n.post(V, "PRIVMSG "+nick+" :"+marker, cm); r.Code != 200 {
				t.Fatalf("marker: %d %s", r.Code, r.Body)
			}
			until := func(lines []robust.Message) bool {
				for _, m := range lines {
					if strings.HasSuffix(m.Data, marker) {
						return true
					}
				}
				return false
			}
			cut := func(ms []robust.Message) []robust.Message {
				for k, m := range ms {
					if strings.HasSuffix(m.Data, marker) {
						return ms[:k+1]
					}
				}
				return ms
			}
			full, _, err := n.stream(s, s.Auth, "", until)
			if err != nil {
				res.HarnessErr = "HARNESS: " + err.Error()
				break
			}
			full = cut(full)
			{
				// completeness: every message of every stored batch that is addressed to the reader is served
				served := map[string]bool{}
				for _, m := range full {
					served[fmt.Sprintf("%d.%d", m.Id.Id, m.Id.Reply)] = true
				}
				for id, batch := range ref {
					if id <= foldedId {
						continue
					}
					for _, om := range batch {
						if om.for_[s.Num] && !served[fmt.Sprintf("%d.%d", id, om.reply)] {
							res.report(sigs, prop, "a message addressed to a session is not served to it by GET messages", fmt.Sprintf("history %s, readers in the order %v, session %s: %d.%d %q is addressed to it in the stored batch", j.h.name, j.order, who, id-robust.MessageOffset, om.reply, om.data), seq)
						}
					}
				}
				for _, m := range full {
					if !addressed(m, s.Num) {
						res.report(sigs, prop, "GET messages serves a message to a session it is not addressed to", fmt.Sprintf("history %s, session %s reading from the start: %d.%d %q", j.h.name, who, m.Id.Id-robust.MessageOffset, m.Id.Reply, m.Data), seq)
					}
				}
			}
			show := func(ms []robust.Message) string {
				var ids []string
				for _, m := range ms {
					ids = append(ids, fmt.Sprintf("%d.%d", m.Id.Id-robust.MessageOffset, m.Id.Reply))
				}
				return strings.Join(ids, " ")
			}
			for k := 0; k+1 < len(full); k++ {
				if j.h.name == "long" && k%37 != 0 && k < len(full)-3 {
					continue // the long history: every 37th position and the last ones
				}
				res.Ops++
				ls := fmt.Sprintf("%d.%d", full[k].Id.Id, full[k].Id.Reply)
				got, _, err := n.stream(s, s.Auth, ls, until)
				if err != nil {
					res.report(sigs, "C04", "resumed stream never reaches the end of the stream", fmt.Sprintf("history %s (restart %v), session %s, resume behind message %d of %d (%s): %v", j.h.name, j.restart, who, k, len(full), ls, err), seq)
					continue
				}
				got = cut(got)
				if prop == "C12" {
					for _, m := range got {
						if !addressed(m, s.Num) {
							res.report(sigs, "C12", "GET messages serves a message to a session it is not addressed to (resumed stream)", fmt.Sprintf("history %s, session %s, lastseen=%s: %d.%d %q", j.h.name, who, ls, m.Id.Id-robust.MessageOffset, m.Id.Reply, m.Data), seq)
						}
					}
					continue
				}
				want := full[k+1:]
				same := len(got) == len(want)
				for x := 0; same && x < len(got); x++ {
					if got[x].Id != want[x].Id || got[x].Data != want[x].Data {
						same = false
					}
				}
				if !same {
					kind := "a message is missing after the resume"
					if len(got) > len(want) {
						kind = "a message is delivered twice after the resume"
					}
					pos := "between two batches"
					if full[k+1].Id.Id == full[k].Id.Id {
						pos = "inside a batch"
					}
					res.report(sigs, "C04", kind+" ("+pos+")", fmt.Sprintf("history %s (restart %v), session %s, lastseen=%s (message %d of %d): received [%s], expected [%s]", j.h.name, j.restart, who, ls, k, len(full), show(got), show(want)), seq)
				}
			}
			res.EndStates[fmt.Sprintf("%s/%s: %d messages", j.h.name, who, len(full))]++
		}
		n.Stop()
		os.RemoveAll(dir)
		if res.HarnessErr != "" {
			break
		}
	}
	b, _ := json.Marshal(res)
	if o := os.Getenv("VERIF_OUT"); o != "" {
		os.WriteFile(o, b, 0644)
	} else {
		fmt.Println(string(b))
	}
}
