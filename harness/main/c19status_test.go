//go:build verif

package main

// C19, peer side: the time check of a starting node reads the clock of every peer from the peer's status
// page (JSON field CurrentTime) and bounds the clock difference by the round trip -- which is only sound
// if the peer read its clock while it served THAT request.  The real status handler is asked repeatedly,
// back to back and with pauses around one second, and every answer's CurrentTime must lie between the
// start and the end of its own request.

import (
	"encoding/json"
	"fmt"
	"os"
	"strconv"
	"testing"
	"time"
)

func TestVerifC19Status(t *testing.T) {
	shard, _ := strconv.Atoi(os.Getenv("VERIF_SHARD"))
	res := &vSeqResult{EndStates: map[string]int{}}
	sigs := map[string]*vViol{}
	if shard == 0 {
		n, err := vStartNode(t.TempDir()+"/n", true)
		if err != nil {
			t.Fatal(err)
		}
		pauses := []time.Duration{0, 0, time.Millisecond, 10 * time.Millisecond, 100 * time.Millisecond, 300 * time.Millisecond, 600 * time.Millisecond, 900 * time.Millisecond, 1100 * time.Millisecond, 0, 50 * time.Millisecond}
		for round := 0; round < 2; round++ {
			for k, p := range pauses {
				time.Sleep(p)
				start := time.Now()
				r := n.admin("GET", "/", map[string]string{"Accept": "application/json"}, "")
				end := time.Now()
				res.Ops++
				var st struct{ CurrentTime time.Time }
				if r.Code != 200 || json.Unmarshal([]byte(r.Body), &st) != nil || st.CurrentTime.IsZero() {
					res.HarnessErr = fmt.Sprintf("HARNESS: status page: %d %.200s", r.Code, r.Body)
					break
				}
				// wall-clock readings (the monotonic part is stripped by Round(0)) of one process: ordered
				if st.CurrentTime.Before(start.Round(0)) || st.CurrentTime.After(end.Round(0)) {
					res.report(sigs, "C19", "status page reports a clock reading taken outside the request", fmt.Sprintf("request %d (pause %v before it): started %s, ended %s, CurrentTime %s (%v before the start)", k, p, start.Format(time.RFC3339Nano), end.Format(time.RFC3339Nano), st.CurrentTime.Format(time.RFC3339Nano), start.Sub(st.CurrentTime)), []string{"c19status"})
				}
			}
		}
		res.Sequences++
		res.EndStates["status answers with the clock read inside the request"] = res.Ops
		n.Stop()
	}
	b, _ := json.Marshal(res)
	if o := os.Getenv("VERIF_OUT"); o != "" {
		os.WriteFile(o, b, 0644)
	} else {
		fmt.Println(string(b))
	}
}
