//go:build verif

package main

// C18 part 2 (package main readers): raft log entries written by the real (*FSM).Apply into the
// real irclog store and read back by
//   - LevelDBStore.GetLog and raftlog.FromBytes (as in the store-level part),
//   - the text-log dump dumpLogToDisk1 (inline decoder in logdump.go; observable: CSV rows),
//   - the decoding loop of (*FSM).Snapshot (inline decoder in statemachine.go; observable: which
//     entries it compacts - decided from the decoded timestamp/id/index - and the sessions that the
//     compacted CreateSession entries leave in the snapshot state),
//   - robustSnapshot.Persist + (*FSM).Restore (decodeProtobuf / decodeJson [+ ConvertToProto];
//     observable: the entries in the irclog store after the restore, and the sessions).
//
// One round = one FSM on fresh directories; all payloads (every message x {protobuf, JSON}) are
// applied at consecutive indexes from a base index.  Rounds = mode {protobuf, JSON, protobuf snapshot restored by a JSON node, JSON snapshot
// restored by a protobuf node} x base index x term x extensions x append time x compaction cut
// {1000ns (some entries compacted), 0 (all retained)}; full cartesian product.
// The compaction cut is pinned through the repository's own -canary_compaction_start flag, no
// wall clock is involved in any expected value.

import (
	"bytes"
	"crypto/sha1"
	"encoding/binary"
	"encoding/csv"
	"encoding/json"
	"fmt"
	"io"
	"math"
	"os"
	"path/filepath"
	"sort"
	"strconv"
	"strings"
	"testing"
	"time"

	"github.com/golang/protobuf/proto"
	"github.com/hashicorp/raft"
	"github.com/robustirc/rafthttp"
	"github.com/robustirc/robustirc/internal/ircserver"
	"github.com/robustirc/robustirc/internal/outputstream"
	"github.com/robustirc/robustirc/internal/raftlog"
	"github.com/robustirc/robustirc/internal/raftstore"
	"github.com/robustirc/robustirc/internal/robust"
)

type vC18Violation struct {
	Sig   string `json:"sig"`
	Desc  string `json:"desc"`
	Prop  string `json:"prop"`
	Count int    `json:"count"`
	Input string `json:"input,omitempty"`
}

type vC18Result struct {
	Part        string           `json:"part"`
	GridSize    int              `json:"grid_size"`
	Rounds      int              `json:"rounds"`
	Entries     int              `json:"entries_applied"`
	StoreReads  int              `json:"store_reads_compared"`
	DumpRows    int              `json:"dump_rows_compared"`
	Compacted   int              `json:"snapshot_entries_compacted"`
	Retained    int              `json:"snapshot_entries_retained"`
	Restored    int              `json:"restored_entries_compared"`
	Sessions    int              `json:"sessions_checked"`
	Evaluations int              `json:"evaluations"`
	Distinct    int              `json:"distinct_values"`
	Nontrivial  int              `json:"distinct_nontrivial"`
	Dims        map[string]int   `json:"dims"`
	Violations  []*vC18Violation `json:"violations"`
	Samples     []string         `json:"samples"`
}

func vC18Messages(thorough bool) []robust.Message {
	long := strings.Repeat("PRIVMSG #chan :0123456789abcdef ", 19)[:600]
	msgs := []robust.Message{
		{Type: robust.CreateSession, Data: "auth-x"},
		{Type: robust.CreateSession, Id: robust.Id{Id: math.MaxUint64}, Data: "é☃", UnixNano: 1},
		{Type: robust.CreateSession, Id: robust.Id{Id: 1 << 51}, Data: "auth \"q\" \\", UnixNano: math.MaxInt64},
		{Type: robust.IRCFromClient, Session: robust.Id{Id: 0x1122334455667788}, Data: "PRIVMSG #c :say \"hi\", \\ back\x00slash", ClientMessageId: 1, RemoteAddr: "192.0.2.7:1234"},
		{Type: robust.IRCFromClient, Id: robust.Id{Id: 1 << 50}, Session: robust.Id{Id: 0x0fedcba987654321}, Data: long, UnixNano: math.MaxInt64, ClientMessageId: math.MaxUint64, RemoteAddr: "[2001:db8::1]:54321"},
		{Type: robust.IRCFromClient, Session: robust.Id{Id: math.MaxUint64 - 1}, Data: "", UnixNano: 1},
		{Type: robust.IRCFromClient, Session: robust.Id{Id: 0x7777777777}, Data: "é☃,\"", UnixNano: 999, RemoteAddr: "a,b"},
		{Type: robust.IRCFromClient, Id: robust.Id{Id: 1<<50 + 1}, Session: robust.Id{Id: 0x7777777778}, Data: "ping :starts with p", UnixNano: 1001},
		{Type: robust.IRCFromClient, Id: robust.Id{Id: 1<<50 + 2}, Session: robust.Id{Id: 0x7777777779}, Data: "x\ny", UnixNano: math.MaxInt64 - 1, ClientMessageId: 2},
		{Type: robust.Ping, Servers: []string{"a.example:60667", "", "[2001:db8::3]:443"}, Currentmaster: "a.example:60667", UnixNano: math.MaxInt64},
		{Type: robust.Config, Data: "pnot-a-config", Revision: math.MaxUint64, UnixNano: 1},
		{Type: robust.DeleteSession, Id: robust.Id{Id: 1 << 52}, Session: robust.Id{Id: 0x5555555555}, Data: "bye"},
		{Type: robust.MessageOfDeath, Session: robust.Id{Id: 0x3333333333}, ClientMessageId: 1, Data: "JOIN #x"},
		{Type: robust.IRCToClient, Id: robust.Id{Id: 1 << 53, Reply: 5}, Data: ""},
		{Type: robust.Any, Id: robust.Id{Id: 0, Reply: 5}, Session: robust.Id{Id: 0x40826d776b433c17, Reply: 3}, Data: "x"},
	}
	if thorough {
		n := uint64(0)
		for _, t := range []robust.Type{robust.CreateSession, robust.DeleteSession, robust.IRCFromClient, robust.IRCToClient, robust.Ping, robust.MessageOfDeath, robust.Config, robust.Any} {
			for _, idKind := range []int{0, 1} {
				for _, nano := range []int64{0, 1, 1000, 1001, math.MaxInt64} {
					for _, d := range []string{"", "é☃ <&>,", "p\"\\\x00"} {
						n++
						if t == robust.Config && d == "" {
							d = "=" // an empty text is a valid configuration and would change the session expiration, i.e. the cut
						}
						id := uint64(0)
						if idKind == 1 {
							id = 1<<54 + n
						}
						msgs = append(msgs, robust.Message{Type: t, Id: robust.Id{Id: id, Reply: uint64(idKind) * 5}, Session: robust.Id{Id: 1<<44 + n}, Data: d,
							UnixNano: nano, Servers: []string{d}, ClientMessageId: n, Revision: n, RemoteAddr: d, Currentmaster: d})
					}
				}
			}
		}
	}
	return msgs
}

type vC18Entry struct {
	log      *raft.Log
	msg      robust.Message // as every reader must decode it (id defaulted)
	payload  string
	raw      []byte
	retained bool
}

func vC18Bytes(b []byte) string {
	if b == nil {
		return "nil"
	}
	if len(b) > 40 {
		return fmt.Sprintf("%q...(%d bytes)", b[:28], len(b))
	}
	return fmt.Sprintf("%q", b)
}

func vC18ShowLog(l *raft.Log) string {
	return fmt.Sprintf("{Index:%d Term:%d Type:%d Data:%s Extensions:%s AppendedAt:%s}", l.Index, l.Term, l.Type, vC18Bytes(l.Data), vC18Bytes(l.Extensions), l.AppendedAt.Format(time.RFC3339Nano))
}

func vC18DiffLog(got, want *raft.Log, skipData bool) []string {
	var f []string
	if got.Index != want.Index {
		f = append(f, "Index")
	}
	if got.Term != want.Term {
		f = append(f, "Term")
	}
	if got.Type != want.Type {
		f = append(f, "Type")
	}
	if !skipData && !bytes.Equal(got.Data, want.Data) {
		f = append(f, "Data")
	}
	if !bytes.Equal(got.Extensions, want.Extensions) {
		f = append(f, "Extensions")
	}
	if !got.AppendedAt.Equal(want.AppendedAt) {
		f = append(f, "AppendedAt")
	}
	return f
}

func vC18DiffMsg(got, want *robust.Message) []string {
	var f []string
	if got.Id != want.Id {
		f = append(f, "Id")
	}
	if got.Session != want.Session {
		f = append(f, "Session")
	}
	if got.Type != want.Type {
		f = append(f, "Type")
	}
	if got.Data != want.Data {
		f = append(f, "Data")
	}
	if got.UnixNano != want.UnixNano {
		f = append(f, "UnixNano")
	}
	if strings.Join(got.Servers, "\x01") != strings.Join(want.Servers, "\x01") || len(got.Servers) != len(want.Servers) {
		f = append(f, "Servers")
	}
	if got.Currentmaster != want.Currentmaster {
		f = append(f, "Currentmaster")
	}
	if got.ClientMessageId != want.ClientMessageId {
		f = append(f, "ClientMessageId")
	}
	if got.Revision != want.Revision {
		f = append(f, "Revision")
	}
	if got.RemoteAddr != want.RemoteAddr {
		f = append(f, "RemoteAddr")
	}
	return f
}

type vC18Round struct {
	mode    string // "protobuf", "JSON", "JSON snapshot restored with protobuf"
	base    uint64
	term    uint64
	ext     []byte
	at      time.Time
	cutNano int64
	offset  uint64 // robust.MessageOffset of the round (0, or the production default)
}

func (r *vC18Round) String() string {
	return fmt.Sprintf("mode=%s base index=%d term=%d extensions=%s appended=%s compaction cut=%dns message offset=%d", r.mode, r.base, r.term, vC18Bytes(r.ext), r.at.Format(time.RFC3339Nano), r.cutNano, r.offset)
}

type vC18Ctx struct {
	t    *testing.T
	res  *vC18Result
	sigs map[string]*vC18Violation
	seen map[[sha1.Size]byte]struct{}
}

func (c *vC18Ctx) report(sig, desc, input string) {
	sig = "C18:" + sig
	if v, ok := c.sigs[sig]; ok {
		v.Count++
		return
	}
	v := &vC18Violation{Sig: sig, Desc: desc, Prop: "C18", Count: 1, Input: input}
	c.sigs[sig] = v
	c.res.Violations = append(c.res.Violations, v)
}

func vC18RawValues(s *raftstore.LevelDBStore, first, last uint64) map[uint64][]byte {
	out := map[uint64][]byte{}
	it := s.GetBulkIterator(first, last+1)
	defer it.Release()
	for ok := it.First(); ok; ok = it.Next() {
		out[binary.BigEndian.Uint64(it.Key())] = append([]byte(nil), it.Value()...)
	}
	return out
}

// vC18Dump runs the real text-log dump into a fresh directory and returns the CSV records.
func vC18Dump(fsm *FSM, dir string) ([][]string, error) {
	if err := dumpLogToDisk1(fsm, dir); err != nil {
		return nil, err
	}
	files, _ := filepath.Glob(filepath.Join(dir, "*", "*.csv"))
	if len(files) != 1 {
		return nil, fmt.Errorf("expected one csv file below %s, found %d", dir, len(files))
	}
	f, err := os.Open(files[0])
	if err != nil {
		return nil, err
	}
	defer f.Close()
	r := csv.NewReader(f)
	r.FieldsPerRecord = -1
	var recs [][]string
	for {
		rec, err := r.Read()
		if err == io.EOF {
			break
		}
		if err != nil {
			return recs, err
		}
		recs = append(recs, rec)
	}
	return recs, nil
}

func (c *vC18Ctx) compareDump(when string, rd *vC18Round, got [][]string, want [][]string, wantSrc []string) {
	for i := 0; i < len(want) || i < len(got); i++ {
		c.res.DumpRows++
		c.res.Evaluations++
		if i >= len(got) {
			c.report("text-log dump misses a row", fmt.Sprintf("%s, round %s: row %d for %s missing (got %d rows, want %d)", when, rd, i, wantSrc[i], len(got), len(want)), wantSrc[i])
			return
		}
		if i >= len(want) {
			c.report("text-log dump has an unexpected row", fmt.Sprintf("%s, round %s: extra row %q", when, rd, got[i]), "")
			return
		}
		names := []string{"id", "remote address", "session", "timestamp", "text"}
		if len(got[i]) != len(want[i]) {
			c.report("text-log dump row has the wrong number of columns", fmt.Sprintf("%s, round %s: row %q for %s", when, rd, got[i], wantSrc[i]), wantSrc[i])
			continue
		}
		bad := false
		for k := range want[i] {
			if got[i][k] != want[i][k] {
				bad = true
				c.report("text-log dump shows a different "+names[k], fmt.Sprintf("%s, round %s: entry %s: row %q, want %q", when, rd, wantSrc[i], got[i], want[i]), wantSrc[i])
			}
		}
		if bad {
			return // the following rows may be shifted
		}
	}
}

func (c *vC18Ctx) storeReaders(s *raftstore.LevelDBStore, writer string, e *vC18Entry, raw []byte, decodeData bool) {
	var l1 raft.Log
	err := s.GetLog(e.log.Index, &l1)
	type rd struct {
		name string
		l    *raft.Log
		err  error
	}
	rds := []rd{{"GetLog", &l1, err}}
	l2, err := raftlog.FromBytes(raw)
	if l2 == nil {
		l2 = &raft.Log{}
	}
	rds = append(rds, rd{"raftlog.FromBytes", l2, err})
	for _, r := range rds {
		c.res.StoreReads++
		c.res.Evaluations++
		if r.err != nil {
			c.report(r.name+" fails on an entry written by "+writer, fmt.Sprintf("entry %s: %v", vC18ShowLog(e.log), r.err), vC18ShowLog(e.log))
			continue
		}
		for _, f := range vC18DiffLog(r.l, e.log, decodeData) {
			c.report(fmt.Sprintf("%s of an entry written by %s differs in %s", r.name, writer, f), fmt.Sprintf("applied %s, read %s", vC18ShowLog(e.log), vC18ShowLog(r.l)), vC18ShowLog(e.log))
		}
		if decodeData {
			var gm robust.Message
			var perr interface{}
			func() {
				defer func() { perr = recover() }()
				gm = robust.NewMessageFromBytes(r.l.Data, robust.IdFromRaftIndex(e.log.Index))
			}()
			if perr != nil {
				c.report("payload of an entry written by "+writer+" cannot be decoded", fmt.Sprintf("applied %s, read %s: %v", vC18ShowLog(e.log), vC18ShowLog(r.l), perr), vC18ShowLog(e.log))
				continue
			}
			for _, f := range vC18DiffMsg(&gm, &e.msg) {
				c.report(fmt.Sprintf("message inside an entry written by %s differs in %s", writer, f), fmt.Sprintf("applied %s (message %+v), %s reads message %+v", vC18ShowLog(e.log), e.msg, r.name, gm), vC18ShowLog(e.log))
			}
		}
	}
}

func TestVerifC18FSM(t *testing.T) {
	shard, _ := strconv.Atoi(os.Getenv("VERIF_SHARD"))
	nshards, _ := strconv.Atoi(os.Getenv("VERIF_NSHARDS"))
	if nshards == 0 {
		nshards = 1
	}
	thorough := os.Getenv("VERIF_TIER") == "thorough"
	defer func() { robust.MessageOffset = 0 }()
	offsets := []uint64{0, 4648398125000000000} // 0 and the default of -robustirc_message_offset

	modes := []string{"protobuf", "JSON", "JSON snapshot restored with protobuf", "protobuf snapshot restored with JSON"}
	bases := []uint64{1, 7, 1 << 40}
	terms := []uint64{0, 3}
	exts := [][]byte{nil, {1, 2, 0, 255}, {}}
	times := []time.Time{{}, time.Date(2024, 2, 29, 23, 59, 59, 999999999, time.UTC), time.Date(2031, 7, 1, 12, 0, 0, 5, time.FixedZone("", 2*3600+1800))}
	cuts := []int64{1000, 0}
	if thorough {
		bases = append(bases, 2, 1<<32)
		terms = append(terms, math.MaxUint64)
		exts = append(exts, []byte("p{\"json\":1}"))
		times = append(times, time.Unix(-1, 1))
	}
	msgs := vC18Messages(thorough)
	var rounds []vC18Round
	for _, m := range modes {
		for _, b := range bases {
			for _, tm := range terms {
				for _, e := range exts {
					for _, at := range times {
						for _, cut := range cuts {
							// the offset dimension is spread over the other dimensions (every combination of
							// mode x base index gets both offsets) to keep the grid size
							off := offsets[(len(rounds)/len(cuts))%len(offsets)]
							rounds = append(rounds, vC18Round{m, b, tm, e, at, cut, off})
						}
					}
				}
			}
		}
	}
	res := &vC18Result{Part: "fsm", GridSize: len(rounds) * len(msgs) * 2, Dims: map[string]int{
		"modes": len(modes), "base_indexes": len(bases), "terms": len(terms), "extensions": len(exts), "append_times": len(times),
		"compaction_cuts": len(cuts), "messages": len(msgs), "payload_encodings": 2,
	}}
	c := &vC18Ctx{t: t, res: res, sigs: map[string]*vC18Violation{}, seen: map[[sha1.Size]byte]struct{}{}}

	tmp := t.TempDir()
	logstore, err := raftstore.NewLevelDBStore(filepath.Join(tmp, "raftlog"), false, true)
	if err != nil {
		t.Fatal(err)
	}
	defer logstore.Close()
	*network = "c18.example"
	exp := 10 * time.Minute

	for ri := range rounds {
		if ri%nshards != shard {
			continue
		}
		rd := &rounds[ri]
		res.Rounds++
		dir := filepath.Join(tmp, fmt.Sprintf("r%d", ri))
		if err := os.MkdirAll(dir, 0700); err != nil {
			t.Fatal(err)
		}
		*raftDir = dir
		robust.MessageOffset = rd.offset
		*useProtobuf = rd.mode == "protobuf" || rd.mode == "protobuf snapshot restored with JSON"
		// compactionEnd = Unix(0, canaryCompactionStart) - (sessionExpiration + expireSessionsInterval) = Unix(0, cut)
		*canaryCompactionStart = rd.cutNano + int64(exp+expireSessionsInterval)
		compactionEnd := time.Unix(0, rd.cutNano)

		ircServer = ircserver.NewIRCServer(*network, time.Unix(0, 1))
		outputStream, err = outputstream.NewOutputStream(dir)
		if err != nil {
			t.Fatal(err)
		}
		ircstore, err := raftstore.NewLevelDBStore(filepath.Join(dir, "irclog"), false, *useProtobuf)
		if err != nil {
			t.Fatal(err)
		}
		fsm := &FSM{
			store:                logstore,
			ircstore:             ircstore,
			lastSnapshotState:    make(map[uint64][]byte),
			sessionExpirationDur: exp,
			ReplaceState:         func(*ircserver.IRCServer, *raftstore.LevelDBStore, *outputstream.OutputStream) {},
		}

		// ---- entries of the round, expected-compacted ones first (Snapshot stops at the first retained one)
		type cand struct {
			m       robust.Message
			payload string
			data    []byte
		}
		var cands []cand
		for i := range msgs {
			pm, err := proto.Marshal(msgs[i].ProtoMessage())
			if err != nil {
				t.Fatal(err)
			}
			jm, err := json.Marshal(&msgs[i])
			if err != nil {
				t.Fatal(err)
			}
			cands = append(cands, cand{msgs[i], fmt.Sprintf("message %d as 'p'+protobuf", i), append([]byte{'p'}, pm...)})
			cands = append(cands, cand{msgs[i], fmt.Sprintf("message %d as JSON", i), jm})
		}
		// the expected timestamp depends on the index when id and UnixNano are absent; the index depends
		// on the position.  Entries whose retention does not depend on the index are ordered first
		// (compacted), then the index-dependent ones, then the surely retained ones.
		class := func(m *robust.Message) int {
			if m.UnixNano == 0 && m.Id.Id == 0 {
				return 1
			}
			if m.Timestamp().After(compactionEnd) {
				return 2
			}
			return 0
		}
		sort.SliceStable(cands, func(i, j int) bool { return class(&cands[i].m) < class(&cands[j].m) })
		entries := make([]*vC18Entry, len(cands))
		for i, cd := range cands {
			idx := rd.base + uint64(i)
			want := cd.m
			if want.Id.Id == 0 {
				want.Id.Id = robust.IdFromRaftIndex(idx)
			}
			entries[i] = &vC18Entry{
				log:     &raft.Log{Index: idx, Term: rd.term, Type: raft.LogCommand, Data: cd.data, Extensions: rd.ext, AppendedAt: rd.at},
				msg:     want,
				payload: cd.payload,
			}
		}
		firstIdx, lastIdx := entries[0].log.Index, entries[len(entries)-1].log.Index
		// what Snapshot must do: everything before the first entry whose timestamp is after the cut is compacted
		firstRetained := -1
		for i, e := range entries {
			if e.msg.Timestamp().After(compactionEnd) {
				firstRetained = i
				break
			}
		}
		if firstRetained < 0 {
			t.Fatalf("round %s: harness expects at least one retained entry", rd)
		}
		for i, e := range entries {
			e.retained = i >= firstRetained
		}

		// ---- writer: (*FSM).Apply
		for _, e := range entries {
			cp := *e.log
			var perr interface{}
			func() {
				defer func() { perr = recover() }()
				fsm.Apply(&cp)
			}()
			if perr != nil {
				t.Fatalf("round %s: Apply(%s) panicked: %v", rd, vC18ShowLog(e.log), perr)
			}
			res.Entries++
		}
		raws := vC18RawValues(fsm.ircstore, firstIdx, lastIdx)
		for _, e := range entries {
			e.raw = raws[e.log.Index]
			if e.raw == nil {
				c.report("entry applied by FSM.Apply is not in the irclog store", fmt.Sprintf("round %s: %s", rd, vC18ShowLog(e.log)), vC18ShowLog(e.log))
				continue
			}
			h := sha1.Sum(e.raw)
			if _, ok := c.seen[h]; !ok {
				c.seen[h] = struct{}{}
				res.Distinct++
				res.Nontrivial++ // every entry carries a message payload
			}
			c.storeReaders(fsm.ircstore, "FSM.Apply ("+rd.mode+")", e, e.raw, false)
		}

		// output batches for the dump: two replies under every IRCFromClient id
		outs := map[uint64][]outputstream.Message{}
		for _, e := range entries {
			if e.msg.Type != robust.IRCFromClient {
				continue
			}
			batch := []outputstream.Message{
				{Id: robust.Id{Id: e.msg.Id.Id, Reply: 1}, Data: ":c18.example 451 " + e.msg.Data, InterestingFor: map[uint64]bool{e.msg.Session.Id: true}},
				{Id: robust.Id{Id: e.msg.Id.Id, Reply: 2}, Data: "é☃,\"\\", InterestingFor: map[uint64]bool{e.msg.Session.Id: true, 1: true}},
			}
			if _, dup := outs[e.msg.Id.Id]; dup {
				continue // same message in the other payload encoding with an explicit id
			}
			if err := outputStream.Add(batch); err != nil {
				t.Fatal(err)
			}
			outs[e.msg.Id.Id] = batch
		}

		// ---- reader: text-log dump (before the snapshot: all entries present)
		wantRows := func(onlyRetained bool, withOutputs bool) (rows [][]string, src []string) {
			for _, e := range entries {
				if e.msg.Type != robust.IRCFromClient || (onlyRetained && !e.retained) {
					continue
				}
				ts := e.msg.Timestamp().Format(time.RFC3339)
				rows = append(rows, []string{strconv.FormatUint(e.msg.Id.Id, 10) + ".0", e.msg.RemoteAddr, fmt.Sprintf("0x%x", e.msg.Session.Id), ts, e.msg.Data})
				src = append(src, vC18ShowLog(e.log)+" ("+e.payload+")")
				if withOutputs {
					for _, om := range outs[e.msg.Id.Id] {
						rows = append(rows, []string{fmt.Sprintf("%d.%d", om.Id.Id, om.Id.Reply), "", "", ts, om.Data})
						src = append(src, "reply of "+vC18ShowLog(e.log))
					}
				}
			}
			return
		}
		recs, err := vC18Dump(fsm, filepath.Join(dir, "dump1"))
		if err != nil {
			c.report("text-log dump fails on entries written by FSM.Apply", fmt.Sprintf("round %s: %v", rd, err), rd.String())
		} else {
			w, src := wantRows(false, true)
			c.compareDump("dump of the applied entries", rd, recs, w, src)
		}

		// ---- reader: the decoding loop of Snapshot
		snap, err := fsm.Snapshot()
		if err != nil {
			c.report("FSM.Snapshot fails on entries written by FSM.Apply", fmt.Sprintf("round %s: %v", rd, err), rd.String())
			fsm.ircstore.Close()
			outputStream.Close()
			continue
		}
		rs := snap.(*robustSnapshot)
		res.Evaluations++
		if rs.firstIndex != entries[firstRetained].log.Index || rs.lastIndex != lastIdx {
			c.report("FSM.Snapshot keeps a different range than the timestamps of the stored messages define",
				fmt.Sprintf("round %s: snapshot covers [%d,%d], want [%d,%d] (first entry after the cut: %s, message %+v)", rd, rs.firstIndex, rs.lastIndex, entries[firstRetained].log.Index, lastIdx, vC18ShowLog(entries[firstRetained].log), entries[firstRetained].msg), rd.String())
		}
		for _, e := range entries {
			var l raft.Log
			err := fsm.ircstore.GetLog(e.log.Index, &l)
			res.Evaluations++
			if e.retained {
				res.Retained++
				if err != nil {
					c.report("FSM.Snapshot compacts an entry whose timestamp is after the cut", fmt.Sprintf("round %s: %s (%s, message %+v, timestamp %d ns)", rd, vC18ShowLog(e.log), e.payload, e.msg, e.msg.Timestamp().UnixNano()), vC18ShowLog(e.log))
				}
			} else {
				res.Compacted++
				if err == nil {
					c.report("FSM.Snapshot retains an entry whose timestamp is before the cut", fmt.Sprintf("round %s: %s (%s, message %+v, timestamp %d ns)", rd, vC18ShowLog(e.log), e.payload, e.msg, e.msg.Timestamp().UnixNano()), vC18ShowLog(e.log))
				}
			}
		}

		// ---- Persist + Restore
		fss, err := raft.NewFileSnapshotStore(dir, 5, io.Discard)
		if err != nil {
			t.Fatal(err)
		}
		sink, err := fss.Create(1, lastIdx, 1, raft.Configuration{}, 0, &rafthttp.HTTPTransport{})
		if err != nil {
			t.Fatal(err)
		}
		if err := snap.Persist(sink); err != nil {
			c.report("robustSnapshot.Persist fails", fmt.Sprintf("round %s: %v", rd, err), rd.String())
			sink.Cancel()
			fsm.ircstore.Close()
			outputStream.Close()
			continue
		}
		sink.Close()
		if rd.mode == "JSON snapshot restored with protobuf" {
			*useProtobuf = true
		}
		if rd.mode == "protobuf snapshot restored with JSON" {
			// rolling upgrade: a node that still runs with the legacy encoding gets the snapshot of an upgraded one
			*useProtobuf = false
		}
		snaps, err := fss.List()
		if err != nil || len(snaps) == 0 {
			t.Fatalf("round %s: no snapshot listed: %v", rd, err)
		}
		_, rc, err := fss.Open(snaps[0].ID)
		if err != nil {
			t.Fatal(err)
		}
		var perr interface{}
		func() {
			defer func() { perr = recover() }()
			err = fsm.Restore(rc)
		}()
		if perr != nil || err != nil {
			c.report("FSM.Restore fails on a snapshot written by Persist", fmt.Sprintf("round %s: error %v, panic %v", rd, err, perr), rd.String())
			fsm.ircstore.Close()
			outputStream.Close()
			continue
		}
		raws2 := vC18RawValues(fsm.ircstore, 0, math.MaxUint64-1)
		converted := rd.mode == "JSON snapshot restored with protobuf"
		for _, e := range entries {
			raw2, present := raws2[e.log.Index]
			delete(raws2, e.log.Index)
			res.Evaluations++
			if !e.retained {
				if present {
					c.report("entry compacted by the snapshot reappears after Restore", fmt.Sprintf("round %s: %s", rd, vC18ShowLog(e.log)), vC18ShowLog(e.log))
				}
				continue
			}
			if !present {
				c.report("entry retained by the snapshot is missing after Restore", fmt.Sprintf("round %s: %s (%s)", rd, vC18ShowLog(e.log), e.payload), vC18ShowLog(e.log))
				continue
			}
			res.Restored++
			c.storeReaders(fsm.ircstore, "Persist+Restore ("+rd.mode+")", e, raw2, converted)
			if (rd.mode == "protobuf" || rd.mode == "protobuf snapshot restored with JSON") && !bytes.Equal(raw2, e.raw) {
				c.report("entry restored from a protobuf snapshot is not byte-identical to the stored entry", fmt.Sprintf("round %s: %s: stored %x, restored %x", rd, vC18ShowLog(e.log), e.raw, raw2), vC18ShowLog(e.log))
			}
		}
		for idx := range raws2 {
			c.report("Restore creates an entry that was never stored", fmt.Sprintf("round %s: index %d", rd, idx), rd.String())
		}
		// sessions: every CreateSession entry (folded into the state by Snapshot's decoder or replayed
		// by Restore's decoder) leaves a session under the decoded id with the decoded timestamp
		for _, e := range entries {
			if e.msg.Type != robust.CreateSession {
				continue
			}
			res.Sessions++
			res.Evaluations++
			how := "compacted into the snapshot state"
			if e.retained {
				how = "replayed by Restore"
			}
			s, err := ircServer.GetSession(e.msg.Id)
			if err != nil {
				c.report("session of a CreateSession entry is missing after snapshot and restore ("+how+")", fmt.Sprintf("round %s: %s (%s): want session %d.%d: %v", rd, vC18ShowLog(e.log), e.payload, e.msg.Id.Id, e.msg.Id.Reply, err), vC18ShowLog(e.log))
				continue
			}
			if s.Created != e.msg.Timestamp().UnixNano() {
				c.report("session of a CreateSession entry has a different creation time after snapshot and restore ("+how+")", fmt.Sprintf("round %s: %s (%s): session %d created %d, want %d", rd, vC18ShowLog(e.log), e.payload, e.msg.Id.Id, s.Created, e.msg.Timestamp().UnixNano()), vC18ShowLog(e.log))
			}
		}
		// ---- reader: text-log dump on the restored store (output stream is fresh: no reply rows)
		recs, err = vC18Dump(fsm, filepath.Join(dir, "dump2"))
		if err != nil {
			c.report("text-log dump fails on a restored store", fmt.Sprintf("round %s: %v", rd, err), rd.String())
		} else {
			w, src := wantRows(true, false)
			c.compareDump("dump of the restored entries", rd, recs, w, src)
		}
		// ---- reader: the decoding loop of Snapshot on the entries written by Restore (a second snapshot on
		// the restored node that folds everything old enough): every CreateSession entry it folds must be
		// in the state it produces
		*canaryCompactionStart = math.MaxInt64 / 2
		compactionEnd2 := time.Unix(0, *canaryCompactionStart).Add(-(fsm.sessionExpirationDur + expireSessionsInterval))
		snap2, err := fsm.Snapshot()
		if err != nil {
			c.report("FSM.Snapshot fails on entries written by Restore", fmt.Sprintf("round %s: %v", rd, err), rd.String())
		} else {
			st := ircserver.NewIRCServer(*network, time.Unix(0, 1))
			if _, err := st.Unmarshal(snap2.(*robustSnapshot).state); err != nil {
				c.report("state of a snapshot taken on a restored node cannot be loaded", fmt.Sprintf("round %s: %v", rd, err), rd.String())
			} else {
				folding := true
				for _, e := range entries {
					if e.retained && e.msg.Timestamp().After(compactionEnd2) {
						folding = false // Snapshot stops at the first entry that is too new
					}
					if e.msg.Type != robust.CreateSession || (e.retained && !folding) {
						continue
					}
					res.Evaluations++
					if _, err := st.GetSession(e.msg.Id); err != nil {
						c.report("session of a CreateSession entry is missing from the state of a snapshot taken on the restored node", fmt.Sprintf("round %s: %s (%s): want session %d.%d: %v", rd, vC18ShowLog(e.log), e.payload, e.msg.Id.Id, e.msg.Id.Reply, err), vC18ShowLog(e.log))
					}
				}
			}
		}
		if len(res.Samples) < 3 {
			e := entries[firstRetained]
			res.Samples = append(res.Samples, fmt.Sprintf("round %s: %d entries applied at indexes %d..%d, %d compacted by Snapshot, first retained %s (%s)", rd, len(entries), firstIdx, lastIdx, firstRetained, vC18ShowLog(e.log), e.payload))
		}
		fsm.ircstore.Close()
		outputStream.Close()
		os.RemoveAll(dir)
	}

	b, _ := json.Marshal(res)
	if out := os.Getenv("VERIF_OUT"); out != "" {
		os.WriteFile(out, b, 0644)
	} else {
		fmt.Println(string(b))
	}
}
