//go:build verif

package main

// Conformance of the glue mirror (ircserver.VerifApply) with the real
// (*FSM).applyRobustMessage of statemachine.go: the same entries are applied through
// both on twin instances; the canonical dumps must agree after every entry and the
// batch the real glue wrote to a real output stream must equal the mirror's replies.

import (
	"encoding/json"
	"fmt"
	"os"
	"sort"
	"strconv"
	"strings"
	"testing"

	"github.com/robustirc/robustirc/internal/ircserver"
	"github.com/robustirc/robustirc/internal/outputstream"
	"github.com/robustirc/robustirc/internal/robust"
)

func verifRecips(m map[uint64]bool) string {
	var rs []string
	for id, ok := range m {
		if ok {
			rs = append(rs, strconv.FormatUint(id, 10))
		}
	}
	sort.Strings(rs)
	return strings.Join(rs, ",")
}

func TestVerifGlueConformance(t *testing.T) {
	shard, _ := strconv.Atoi(os.Getenv("VERIF_SHARD"))
	nshards, _ := strconv.Atoi(os.Getenv("VERIF_NSHARDS"))
	if nshards == 0 {
		nshards = 1
	}
	type result struct {
		Histories  int                     `json:"histories"`
		Entries    int                     `json:"entries_compared"`
		Batches    int                     `json:"output_batches_compared"`
		Violations []*ircserver.VViolation `json:"violations"`
	}
	res := &result{}
	fsm := &FSM{lastSnapshotState: make(map[uint64][]byte)}
	report := func(sc string, hist []ircserver.VEntry, desc string) {
		if len(res.Violations) > 3 {
			return
		}
		res.Violations = append(res.Violations, &ircserver.VViolation{Sig: "C01:glue mirror disagrees with statemachine.go", Desc: desc, Scenario: sc, Hist: hist, Count: 1, Prop: "glue"})
	}
	tmp := t.TempDir()
	for k, sc := range ircserver.VerifScenarios() {
		if k%nshards != shard {
			continue
		}
		res.Histories++
		build := func() (*ircserver.IRCServer, *ircserver.VInst, *outputstream.OutputStream) {
			real := ircserver.VerifNewServer()
			o, err := outputstream.NewOutputStream(tmp)
			if err != nil {
				t.Fatal(err)
			}
			mir := ircserver.VerifNewInst()
			for _, e := range sc.Hist {
				fsm.applyRobustMessage(e.Msg(), real, o)
				mir.Apply(e)
			}
			return real, mir, o
		}
		real, mir, o := build()
		base := ircserver.VerifDump(real, ircserver.VerifDumpOpts{NoStamps: true})
		if d1, d2 := ircserver.VerifDump(real, ircserver.VerifDumpOpts{}), ircserver.VerifDump(mir.Srv, ircserver.VerifDumpOpts{}); d1 != d2 {
			report(sc.Name, sc.Hist, "state after the scripted prefix differs")
		}
		for _, e := range ircserver.VerifEntriesFor(mir, false) {
			var perr interface{}
			func() {
				defer func() { perr = recover() }()
				fsm.applyRobustMessage(e.Msg(), real, o)
			}()
			st := mir.Apply(e)
			res.Entries++
			if perr != nil && os.Getenv("VERIF_GLUE_PROP") == "C06" {
				// C06: the entry panics in the real state-machine glue of statemachine.go (whatever the mirror does)
				msg := fmt.Sprint(perr)
				if len(msg) > 80 {
					msg = msg[:80]
				}
				sig := fmt.Sprintf("C06:panic while applying a %s entry through the glue of statemachine.go (%s)", e.Type, msg)
				dup := false
				for _, v := range res.Violations {
					if v.Sig == sig {
						v.Count++
						dup = true
					}
				}
				if !dup {
					res.Violations = append(res.Violations, &ircserver.VViolation{Sig: sig, Desc: fmt.Sprintf("scenario %s, entry %s: %v", sc.Name, e.String(), perr), Scenario: sc.Name, Hist: append(append([]ircserver.VEntry(nil), sc.Hist...), e), Count: 1, Prop: "C06glue"})
				}
			}
			if (perr != nil) != (st.Panic != nil) {
				report(sc.Name, append(append([]ircserver.VEntry(nil), sc.Hist...), e), fmt.Sprintf("panic behaviour differs: real=%v mirror=%v", perr, st.Panic))
			}
			if perr == nil {
				d1 := ircserver.VerifDump(real, ircserver.VerifDumpOpts{})
				d2 := ircserver.VerifDump(mir.Srv, ircserver.VerifDumpOpts{})
				if d1 != d2 {
					report(sc.Name, append(append([]ircserver.VEntry(nil), sc.Hist...), e), "state after the entry differs between real glue and mirror")
				}
				msgs, ok := o.Get(robust.Id{Id: e.Id})
				if ok != (len(st.Msgs) > 0) {
					report(sc.Name, append(append([]ircserver.VEntry(nil), sc.Hist...), e), fmt.Sprintf("output batch presence differs: stream=%v mirror=%d replies", ok, len(st.Msgs)))
				} else if ok {
					res.Batches++
					if len(msgs) != len(st.Msgs) {
						report(sc.Name, append(append([]ircserver.VEntry(nil), sc.Hist...), e), "number of replies differs")
					} else {
						for n := range msgs {
							if msgs[n].Id != st.Msgs[n].Id || msgs[n].Data != st.Msgs[n].Data || verifRecips(msgs[n].InterestingFor) != verifRecips(st.Msgs[n].InterestingFor) {
								report(sc.Name, append(append([]ircserver.VEntry(nil), sc.Hist...), e), fmt.Sprintf("reply %d differs: %v vs %v", n, msgs[n], st.Msgs[n]))
							}
						}
					}
				}
			}
			// the next entry carries the same id: start again from the scripted state whenever
			// anything changed (or panicked), otherwise only drop the batch just written
			if perr != nil || st.Panic != nil || ircserver.VerifDump(real, ircserver.VerifDumpOpts{NoStamps: true}) != base {
				o.Close()
				real, mir, o = build()
			} else {
				if _, ok := o.Get(robust.Id{Id: e.Id}); ok {
					o.Delete(robust.Id{Id: e.Id})
				}
				mir.Hist = mir.Hist[:len(sc.Hist)]
			}
		}
		o.Close()
	}
	b, _ := json.Marshal(res)
	if out := os.Getenv("VERIF_OUT"); out != "" {
		os.WriteFile(out, b, 0644)
	} else {
		fmt.Println(string(b))
	}
}
