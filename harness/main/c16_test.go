//go:build verif

package main

// C16: a configuration update is accepted only if it parses and names the revision in force;
// each accepted update raises the revision by exactly one and every replica (log-fed: restart,
// snapshot-fed: forced compacting snapshot + restart) uses the same new configuration; a
// rejected or unparsable update changes nothing; GLINE bans are part of the replicated
// configuration.
//
// All sequences of a given depth over the operation alphabet below are executed on the
// in-process single-node network (real raft, real FSM, real LevelDB stores, real handlers)
// next to a tiny reference model (revision, configuration in force incl. GLINE bans).  The
// expected configurations are hand-written Go literals (not produced by the repository's
// parser).  After EVERY operation the oracle compares: status code, durable log, canonical
// state dump (rejected updates), GET /config (header + body field by field), the compaction
// window kept by the FSM, and config-dependent behaviour (login/captcha, OPER, trusted
// bridges, allowed origins, bans; the `traffic` operation adds services passwords,
// MaxChannels and MaxSessions).

import (
	"bytes"
	"crypto/hmac"
	"crypto/sha256"
	"encoding/base64"
	"encoding/json"
	"fmt"
	"net/http/httptest"
	"net/url"
	"os"
	"reflect"
	"sort"
	"strconv"
	"strings"
	"testing"
	"time"

	"github.com/hashicorp/raft"
	"github.com/robustirc/robustirc/internal/config"
	"github.com/robustirc/robustirc/internal/ircserver"
	"github.com/robustirc/robustirc/internal/robust"
)

const (
	c16DefaultRemote = "192.0.2.10:4711"
	c16KnownOrigins  = "WhitelistedOrigins lost on a snapshot-fed replica"

	// (CaptchaURL: a value that net/url does not parse -- no captcha is required in this configuration, the value is
	// only carried; an update is judged by the TOML decoder alone.)
	// (UnknownSetting: a key this version does not know -- a typo, or a setting of a newer version -- is
	// ignored by the TOML decoder; an update carrying it is accepted like any other and must take effect)
	c16TomlA = `SessionExpiration = "30m"
PostMessageCooloff = "0s"
UnknownSetting = 1
CaptchaURL = "192.0.2.10:8443/"
MaxSessions = 5
MaxChannels = 2
[IRC]
[[IRC.Operators]]
Name = "roota"
Password = "operpwa"
[[IRC.Services]]
Password = "svcpwa"
[TrustedBridges]
bridgekeya = "bridge-a"
[WhitelistedOrigins]
"https://a.example" = true
`
	c16TomlB = `SessionExpiration = "45m"
PostMessageCooloff = "1.25ms"
CaptchaURL = "https://captcha.example/c"
CaptchaHMACSecret = "00112233445566778899aabbccddeeff00112233445566778899aabbccddeeff"
CaptchaRequiredForLogin = true
MaxSessions = 7
MaxChannels = 3
[IRC]
[[IRC.Operators]]
Name = "rootb"
Password = "operpwb"
[[IRC.Operators]]
Name = "rootb2"
Password = "operpwb2"
[[IRC.Operators]]
Name = "rootb"
Password = "operpwb3"
[[IRC.Services]]
Password = "svcpwb"
[TrustedBridges]
bridgekeyb = "bridge-b"
[WhitelistedOrigins]
"https://b.example" = true
[Banned]
"198.51.100.200" = "config ban"
`
	c16TomlInvalid   = "SessionExpiration = [\nMaxSessions = 3\n"
	c16TomlWrongType = "SessionExpiration = \"30m\"\nMaxSessions = \"many\"\n"
)

func c16ModelA() config.Network {
	return config.Network{
		IRC: config.IRC{
			Operators: []config.IRCOp{{Name: "roota", Password: "operpwa"}},
			Services:  []config.Service{{Password: "svcpwa"}},
		},
		SessionExpiration:  config.Duration(30 * time.Minute),
		PostMessageCooloff: 0,
		TrustedBridges:     map[string]string{"bridgekeya": "bridge-a"},
		CaptchaURL:         "192.0.2.10:8443/",
		MaxSessions:        5,
		MaxChannels:        2,
		Banned:             map[string]string{},
		WhitelistedOrigins: map[string]bool{"https://a.example": true},
	}
}

func c16ModelB() config.Network {
	secret := make([]byte, 32)
	for i := range secret {
		secret[i] = byte((i%16)*16 + i%16) // 00 11 22 .. ff 00 11 ..
	}
	return config.Network{
		IRC: config.IRC{
			Operators: []config.IRCOp{{Name: "rootb", Password: "operpwb"}, {Name: "rootb2", Password: "operpwb2"},
				// a second entry for a name that is already taken: OPER walks the whole list, both passwords are valid
				{Name: "rootb", Password: "operpwb3"}},
			Services: []config.Service{{Password: "svcpwb"}},
		},
		SessionExpiration:       config.Duration(45 * time.Minute),
		PostMessageCooloff:      config.Duration(1250 * time.Microsecond), // not a whole number of milliseconds
		TrustedBridges:          map[string]string{"bridgekeyb": "bridge-b"},
		CaptchaURL:              "https://captcha.example/c",
		CaptchaHMACSecret:       config.HexString(secret),
		CaptchaRequiredForLogin: true,
		MaxSessions:             7,
		MaxChannels:             3,
		Banned:                  map[string]string{"198.51.100.200": "config ban"},
		WhitelistedOrigins:      map[string]bool{"https://b.example": true},
	}
}

func c16HugeBans() map[string]string {
	m := map[string]string{}
	for k := 0; k < 1700; k++ {
		m[fmt.Sprintf("203.%d.%d.7", k/250, k%250)] = fmt.Sprintf("ban number %04d of a long list", k)
	}
	return m
}

func c16HugeToml() string {
	var b strings.Builder
	b.WriteString(c16TomlA)
	b.WriteString("[Banned]\n")
	bans := c16HugeBans()
	keys := make([]string, 0, len(bans))
	for k := range bans {
		keys = append(keys, k)
	}
	sort.Strings(keys)
	for _, k := range keys {
		fmt.Fprintf(&b, "%q = %q\n", k, bans[k])
	}
	return b.String()
}

func c16ModelHuge() config.Network {
	m := c16ModelA()
	m.Banned = c16HugeBans()
	return m
}

func c16ModelDefault() config.Network {
	// what config.DefaultConfig documents: 10 minutes expiration, 500 ms cool-off, nothing else
	return config.Network{
		SessionExpiration:  config.Duration(10 * time.Minute),
		PostMessageCooloff: config.Duration(500 * time.Millisecond),
		Banned:             map[string]string{},
	}
}

type c16Result struct {
	vSeqResult
	Requests int `json:"requests"`
	Accepted int `json:"accepted"`
	Refused  int `json:"refused"`
	Glines   int `json:"glines"`
	Probes   int `json:"probes"`
}

type c16Sess struct {
	vSession
	remote string
}

// c16Run is the state of one sequence: node, reference model, bookkeeping.
type c16Run struct {
	n    *vNode
	res  *c16Result
	sigs map[string]*vViol
	seq  []string
	oi   int
	op   string

	// reference model
	rev  uint64
	cfg  config.Network
	name string

	// bookkeeping (classification only, never an expected value)
	folded  bool // a compacting snapshot was taken after the last accepted update
	snapFed bool // the node was restarted from such a snapshot and no update was accepted since

	cmid    uint64
	nick    int
	glines  int
	failed  bool // an unexpected violation was reported: stop this sequence
	harness error
}

func (c *c16Run) where() string {
	return fmt.Sprintf("after op %d (%s) of %v [model: revision %d, config %s, %d bans]", c.oi, c.op, c.seq, c.rev, c.name, len(c.cfg.Banned))
}

func (c *c16Run) opClass() string {
	if strings.HasPrefix(c.op, "post") {
		return "config post"
	}
	return c.op
}

// report files a violation.  tolerated ones (the known finding and its sibling) do not end the sequence.
func (c *c16Run) report(sig, desc string, tolerated bool) {
	c.res.report(c.sigs, "C16", sig, desc+" -- "+c.where(), c.seq)
	if !tolerated {
		c.failed = true
	}
}

func (c *c16Run) nextNick(prefix string) string {
	c.nick++
	return fmt.Sprintf("%s%d", prefix, c.nick)
}

// ---------------------------------------------------------------- requests

func (c *c16Run) public(method, path string, hdr map[string]string, body, remote string) vResp {
	c.res.Requests++
	req := httptest.NewRequest(method, "https://"+vPeerAddr+path, strings.NewReader(body))
	req.RemoteAddr = remote
	for k, v := range hdr {
		req.Header.Set(k, v)
	}
	w := httptest.NewRecorder()
	c.n.api.DispatchPublic(w, req)
	return vResp{Code: w.Code, Body: w.Body.String(), Header: w.Result().Header}
}

func (c *c16Run) create(remote string) (c16Sess, vResp) {
	r := c.public("POST", "/robustirc/v1/session", nil, "", remote)
	var s struct{ Sessionid, Sessionauth string }
	json.Unmarshal([]byte(r.Body), &s)
	num, _ := strconv.ParseUint(s.Sessionid, 0, 64)
	return c16Sess{vSession{Id: s.Sessionid, Auth: s.Sessionauth, Num: num}, remote}, r
}

func (c *c16Run) lastEntry() (robust.Message, bool) {
	idx, err := c.n.logStore.LastIndex()
	if err != nil || idx == 0 {
		return robust.Message{}, false
	}
	var l raft.Log
	if err := c.n.logStore.GetLog(idx, &l); err != nil || l.Type != raft.LogCommand {
		return robust.Message{}, false
	}
	return robust.NewMessageFromBytes(l.Data, robust.IdFromRaftIndex(l.Index)), true
}

// post sends one IRC line and returns the HTTP answer, the lines addressed to the session in
// reply to it and the log entry it became.
func (c *c16Run) post(s c16Sess, data string, hdr map[string]string) (vResp, []string, robust.Message) {
	c.cmid++
	b, _ := json.Marshal(struct {
		Data            string
		ClientMessageId uint64
	}{data, c.cmid})
	h := map[string]string{"X-Session-Auth": s.Auth}
	for k, v := range hdr {
		h[k] = v
	}
	r := c.public("POST", "/robustirc/v1/"+s.Id+"/message", h, string(b), s.remote)
	if r.Code != 200 {
		return r, nil, robust.Message{}
	}
	e, ok := c.lastEntry()
	if !ok || e.Type != robust.IRCFromClient || e.Session.Id != s.Num || e.ClientMessageId != c.cmid {
		c.harness = fmt.Errorf("HARNESS: last log entry is not the line just posted (%q by %s): %+v", data, s.Id, e)
		return r, nil, e
	}
	msgs, _ := outputStream.Get(robust.Id{Id: e.Id.Id})
	var lines []string
	for _, m := range msgs {
		if m.InterestingFor[s.Num] {
			lines = append(lines, m.Data)
		}
	}
	return r, lines, e
}

func (c *c16Run) del(s c16Sess) {
	b, _ := json.Marshal(struct{ Quitmessage string }{"bye"})
	c.public("DELETE", "/robustirc/v1/"+s.Id, map[string]string{"X-Session-Auth": s.Auth}, string(b), s.remote)
}

func c16Has(lines []string, sub string) bool {
	for _, l := range lines {
		if strings.Contains(l, sub) {
			return true
		}
	}
	return false
}

func c16B64(b []byte) string { return base64.StdEncoding.EncodeToString(b) }

func c16Captcha(secret []byte) string {
	purpose := []byte(fmt.Sprintf("okay:login:%d:", time.Now().UnixNano()))
	challenge := []byte("c16chall")
	mac := hmac.New(sha256.New, secret)
	mac.Write(purpose)
	mac.Write(challenge)
	return c16B64(purpose) + "." + c16B64(challenge) + "." + c16B64(mac.Sum(nil))
}

// behaviour reports a difference in config-dependent behaviour.
func (c *c16Run) behaviour(what, desc string) {
	c.report(fmt.Sprintf("config-dependent behaviour differs after %s [%s]", c.opClass(), what), desc, false)
}

// login registers the session according to the configuration of the model (captcha if required)
// and checks every answer on the way.  hdrs[k] are extra headers for the k-th line.
func (c *c16Run) login(s c16Sess, nick string, hdrs ...map[string]string) bool {
	h := func(k int) map[string]string {
		if k < len(hdrs) {
			return hdrs[k]
		}
		return nil
	}
	if r, lines, _ := c.post(s, "NICK "+nick, h(0)); r.Code != 200 || c16Has(lines, "ERROR") {
		c.behaviour("login", fmt.Sprintf("NICK %s from %s answered %d %q %q", nick, s.remote, r.Code, r.Body, lines))
		return false
	}
	r, lines, _ := c.post(s, "USER "+nick+" 0 * :"+nick, h(1))
	if r.Code != 200 {
		c.behaviour("login", fmt.Sprintf("USER answered %d %q", r.Code, r.Body))
		return false
	}
	if !c.cfg.CaptchaRequiredForLogin {
		if !c16Has(lines, " 001 ") {
			c.behaviour("login without captcha", fmt.Sprintf("the configuration in force does not require a captcha, but NICK+USER did not log in: %q", lines))
			return false
		}
		return true
	}
	// a captcha is required: the challenge must point to the configured URL and be signed with the configured secret
	if c16Has(lines, " 001 ") {
		c.behaviour("captcha required for login", fmt.Sprintf("the configuration in force requires a captcha, but NICK+USER logged in without one: %q", lines))
		return false
	}
	var challenge string
	for _, l := range lines {
		if i := strings.Index(l, "To login, please go to "); i >= 0 {
			challenge = l[i+len("To login, please go to "):]
		}
	}
	if !strings.HasPrefix(challenge, c.cfg.CaptchaURL+"#") {
		c.behaviour("captcha URL", fmt.Sprintf("captcha challenge %q does not point to the configured CaptchaURL %q (replies %q)", challenge, c.cfg.CaptchaURL, lines))
		return false
	}
	if u, err := url.Parse(challenge); err == nil {
		parts := strings.Split(u.Fragment, ".")
		ok := false
		if len(parts) == 3 {
			p0, e0 := base64.StdEncoding.DecodeString(parts[0])
			p1, e1 := base64.StdEncoding.DecodeString(parts[1])
			p2, e2 := base64.StdEncoding.DecodeString(parts[2])
			if e0 == nil && e1 == nil && e2 == nil {
				mac := hmac.New(sha256.New, c.cfg.CaptchaHMACSecret)
				mac.Write(p0)
				mac.Write(p1)
				ok = hmac.Equal(mac.Sum(nil), p2)
			}
		}
		if !ok {
			c.behaviour("captcha secret", fmt.Sprintf("captcha challenge %q is not signed with the configured CaptchaHMACSecret", challenge))
			return false
		}
	}
	r, lines, _ = c.post(s, "PASS captcha="+c16Captcha(c.cfg.CaptchaHMACSecret), h(2))
	if r.Code != 200 || !c16Has(lines, " 001 ") {
		c.behaviour("captcha secret", fmt.Sprintf("a captcha signed with the configured CaptchaHMACSecret was not accepted for login: %d %q", r.Code, lines))
		return false
	}
	return true
}

func (c *c16Run) isOper(name, pw string) bool {
	for _, o := range c.cfg.IRC.Operators {
		if o.Name == name && o.Password == pw {
			return true
		}
	}
	return false
}

func (c *c16Run) isService(pw string) bool {
	for _, s := range c.cfg.IRC.Services {
		if s.Password == pw {
			return true
		}
	}
	return false
}

func (c *c16Run) origin(what string, r vResp, origin string) {
	got := r.Header.Get("Access-Control-Allow-Origin")
	want := ""
	if c.cfg.WhitelistedOrigins[origin] {
		want = origin
	}
	if got == want {
		return
	}
	if c.snapFed && got == "" {
		c.report(c16KnownOrigins, fmt.Sprintf("%s with Origin %s: Access-Control-Allow-Origin %q, the configuration in force allows the origin", what, origin, got), true)
		return
	}
	c.behaviour("allowed origins", fmt.Sprintf("%s with Origin %s: Access-Control-Allow-Origin %q, want %q", what, origin, got, want))
}

func (c *c16Run) bridge(e robust.Message, key, fwd string, s c16Sess) {
	want := strings.Split(s.remote, ":")[0]
	if c.cfg.TrustedBridges[key] != "" {
		want = fwd
	}
	if e.RemoteAddr != want {
		c.behaviour("trusted bridges", fmt.Sprintf("line posted from %s with X-Bridge-Auth %s and X-Forwarded-For %s was logged with remote address %q, want %q", s.remote, key, fwd, e.RemoteAddr, want))
	}
}

// probe exercises config-dependent behaviour and compares it with the model.  All sessions it
// creates are gone afterwards.
func (c *c16Run) probe(full bool) {
	c.res.Probes++
	p, r := c.create(c16DefaultRemote)
	if r.Code != 200 {
		c.behaviour("session limit", fmt.Sprintf("creating the first session answered %d %q (limit of the model: %d)", r.Code, r.Body, c.cfg.MaxSessions))
		return
	}
	defer c.del(p)
	c.origin("OPTIONS /robustirc/v1/session", c.public("OPTIONS", "/robustirc/v1/session", map[string]string{"Origin": "https://a.example"}, "", c16DefaultRemote), "https://a.example")
	c.origin("OPTIONS /robustirc/v1/session", c.public("OPTIONS", "/robustirc/v1/session", map[string]string{"Origin": "https://b.example"}, "", c16DefaultRemote), "https://b.example")
	if c.failed || !c.login(p, c.nextNick("pr")) {
		return
	}
	// OPER with the credentials of A and of B; the same lines carry the bridge keys of A and of B
	for _, t := range []struct{ name, pw, key, fwd string }{
		{"roota", "operpwa", "bridgekeya", "203.0.113.1"},
		{"rootb2", "operpwb2", "bridgekeyb", "203.0.113.2"},
	} {
		r, lines, e := c.post(p, "OPER "+t.name+" "+t.pw, map[string]string{"X-Bridge-Auth": t.key, "X-Forwarded-For": t.fwd + ", 10.0.0.1"})
		if r.Code != 200 {
			c.behaviour("OPER", fmt.Sprintf("OPER answered %d %q", r.Code, r.Body))
			return
		}
		want := " 464 "
		if c.isOper(t.name, t.pw) {
			want = " 381 "
		}
		if !c16Has(lines, want) {
			c.behaviour("OPER", fmt.Sprintf("OPER %s %s answered %q, want%s", t.name, t.pw, lines, want))
			return
		}
		c.bridge(e, t.key, t.fwd, p)
		if c.failed {
			return
		}
	}
	// bans (from the posted configuration and from GLINE): the first line from a banned address closes the link
	var addrs []string
	for a := range c.cfg.Banned {
		addrs = append(addrs, a)
	}
	sort.Strings(addrs)
	for _, a := range addrs {
		x, r := c.create(a + ":4711")
		if r.Code != 200 {
			c.behaviour("session limit", fmt.Sprintf("creating a second session answered %d %q (limit of the model: %d)", r.Code, r.Body, c.cfg.MaxSessions))
			return
		}
		_, lines, _ := c.post(x, "NICK "+c.nextNick("bn"), nil)
		if !c16Has(lines, "ERROR :Closing Link: You are banned ("+c.cfg.Banned[a]+")") {
			c.del(x)
			c.behaviour("ban enforcement", fmt.Sprintf("first line from the banned address %s (reason %q) answered %q", a, c.cfg.Banned[a], lines))
			return
		}
		if _, err := ircServer.GetSession(robust.Id{Id: x.Num}); err == nil {
			c.del(x)
			c.behaviour("ban enforcement", fmt.Sprintf("session from the banned address %s still exists after the ban message", a))
			return
		}
	}
	if !full {
		return
	}
	// services passwords of A and of B
	for _, pw := range []string{"svcpwa", "svcpwb"} {
		s, r := c.create(c16DefaultRemote)
		if r.Code != 200 {
			c.behaviour("session limit", fmt.Sprintf("creating a second session answered %d %q (limit of the model: %d)", r.Code, r.Body, c.cfg.MaxSessions))
			return
		}
		c.post(s, "PASS services="+pw, nil)
		_, lines, _ := c.post(s, "SERVER services.example 1 :services", nil)
		c.del(s)
		linked := c16Has(lines, "SERVER") && !c16Has(lines, "Invalid password")
		if linked != c.isService(pw) {
			c.behaviour("services password", fmt.Sprintf("services link with password %s: linked=%v (replies %q), the model says %v", pw, linked, lines, c.isService(pw)))
			return
		}
	}
	// MaxChannels: no channel exists (every session of earlier operations is gone)
	nch := int(c.cfg.MaxChannels)
	if nch == 0 {
		nch = 4 // unlimited: all of them must be created
	}
	var names []string
	for k := 1; k <= nch+1; k++ {
		names = append(names, fmt.Sprintf("#c16-%d", k))
	}
	_, lines, _ := c.post(p, "JOIN "+strings.Join(names, ","), nil)
	for k, name := range names {
		refused := c16Has(lines, " 403 ") && c16Has(lines, name+" :No such channel")
		joined := false
		for _, l := range lines {
			if strings.Contains(l, " JOIN ") && strings.HasSuffix(l, name) {
				joined = true
			}
		}
		wantJoined := c.cfg.MaxChannels == 0 || uint64(k) < c.cfg.MaxChannels
		if joined != wantJoined || refused == wantJoined {
			c.behaviour("MaxChannels", fmt.Sprintf("JOIN of new channel number %d (%s): joined=%v refused=%v, MaxChannels of the model is %d (replies %q)", k+1, name, joined, refused, c.cfg.MaxChannels, lines))
			return
		}
	}
	// MaxSessions: one session (the probe's) exists
	lim := int(c.cfg.MaxSessions)
	if lim == 0 {
		lim = 8 // unlimited: all of them must be created
	}
	var made []c16Sess
	defer func() {
		for _, s := range made {
			c.del(s)
		}
	}()
	for k := 2; k <= lim+1; k++ {
		s, r := c.create(c16DefaultRemote)
		if r.Code == 200 {
			made = append(made, s)
		}
		want := 200
		if c.cfg.MaxSessions > 0 && uint64(k) > c.cfg.MaxSessions {
			want = 429
		}
		if r.Code != want {
			c.behaviour("MaxSessions", fmt.Sprintf("creating session number %d answered %d %q, want %d (MaxSessions of the model is %d)", k, r.Code, r.Body, want, c.cfg.MaxSessions))
			return
		}
	}
}

// ---------------------------------------------------------------- GET /config against the model

func c16SameStrMap(a, b map[string]string) bool {
	if len(a) != len(b) {
		return false
	}
	for k, v := range a {
		if w, ok := b[k]; !ok || w != v {
			return false
		}
	}
	return true
}

func c16Origins(m map[string]bool) []string {
	var out []string
	for k, v := range m {
		if v {
			out = append(out, k)
		}
	}
	sort.Strings(out)
	return out
}

type c16Diff struct{ field, got, want string }

func c16Compare(got, want config.Network) []c16Diff {
	var d []c16Diff
	add := func(f string, g, w interface{}) {
		d = append(d, c16Diff{f, fmt.Sprintf("%+v", g), fmt.Sprintf("%+v", w)})
	}
	if len(got.IRC.Operators) != len(want.IRC.Operators) || (len(got.IRC.Operators) > 0 && !reflect.DeepEqual(got.IRC.Operators, want.IRC.Operators)) {
		add("IRC.Operators", got.IRC.Operators, want.IRC.Operators)
	}
	if len(got.IRC.Services) != len(want.IRC.Services) || (len(got.IRC.Services) > 0 && !reflect.DeepEqual(got.IRC.Services, want.IRC.Services)) {
		add("IRC.Services", got.IRC.Services, want.IRC.Services)
	}
	if got.SessionExpiration != want.SessionExpiration {
		add("SessionExpiration", got.SessionExpiration, want.SessionExpiration)
	}
	if got.PostMessageCooloff != want.PostMessageCooloff {
		add("PostMessageCooloff", got.PostMessageCooloff, want.PostMessageCooloff)
	}
	if !c16SameStrMap(got.TrustedBridges, want.TrustedBridges) {
		add("TrustedBridges", got.TrustedBridges, want.TrustedBridges)
	}
	if got.CaptchaURL != want.CaptchaURL {
		add("CaptchaURL", got.CaptchaURL, want.CaptchaURL)
	}
	if !bytes.Equal(got.CaptchaHMACSecret, want.CaptchaHMACSecret) {
		add("CaptchaHMACSecret", got.CaptchaHMACSecret.String(), want.CaptchaHMACSecret.String())
	}
	if got.CaptchaRequiredForLogin != want.CaptchaRequiredForLogin {
		add("CaptchaRequiredForLogin", got.CaptchaRequiredForLogin, want.CaptchaRequiredForLogin)
	}
	if got.MaxSessions != want.MaxSessions {
		add("MaxSessions", got.MaxSessions, want.MaxSessions)
	}
	if got.MaxChannels != want.MaxChannels {
		add("MaxChannels", got.MaxChannels, want.MaxChannels)
	}
	if !c16SameStrMap(got.Banned, want.Banned) {
		add("Banned", got.Banned, want.Banned)
	}
	if g, w := c16Origins(got.WhitelistedOrigins), c16Origins(want.WhitelistedOrigins); strings.Join(g, " ") != strings.Join(w, " ") {
		add("WhitelistedOrigins", g, w)
	}
	return d
}

func (c *c16Run) getConfig() vResp {
	c.res.Requests++
	return c.n.admin("GET", "/config", nil, "")
}

// checkConfig compares GET /config and the FSM's compaction window with the model.
func (c *c16Run) checkConfig() {
	g := c.getConfig()
	if g.Code != 200 {
		c.report("GET /config fails after "+c.opClass(), fmt.Sprintf("GET /config answered %d %q", g.Code, g.Body), false)
		return
	}
	if h := g.Header.Get("X-RobustIRC-Config-Revision"); h != strconv.FormatUint(c.rev, 10) {
		c.report("GET /config reports a revision other than the one in force after "+c.opClass(), fmt.Sprintf("X-RobustIRC-Config-Revision %q, want %d", h, c.rev), false)
		return
	}
	got, err := config.FromString(g.Body)
	if err != nil {
		c.report("GET /config body does not parse after "+c.opClass(), fmt.Sprintf("%v: %q", err, g.Body), false)
		return
	}
	for _, d := range c16Compare(got, c.cfg) {
		if d.field == "WhitelistedOrigins" && c.snapFed && d.got == "[]" {
			c.report(c16KnownOrigins, fmt.Sprintf("GET /config shows WhitelistedOrigins %s, the configuration in force has %s", d.got, d.want), true)
			continue
		}
		c.report(fmt.Sprintf("GET /config differs from the configuration in force after %s [%s]", c.opClass(), d.field), fmt.Sprintf("%s: GET /config shows %s, want %s", d.field, d.got, d.want), false)
	}
	// the FSM keeps its own copy of the expiration for the compaction window (0 = 10 minutes)
	eff := func(d time.Duration) time.Duration {
		if d == 0 {
			return 10 * time.Minute
		}
		return d
	}
	if g, w := eff(c.n.fsm.sessionExpiration()), eff(time.Duration(c.cfg.SessionExpiration)); g != w {
		if c.snapFed {
			c.report("compaction window does not follow the configured SessionExpiration on a snapshot-fed replica", fmt.Sprintf("the FSM compacts messages older than %v (+%v), the configuration in force says %v", g, expireSessionsInterval, w), true)
		} else {
			c.report("compaction window does not follow the configured SessionExpiration after "+c.opClass(), fmt.Sprintf("the FSM compacts messages older than %v (+%v), the configuration in force says %v", g, expireSessionsInterval, w), false)
		}
	}
}

// ---------------------------------------------------------------- operations

type c16Before struct {
	log  []robust.Message
	dump string
	cfg  vResp
}

func (c *c16Run) before() c16Before {
	return c16Before{log: c.n.logEntries(), dump: ircserver.VerifDump(ircServer, ircserver.VerifDumpOpts{}), cfg: c.getConfig()}
}

func (c *c16Run) unchanged(b c16Before, kind string) {
	if l := c.n.logEntries(); len(l) != len(b.log) {
		c.report("rejected update changed state [log entry appended]", fmt.Sprintf("%s: the log grew from %d to %d command entries, last %+v", kind, len(b.log), len(l), l[len(l)-1]), false)
	}
	if d := ircserver.VerifDump(ircServer, ircserver.VerifDumpOpts{}); d != b.dump {
		c.report("rejected update changed state [state dump]", fmt.Sprintf("%s: canonical state before %q, after %q", kind, b.dump, d), false)
	}
	g := c.getConfig()
	if g.Body != b.cfg.Body || g.Header.Get("X-RobustIRC-Config-Revision") != b.cfg.Header.Get("X-RobustIRC-Config-Revision") {
		c.report("rejected update changed state [GET /config]", fmt.Sprintf("%s: GET /config before: revision %s %q, after: revision %s %q", kind, b.cfg.Header.Get("X-RobustIRC-Config-Revision"), b.cfg.Body, g.Header.Get("X-RobustIRC-Config-Revision"), g.Body), false)
	}
}

func (c *c16Run) postConfig(kind string) {
	var body string
	var hdr map[string]string
	accept := false
	var newCfg config.Network
	var newName string
	rev := func(v uint64) map[string]string {
		return map[string]string{"X-RobustIRC-Config-Revision": strconv.FormatUint(v, 10)}
	}
	badSig := ""
	switch kind {
	case "postA":
		body, hdr, accept, newCfg, newName = c16TomlA, rev(c.rev), true, c16ModelA(), "A"
	case "postB":
		body, hdr, accept, newCfg, newName = c16TomlB, rev(c.rev), true, c16ModelB(), "B"
	case "postInvalid":
		body, hdr, badSig = c16TomlInvalid, rev(c.rev), "unparsable update accepted [invalid TOML]"
	case "postWrongType":
		body, hdr, badSig = c16TomlWrongType, rev(c.rev), "unparsable update accepted [wrong value type]"
	case "postStale":
		// revision in force minus one; when the revision in force is 0 there is no older revision and
		// the header carries 2^64-1 (0-1 in the header's number space)
		body, hdr, badSig = c16TomlB, rev(c.rev-1), "stale revision accepted"
	case "postFuture":
		body, hdr, badSig = c16TomlA, rev(c.rev+1), "future revision accepted"
	case "postNoHeader":
		body, hdr, badSig = c16TomlB, nil, "update without a revision accepted"
	case "postHuge":
		// a valid document of more than 64 KiB (a long ban list): every part of it has to be in force
		body, hdr, accept, newCfg, newName = c16HugeToml(), rev(c.rev), true, c16ModelHuge(), "huge"
	case "postHugeBad":
		// more than 64 KiB, and the part that does not parse lies behind byte 65536
		body, hdr, badSig = c16TomlA+"# "+strings.Repeat("padding padding padding padding padding padding padding padding\n# ", 1100)+"\nBroken = [\n", rev(c.rev), "unparsable update accepted [syntax error behind 64 KiB]"
	}
	b := c.before()
	c.res.Requests++
	r := c.n.admin("POST", "/config", hdr, body)
	if !accept {
		c.res.Refused++
		if r.Code == 200 {
			c.report(badSig, fmt.Sprintf("%s (header %v, revision in force %d) answered 200", kind, hdr, c.rev), false)
		} else if r.Code != 400 {
			c.report("rejected update answered with a status other than 400", fmt.Sprintf("%s (header %v) answered %d %q", kind, hdr, r.Code, r.Body), false)
		}
		c.unchanged(b, kind)
		return
	}
	c.res.Accepted++
	if r.Code != 200 {
		c.report("valid update naming the revision in force refused", fmt.Sprintf("%s with revision %d answered %d %q", kind, c.rev, r.Code, r.Body), false)
		return
	}
	l := c.n.logEntries()
	if len(l) != len(b.log)+1 {
		c.report("accepted update did not append exactly one log entry", fmt.Sprintf("%s: the log went from %d to %d command entries", kind, len(b.log), len(l)), false)
		return
	}
	if e := l[len(l)-1]; e.Type != robust.Config || e.Revision != c.rev+1 || e.Data != body {
		c.report("revision not raised by exactly one", fmt.Sprintf("%s with revision %d in force appended the entry {Type:%v Revision:%d Data:%q}, want a Config entry with revision %d and the posted text", kind, c.rev, e.Type, e.Revision, e.Data, c.rev+1), false)
		return
	}
	if h := c.getConfig().Header.Get("X-RobustIRC-Config-Revision"); h != strconv.FormatUint(c.rev+1, 10) {
		c.report("revision not raised by exactly one", fmt.Sprintf("%s with revision %d in force: GET /config now reports revision %q, want %d", kind, c.rev, h, c.rev+1), false)
		return
	}
	c.rev++
	c.cfg, c.name = newCfg, newName
	c.folded, c.snapFed = false, false
}

func (c *c16Run) gline() {
	c.res.Glines++
	c.glines++
	addr := fmt.Sprintf("198.51.100.%d", 10+c.glines)
	reason := fmt.Sprintf("reason %d", c.glines)
	o, r := c.create(c16DefaultRemote)
	if r.Code != 200 {
		c.behaviour("session limit", fmt.Sprintf("creating the first session answered %d %q", r.Code, r.Body))
		return
	}
	defer c.del(o)
	if !c.login(o, c.nextNick("op")) {
		return
	}
	// the credentials of the configuration in force (its last operator); without operators nobody can GLINE
	name, pw := "roota", "operpwa"
	if k := len(c.cfg.IRC.Operators); k > 0 {
		name, pw = c.cfg.IRC.Operators[k-1].Name, c.cfg.IRC.Operators[k-1].Password
	}
	isOper := c.isOper(name, pw)
	_, lines, _ := c.post(o, "OPER "+name+" "+pw, nil)
	if isOper != c16Has(lines, " 381 ") {
		c.behaviour("OPER", fmt.Sprintf("OPER %s %s answered %q, the model says operator=%v", name, pw, lines, isOper))
		return
	}
	v, r := c.create(addr + ":4711")
	if r.Code != 200 {
		c.behaviour("session limit", fmt.Sprintf("creating a second session answered %d %q", r.Code, r.Body))
		return
	}
	vnick := c.nextNick("vic")
	if !c.login(v, vnick) {
		c.del(v)
		return
	}
	b := c.before()
	_, lines, e := c.post(o, "GLINE "+vnick+" :"+reason, nil)
	_, verr := ircServer.GetSession(robust.Id{Id: v.Num})
	if !isOper {
		if !c16Has(lines, " 481 ") || verr != nil {
			c.report("GLINE by a session that is not an operator took effect", fmt.Sprintf("GLINE answered %q, victim session present=%v", lines, verr == nil), false)
		}
		if g := c.getConfig(); g.Body != b.cfg.Body {
			c.report("GLINE by a session that is not an operator took effect", fmt.Sprintf("GET /config before %q, after %q", b.cfg.Body, g.Body), false)
		}
		c.del(v)
		return
	}
	if verr == nil {
		c.del(v)
		c.report("GLINE did not remove the session", fmt.Sprintf("GLINE %s answered %q, the victim session still exists", vnick, lines), false)
		return
	}
	if e.Type != robust.IRCFromClient {
		c.harness = fmt.Errorf("HARNESS: GLINE line was not logged")
		return
	}
	c.cfg.Banned[addr] = reason
}

func (c *c16Run) snapshot() error {
	c.res.Snapshots++
	time.Sleep(2 * time.Millisecond) // raft names snapshots by term-index-millisecond
	// The snapshot folds every entry but the last one into the serialized state (the path a replica
	// fed by a snapshot depends on).  The cut is pinned with the repository's own
	// -canary_compaction_start flag: compactionEnd = flag - (expiration + expireSessionsInterval).
	// A session that comes and goes supplies the last (retained) entry.
	s, r := c.create(c16DefaultRemote)
	if r.Code == 200 {
		c.del(s)
	}
	last, ok := c.lastEntry()
	if !ok {
		return fmt.Errorf("HARNESS: no command entry in the log before the snapshot")
	}
	exp := c.n.fsm.sessionExpiration()
	if exp == 0 {
		exp = 10 * time.Minute
	}
	exp += expireSessionsInterval
	*canaryCompactionStart = last.Timestamp().UnixNano() - 1 + int64(exp)
	if err := c.n.raft.Snapshot().Error(); err != nil {
		return fmt.Errorf("HARNESS: snapshot: %v", err)
	}
	c.folded = true
	return nil
}

func (c *c16Run) fsmBad() {
	// a Config entry whose text does not parse, placed in the log behind the handler's back: the FSM
	// must skip it on every replica (and when folding it into a snapshot)
	b := c.before()
	m := &robust.Message{Type: robust.Config, Data: "SessionExpiration = [", Revision: c.rev + 1}
	if err := c.n.api.ApplyMessageWait(m, 10*time.Second); err != nil {
		c.harness = fmt.Errorf("HARNESS: applying the unparsable Config entry: %v", err)
		return
	}
	if d := ircserver.VerifDump(ircServer, ircserver.VerifDumpOpts{}); d != b.dump {
		c.report("unparsable Config entry in the log changed state [state dump]", fmt.Sprintf("canonical state before %q, after %q", b.dump, d), false)
	}
	g := c.getConfig()
	if g.Body != b.cfg.Body || g.Header.Get("X-RobustIRC-Config-Revision") != b.cfg.Header.Get("X-RobustIRC-Config-Revision") {
		c.report("unparsable Config entry in the log changed state [GET /config]", fmt.Sprintf("GET /config before: revision %s %q, after: revision %s %q", b.cfg.Header.Get("X-RobustIRC-Config-Revision"), b.cfg.Body, g.Header.Get("X-RobustIRC-Config-Revision"), g.Body), false)
	}
}

var c16Alphabet = []string{"postA", "postB", "postHuge", "postHugeBad", "postInvalid", "postWrongType", "postStale", "postFuture", "postNoHeader", "gline", "traffic", "snapshot", "restart", "fsmBad"}

func TestVerifC16(t *testing.T) {
	shard, _ := strconv.Atoi(os.Getenv("VERIF_SHARD"))
	nshards, _ := strconv.Atoi(os.Getenv("VERIF_NSHARDS"))
	if nshards == 0 {
		nshards = 1
	}
	depth := 3
	if os.Getenv("VERIF_TIER") == "thorough" {
		depth = 4
	}
	if d := os.Getenv("VERIF_DEPTH"); d != "" {
		depth, _ = strconv.Atoi(d)
	}
	var deadline time.Time
	if d := os.Getenv("VERIF_DEADLINE"); d != "" {
		sec, _ := strconv.ParseInt(d, 10, 64)
		deadline = time.Unix(sec, 0)
	}
	res := &c16Result{vSeqResult: vSeqResult{EndStates: map[string]int{}, Depth: depth}}
	sigs := map[string]*vViol{}
	base := t.TempDir()
	seqs := vSeqs(c16Alphabet, depth)
	if rp := os.Getenv("VERIF_REPLAY"); rp != "" {
		b, _ := os.ReadFile(rp)
		var v vViol
		json.Unmarshal(b, &v)
		seqs = [][]string{v.Seq}
		nshards, shard = 1, 0
	}
	if err := ircserver.VerifCheckInventory(); err != nil {
		res.HarnessErr = err.Error()
		seqs = nil
	}
	for si, seq := range seqs {
		if si%nshards != shard {
			continue
		}
		if !deadline.IsZero() && time.Now().After(deadline) {
			res.HarnessErr = "time cap reached"
			break
		}
		dir := fmt.Sprintf("%s/n%d", base, si)
		n, err := vStartNode(dir, true)
		if err != nil {
			t.Fatal(err)
		}
		c := &c16Run{n: n, res: res, sigs: sigs, seq: seq, op: "start", oi: -1, cfg: c16ModelDefault(), name: "default", cmid: 100}
		res.Sequences++
		// the freshly started network: revision 0, default configuration
		c.checkConfig()
		for oi, op := range seq {
			if c.failed || c.harness != nil {
				break
			}
			res.Ops++
			c.oi, c.op = oi, op
			switch op {
			case "gline":
				c.gline()
			case "traffic":
				c.probe(true)
			case "snapshot":
				if err := c.snapshot(); err != nil {
					c.harness = err
				}
			case "restart":
				res.Restarts++
				n.Stop()
				n, err = vStartNode(dir, false)
				if err != nil {
					t.Fatal(err)
				}
				c.n = n
				if c.folded {
					c.snapFed = true
				}
			case "fsmBad":
				c.fsmBad()
			default:
				c.postConfig(op)
			}
			// oracle after every operation
			if !c.failed && c.harness == nil {
				c.checkConfig()
			}
			if !c.failed && c.harness == nil {
				c.probe(false)
			}
			if !c.failed && c.harness == nil {
				c.checkConfig() // the probe's own traffic must not have changed the configuration
			}
		}
		res.EndStates[fmt.Sprintf("revision %d, config %s, %d bans, snapshot-fed=%v", c.rev, c.name, len(c.cfg.Banned), c.snapFed)]++
		if len(res.Samples) < 3 && si%89 == shard {
			res.Samples = append(res.Samples, fmt.Sprintf("%v: revision %d, config %s in force, bans %v, %d command entries in the log", seq, c.rev, c.name, c.cfg.Banned, len(n.logEntries())))
		}
		n.Stop()
		os.RemoveAll(dir)
		if c.harness != nil {
			res.HarnessErr = c.harness.Error() + fmt.Sprintf(" (sequence %v)", seq)
			break
		}
	}
	b, _ := json.Marshal(res)
	if o := os.Getenv("VERIF_OUT"); o != "" {
		os.WriteFile(o, b, 0644)
	} else {
		fmt.Println(string(b))
	}
}
