//go:build verif

package main

// C05, tier 2: acknowledged messages survive crashes, exactly once, in order.  A real
// single-node network (real raft, real FSM, real LevelDB, real HTTP handlers) runs in a
// CHILD PROCESS that executes commands sent by the parent; the parent enumerates all
// operation sequences up to a depth over {post, retry, forced snapshot, SIGKILL +
// restart, graceful restart, post-then-SIGKILL-without-waiting} and checks the streams
// every session is served before and after each fault.

import (
	"bufio"
	"encoding/json"
	"fmt"
	"os"
	"os/exec"
	"strconv"
	"strings"
	"syscall"
	"testing"
	"time"

	"github.com/robustirc/robustirc/internal/robust"
)

type c05Cmd struct {
	Op       string `json:"op"`
	VSid     string `json:"vsid,omitempty"` // drain: the sentinel session that posts the marker
	VAuth    string `json:"vauth,omitempty"`
	Sid      string `json:"sid,omitempty"`
	Auth     string `json:"auth,omitempty"`
	Num      uint64 `json:"num,omitempty"`
	Data     string `json:"data,omitempty"`
	Cmid     uint64 `json:"cmid,omitempty"`
	Lastseen string `json:"lastseen,omitempty"`
	// Aged: the snapshot is taken "20 minutes later" (compaction time = now + 20 min).  With the configured
	// expiration of 30 minutes nothing is old enough to be folded then; a node that forgot its configuration
	// (10 minutes by default) would fold -- and drop the output of -- everything.
	Aged bool `json:"aged,omitempty"`
	// Fold: the snapshot is taken "much later": every entry is old enough to be folded into the snapshot state
	Fold bool `json:"fold,omitempty"`
}

type c05Msg struct {
	Id    uint64 `json:"id"`
	Reply uint64 `json:"reply"`
	Data  string `json:"data"`
}

type c05Resp struct {
	Code  int      `json:"code"`
	Sid   string   `json:"sid,omitempty"`
	Auth  string   `json:"auth,omitempty"`
	Num   uint64   `json:"num,omitempty"`
	Msgs  []c05Msg `json:"msgs,omitempty"`
	Err   string   `json:"err,omitempty"`
	Cmids []uint64 `json:"cmids,omitempty"`
}

// TestVerifC05Node is the child: it serves commands on fd 3 (in) / fd 4 (out).
func TestVerifC05Node(t *testing.T) {
	dir := os.Getenv("VERIF_C05_DIR")
	if dir == "" {
		t.Skip("only runs as a child of TestVerifC05")
	}
	in := bufio.NewScanner(os.NewFile(3, "cmd-in"))
	in.Buffer(make([]byte, 1<<20), 1<<20)
	out := os.NewFile(4, "cmd-out")
	n, err := vStartNode(dir, os.Getenv("VERIF_C05_BOOTSTRAP") == "1")
	reply := func(r c05Resp) {
		b, _ := json.Marshal(r)
		out.Write(append(b, '\n'))
	}
	if err != nil {
		reply(c05Resp{Code: -1, Err: err.Error()})
		return
	}
	reply(c05Resp{Code: 200})
	for in.Scan() {
		var c c05Cmd
		if err := json.Unmarshal(in.Bytes(), &c); err != nil {
			reply(c05Resp{Code: -1, Err: err.Error()})
			continue
		}
		s := vSession{Id: c.Sid, Auth: c.Auth, Num: c.Num}
		switch c.Op {
		case "config":
			r := n.setConfig(c.Data)
			reply(c05Resp{Code: r.Code, Err: r.Body})
		case "create":
			s, r := n.createSession()
			reply(c05Resp{Code: r.Code, Sid: s.Id, Auth: s.Auth, Num: s.Num})
		case "post":
			r := n.post(s, c.Data, c.Cmid)
			reply(c05Resp{Code: r.Code, Err: r.Body})
		case "drain":
			if c.Cmid != 0 {
				vDrainCounter = int(c.Cmid) // unique across restarts of the child: supplied by the parent
			}
			msgs, err := n.drainVia(vSession{Id: c.VSid, Auth: c.VAuth}, s, c.Lastseen)
			resp := c05Resp{Code: 200}
			if err != nil {
				resp.Code, resp.Err = -1, err.Error()
			}
			for _, m := range msgs {
				d := m.Data
				if strings.Contains(d, " 003 ") {
					d = "<003: server start time, the one tolerated difference>"
				}
				resp.Msgs = append(resp.Msgs, c05Msg{Id: m.Id.Id, Reply: m.Id.Reply, Data: d})
			}
			reply(resp)
		case "snapshot":
			time.Sleep(2 * time.Millisecond)
			resp := c05Resp{Code: 200}
			if c.Aged {
				*canaryCompactionStart = time.Now().Add(20 * time.Minute).UnixNano()
			}
			if c.Fold {
				*canaryCompactionStart = time.Now().Add(1000 * time.Hour).UnixNano()
			}
			err := n.raft.Snapshot().Error()
			*canaryCompactionStart = 0
			if err != nil {
				resp.Code, resp.Err = -1, err.Error()
			}
			reply(resp)
		case "snapkill":
			// SIGKILL between FSM.Snapshot and Persist.  The compaction time is chosen so that every entry but
			// the newest is old enough to be folded (what FSM.Snapshot folds it removes from the log copy).
			time.Sleep(2 * time.Millisecond)
			if es := n.logEntries(); len(es) >= 2 {
				exp := n.fsm.sessionExpiration()
				if exp == 0 {
					exp = 10 * time.Minute
				}
				*canaryCompactionStart = es[len(es)-1].UnixNano - 1 + int64(exp+expireSessionsInterval)
			}
			err := n.snapshotWith(func() {
				syscall.Kill(os.Getpid(), syscall.SIGKILL)
				select {}
			})
			*canaryCompactionStart = 0
			reply(c05Resp{Code: -1, Err: fmt.Sprint(err)}) // only reached when the snapshot was refused
		case "snappost":
			// the line is posted after FSM.Snapshot returned and before Persist runs
			time.Sleep(2 * time.Millisecond)
			var pr vResp
			if c.Aged {
				*canaryCompactionStart = time.Now().Add(20 * time.Minute).UnixNano()
			}
			err := n.snapshotWith(func() { pr = n.post(s, c.Data, c.Cmid) })
			*canaryCompactionStart = 0
			resp := c05Resp{Code: pr.Code, Err: pr.Body}
			if err != nil {
				resp.Code, resp.Err = -1, "snapshot: "+err.Error()
			}
			reply(resp)
		case "log":
			resp := c05Resp{Code: 200}
			for _, e := range n.logEntries() {
				if e.Type == robust.IRCFromClient {
					resp.Cmids = append(resp.Cmids, e.ClientMessageId)
				}
			}
			reply(resp)
		case "has":
			// is the session part of the state?
			resp := c05Resp{Code: 200}
			if _, err := ircServer.GetSession(robust.Id{Id: c.Num}); err != nil {
				resp.Code, resp.Err = 404, err.Error()
			}
			reply(resp)
		case "rev":
			g := n.admin("GET", "/config", nil, "")
			rev, _ := strconv.ParseUint(g.Header.Get("X-RobustIRC-Config-Revision"), 10, 64)
			reply(c05Resp{Code: g.Code, Num: rev})
		case "stop":
			n.Stop()
			reply(c05Resp{Code: 200})
			return
		}
	}
}

type c05Child struct {
	cmd *exec.Cmd
	w   *os.File
	r   *bufio.Scanner
}

func c05Spawn(dir string, bootstrap bool) (*c05Child, error) {
	pr, cw, _ := os.Pipe() // parent -> child
	cr, pw, _ := os.Pipe() // child -> parent
	cmd := exec.Command(os.Args[0], "-test.run", "^TestVerifC05Node$", "-test.timeout", "600s")
	b := "0"
	if bootstrap {
		b = "1"
	}
	cmd.Env = append(os.Environ(), "VERIF_C05_DIR="+dir, "VERIF_C05_BOOTSTRAP="+b, "VERIF_OUT=")
	cmd.ExtraFiles = []*os.File{pr, pw}
	if err := cmd.Start(); err != nil {
		return nil, err
	}
	pr.Close()
	pw.Close()
	sc := bufio.NewScanner(cr)
	sc.Buffer(make([]byte, 1<<22), 1<<22)
	c := &c05Child{cmd: cmd, w: cw, r: sc}
	resp, err := c.read()
	if err != nil {
		return nil, fmt.Errorf("child did not start: %v", err)
	}
	if resp.Code != 200 {
		return nil, fmt.Errorf("child start: %s", resp.Err)
	}
	return c, nil
}

func (c *c05Child) read() (c05Resp, error) {
	var r c05Resp
	if !c.r.Scan() {
		return r, fmt.Errorf("child closed the pipe (exited?)")
	}
	err := json.Unmarshal(c.r.Bytes(), &r)
	return r, err
}

func (c *c05Child) send(cmd c05Cmd) error {
	b, _ := json.Marshal(cmd)
	_, err := c.w.Write(append(b, '\n'))
	return err
}

func (c *c05Child) call(cmd c05Cmd) (c05Resp, error) {
	if err := c.send(cmd); err != nil {
		return c05Resp{}, err
	}
	return c.read()
}

func (c *c05Child) kill() {
	c.cmd.Process.Signal(syscall.SIGKILL)
	c.cmd.Wait()
	c.w.Close()
}

type c05Posted struct {
	line  string // the complete line when it is not a channel message
	text  string
	cmid  uint64
	acked bool
}

func TestVerifC05(t *testing.T) {
	shard, _ := strconv.Atoi(os.Getenv("VERIF_SHARD"))
	nshards, _ := strconv.Atoi(os.Getenv("VERIF_NSHARDS"))
	if nshards == 0 {
		nshards = 1
	}
	depth := 4
	if os.Getenv("VERIF_TIER") == "thorough" {
		depth = 5
	}
	if d := os.Getenv("VERIF_DEPTH"); d != "" {
		depth, _ = strconv.Atoi(d)
	}
	var deadline time.Time
	if d := os.Getenv("VERIF_DEADLINE"); d != "" {
		sec, _ := strconv.ParseInt(d, 10, 64)
		deadline = time.Unix(sec, 0)
	}
	res := &vSeqResult{EndStates: map[string]int{}, Depth: depth}
	sigs := map[string]*vViol{}
	// snap+toggleA: A joins/parts #t (a line whose second application has a different effect) in the window
	// between FSM.Snapshot and Persist of a forced snapshot
	alphabet := []string{"postA", "postB", "retryA", "snapshot", "snap+toggleA", "kill", "restart", "postA-kill"}
	base := t.TempDir()
	seqs := vSeqs(alphabet, depth)
	if rp := os.Getenv("VERIF_REPLAY"); rp != "" {
		b, _ := os.ReadFile(rp)
		var v vViol
		json.Unmarshal(b, &v)
		seqs = [][]string{v.Seq}
		nshards, shard = 1, 0
	}
	for si, seq := range seqs {
		if si%nshards != shard {
			continue
		}
		if !deadline.IsZero() && time.Now().After(deadline) {
			res.HarnessErr = "time cap reached"
			break
		}
		dir := fmt.Sprintf("%s/n%d", base, si)
		child, err := c05Spawn(dir, true)
		if err != nil {
			res.HarnessErr = "HARNESS: " + err.Error()
			break
		}
		herr := func(err error) bool {
			if err != nil && res.HarnessErr == "" {
				res.HarnessErr = "HARNESS: " + err.Error()
			}
			return err != nil
		}
		must := func(cmd c05Cmd) c05Resp {
			r, err := child.call(cmd)
			herr(err)
			return r
		}
		must(c05Cmd{Op: "config", Data: vCfgFast})
		A := must(c05Cmd{Op: "create"})
		B := must(c05Cmd{Op: "create"})
		cm := uint64(100)
		// client message ids are not monotonic in practice (the bridge derives them from a hash of the
		// message and a random number): use a fixed permutation of distinct non-zero values
		next := func() uint64 { cm++; return (cm*2654435761)%1000003 + 1 }
		for _, l := range []string{"NICK a", "USER a 0 * :a", "JOIN #c"} {
			must(c05Cmd{Op: "post", Sid: A.Sid, Auth: A.Auth, Num: A.Num, Data: l, Cmid: next()})
		}
		for _, l := range []string{"NICK b", "USER b 0 * :b", "JOIN #c", "JOIN #t"} {
			must(c05Cmd{Op: "post", Sid: B.Sid, Auth: B.Auth, Num: B.Num, Data: l, Cmid: next()})
		}
		aOnT := false
		var toggles []string            // acknowledged JOIN/PART #t of A, in order: B must see exactly these announcements
		V := must(c05Cmd{Op: "create"}) // sentinel: only posts the markers the streams are read up to
		for _, l := range []string{"NICK v", "USER v 0 * :v", "JOIN #c"} {
			must(c05Cmd{Op: "post", Sid: V.Sid, Auth: V.Auth, Num: V.Num, Data: l, Cmid: next()})
		}
		// a network that has been running for a while: its configuration, its sessions and their channel
		// memberships are part of a snapshot state, not of the log any more (a snapshot that folds everything,
		// then a restart).  The brand-new network is the business of TestVerifC05Fresh.
		if r := must(c05Cmd{Op: "snapshot", Fold: true}); r.Code != 200 {
			herr(fmt.Errorf("setup snapshot: %s", r.Err))
		}
		must(c05Cmd{Op: "stop"})
		child.cmd.Wait()
		child.w.Close()
		if child, err = c05Spawn(dir, false); err != nil {
			res.HarnessErr = "HARNESS: " + err.Error()
			break
		}
		// entries whose effect depends on the time between entries stay in the log: a services link reserves a
		// nickname for a millisecond; after that time a new user takes it and joins #c (A and B are served the
		// JOIN).  A node that applies the log later than it was accepted must come to the same result.
		S := must(c05Cmd{Op: "create"})
		for _, l := range []string{"PASS :services=svcpw", "SERVER services.robustirc.net 1 :Services", "SVSHOLD guest 0.001 :reserved"} {
			must(c05Cmd{Op: "post", Sid: S.Sid, Auth: S.Auth, Num: S.Num, Data: l, Cmid: next()})
		}
		time.Sleep(3 * time.Millisecond)
		G := must(c05Cmd{Op: "create"})
		for _, l := range []string{"NICK guest", "USER g 0 * :g", "JOIN #c"} {
			must(c05Cmd{Op: "post", Sid: G.Sid, Auth: G.Auth, Num: G.Num, Data: l, Cmid: next()})
		}
		sess := map[string]c05Resp{"A": A, "B": B}
		posted := map[string][]*c05Posted{}
		var lastA *c05Posted
		// the streams as served before the most recent fault, per session
		before := map[string][]c05Msg{}
		res.Sequences++
		restart := func(kill bool) {
			if kill {
				child.kill()
			} else {
				must(c05Cmd{Op: "stop"})
				child.cmd.Wait()
				child.w.Close()
			}
			res.Restarts++
			child, err = c05Spawn(dir, false)
			herr(err)
		}
		readStream := func(who string) []c05Msg {
			s := sess[who]
			r := must(c05Cmd{Op: "drain", Sid: s.Sid, Auth: s.Auth, Num: s.Num, VSid: V.Sid, VAuth: V.Auth, Cmid: 5000000 + next()})
			if r.Code != 200 {
				herr(fmt.Errorf("drain: %s", r.Err))
			}
			return r.Msgs
		}
		check := func(after string, oi int) {
			for who, other := range map[string]string{"A": "B", "B": "A"} {
				msgs := readStream(other)
				// (1) the stream served now extends the stream served before the fault
				prev := before[other]
				for k := range prev {
					if k >= len(msgs) || msgs[k] != prev[k] {
						res.report(sigs, "C05", "stream served after "+after+" is not an extension of the stream served before", fmt.Sprintf("sequence %v, after op %d: session %s had been served %d messages, message %d differs or is missing now", seq, oi, other, len(prev), k), seq)
						break
					}
				}
				before[other] = msgs
				if other == "B" {
					var seen []string
					for _, m := range msgs {
						if strings.HasPrefix(m.Data, ":a!") && (strings.Contains(m.Data, " JOIN ") || strings.Contains(m.Data, " PART ")) && strings.Contains(m.Data, "#t") {
							if strings.Contains(m.Data, " JOIN ") {
								seen = append(seen, "JOIN")
							} else {
								seen = append(seen, "PART")
							}
						}
					}
					var want []string
					for _, l := range toggles {
						want = append(want, strings.Fields(l)[0])
					}
					if strings.Join(seen, ",") != strings.Join(want, ",") {
						res.report(sigs, "C05", "acknowledged JOIN/PART sequence is not what the other member is served after "+after, fmt.Sprintf("sequence %v, after op %d: A was acknowledged %v, B is served %v", seq, oi, want, seen), seq)
					}
				}
				// (2) every acknowledged message of `who` exactly once, in post order; unacknowledged ones at most once
				var got []string
				for _, m := range msgs {
					if i := strings.Index(m.Data, "PRIVMSG #c "); i >= 0 && strings.Contains(m.Data, "msg-") {
						got = append(got, strings.TrimPrefix(m.Data[i+len("PRIVMSG #c "):], ":"))
					}
				}
				gi := 0
				for _, p := range posted[who] {
					n := 0
					for _, g := range got {
						if g == p.text {
							n++
						}
					}
					switch {
					case p.acked && n == 0:
						res.report(sigs, "C05", "acknowledged message is not delivered after "+after, fmt.Sprintf("sequence %v, after op %d: %q posted by %s (acknowledged) is missing from the stream of %s: %v", seq, oi, p.text, who, other, got), seq)
					case n > 1:
						res.report(sigs, "C05", "message delivered more than once after "+after, fmt.Sprintf("sequence %v, after op %d: %q delivered %d times to %s", seq, oi, p.text, n, other), seq)
					}
					if n >= 1 {
						// order
						for gi < len(got) && got[gi] != p.text {
							gi++
						}
						if gi == len(got) {
							res.report(sigs, "C05", "messages delivered out of the order they were posted in", fmt.Sprintf("sequence %v, after op %d: %v", seq, oi, got), seq)
						}
					}
				}
			}
		}
		// what the sessions are served before any fault
		for _, who := range []string{"A", "B"} {
			before[who] = readStream(who)
		}
		for oi, op := range seq {
			res.Ops++
			if res.HarnessErr != "" {
				break
			}
			switch op {
			case "postA", "postB":
				who := op[len(op)-1:]
				s := sess[who]
				p := &c05Posted{text: fmt.Sprintf("msg-%s-%d", who, oi), cmid: next()}
				r := must(c05Cmd{Op: "post", Sid: s.Sid, Auth: s.Auth, Num: s.Num, Data: "PRIVMSG #c :" + p.text, Cmid: p.cmid})
				p.acked = r.Code == 200
				if !p.acked {
					res.report(sigs, "C05", "POST refused on a healthy single-node network", fmt.Sprintf("sequence %v op %d: %d %s", seq, oi, r.Code, r.Err), seq)
				}
				posted[who] = append(posted[who], p)
				if who == "A" {
					lastA = p
				}
			case "retryA":
				if lastA == nil {
					continue
				}
				res.Retries++
				data := "PRIVMSG #c :" + lastA.text
				if lastA.line != "" {
					data = lastA.line
				}
				r := must(c05Cmd{Op: "post", Sid: A.Sid, Auth: A.Auth, Num: A.Num, Data: data, Cmid: lastA.cmid})
				if r.Code == 200 {
					lastA.acked = true
				}
			case "snapshot":
				res.Snapshots++
				// (with everything folded and nothing new in the log copy, a snapshot is refused: nothing to do)
				if r := must(c05Cmd{Op: "snapshot", Aged: true}); r.Code != 200 && !strings.Contains(r.Err, "first index of ircstore") {
					herr(fmt.Errorf("snapshot: %s", r.Err))
				}
			case "snap+toggleA":
				res.Snapshots++
				line := "JOIN #t"
				if aOnT {
					line = "PART #t :toggle"
				}
				tp := &c05Posted{line: line, cmid: next()}
				r := must(c05Cmd{Op: "snappost", Sid: A.Sid, Auth: A.Auth, Num: A.Num, Data: line, Cmid: tp.cmid, Aged: true})
				if r.Code == -1 && strings.Contains(r.Err, "first index of ircstore") {
					// the snapshot was refused before anything happened: the line was not posted
				} else if r.Code == -1 {
					herr(fmt.Errorf("%s", r.Err))
				} else if r.Code != 200 {
					res.report(sigs, "C05", "POST refused while a snapshot is being written", fmt.Sprintf("sequence %v op %d: %d %s", seq, oi, r.Code, r.Err), seq)
				} else {
					aOnT = !aOnT
					toggles = append(toggles, line)
					tp.acked = true
					lastA = tp // it is A's last message now: this is what a retry repeats
				}
			case "kill":
				restart(true)
			case "restart":
				restart(false)
			case "postA-kill":
				// the request is sent and the node is killed without waiting for the answer: the message is
				// unacknowledged (it may or may not be part of the history; never twice)
				p := &c05Posted{text: fmt.Sprintf("msg-A-%d", oi), cmid: next()}
				herr(child.send(c05Cmd{Op: "post", Sid: A.Sid, Auth: A.Auth, Num: A.Num, Data: "PRIVMSG #c :" + p.text, Cmid: p.cmid}))
				posted["A"] = append(posted["A"], p)
				lastA = p
				restart(true)
			}
			if res.HarnessErr == "" {
				check(op, oi)
			}
		}
		if res.HarnessErr == "" {
			r := must(c05Cmd{Op: "log"})
			seen := map[uint64]int{}
			for _, c := range r.Cmids {
				seen[c]++
			}
			for _, ps := range posted {
				for _, p := range ps {
					if seen[p.cmid] > 1 {
						res.report(sigs, "C05", "message has several log entries", fmt.Sprintf("sequence %v: client message id %d occurs %d times", seq, p.cmid, seen[p.cmid]), seq)
					}
				}
			}
			res.EndStates[fmt.Sprintf("%d posted by A, %d by B, %d client entries in the log", len(posted["A"]), len(posted["B"]), len(r.Cmids))]++
			if len(res.Samples) < 3 && si%53 == shard {
				res.Samples = append(res.Samples, fmt.Sprintf("%v: streams consistent after every operation; %d client entries in the durable log", seq, len(r.Cmids)))
			}
		}
		child.kill()
		os.RemoveAll(dir)
		if res.HarnessErr != "" {
			break
		}
	}
	b, _ := json.Marshal(res)
	if o := os.Getenv("VERIF_OUT"); o != "" {
		os.WriteFile(o, b, 0644)
	} else {
		fmt.Println(string(b))
	}
}

// TestVerifC05Fresh: a brand-new (or idle) network, where the durable history is short: the very first
// acknowledged writes (POST /session, POST /config) followed by snapshots, kills and restarts in every
// order.  Every acknowledged session must still exist and the acknowledged configuration revision must
// still be in force after every operation; at the end the newest session posts a line.
func TestVerifC05Fresh(t *testing.T) {
	shard, _ := strconv.Atoi(os.Getenv("VERIF_SHARD"))
	nshards, _ := strconv.Atoi(os.Getenv("VERIF_NSHARDS"))
	if nshards == 0 {
		nshards = 1
	}
	depth := 4
	if os.Getenv("VERIF_TIER") == "thorough" {
		depth = 5
	}
	if d := os.Getenv("VERIF_DEPTH"); d != "" {
		depth, _ = strconv.Atoi(d)
	}
	var deadline time.Time
	if d := os.Getenv("VERIF_DEADLINE"); d != "" {
		sec, _ := strconv.ParseInt(d, 10, 64)
		deadline = time.Unix(sec, 0)
	}
	res := &vSeqResult{EndStates: map[string]int{}, Depth: depth}
	sigs := map[string]*vViol{}
	base := t.TempDir()
	// snap+restart: a snapshot directly followed by a graceful restart, as one step (so that "snapshot, restart,
	// write, snapshot, restart" fits into the depth bound)
	alphabet := []string{"create", "config", "snapshot", "snap+restart", "kill", "restart"}
	if os.Getenv("VERIF_C05_ALPHA") == "window" {
		// snapkill: SIGKILL in the window between FSM.Snapshot and Persist of a compacting snapshot
		alphabet = []string{"create", "config", "snapkill", "snap+restart", "kill"}
	}
	seqs := vSeqs(alphabet, depth)
	if rp := os.Getenv("VERIF_REPLAY"); rp != "" {
		b, _ := os.ReadFile(rp)
		var v vViol
		json.Unmarshal(b, &v)
		if len(v.Seq) > 0 && v.Seq[0] == "fresh" {
			seqs = [][]string{v.Seq[1:]}
		} else {
			seqs = nil
		}
		nshards, shard = 1, 0
	}
	for si, seq := range seqs {
		if si%nshards != shard {
			continue
		}
		if !deadline.IsZero() && time.Now().After(deadline) {
			res.HarnessErr = "time cap reached"
			break
		}
		full := append([]string{"fresh"}, seq...)
		dir := fmt.Sprintf("%s/f%d", base, si)
		child, err := c05Spawn(dir, true)
		if err != nil {
			res.HarnessErr = "HARNESS: " + err.Error()
			break
		}
		herr := func(err error) bool {
			if err != nil && res.HarnessErr == "" {
				res.HarnessErr = "HARNESS: " + err.Error()
			}
			return err != nil
		}
		must := func(cmd c05Cmd) c05Resp {
			r, err := child.call(cmd)
			herr(err)
			return r
		}
		var sessions []c05Resp
		ackedRev := uint64(0)
		res.Sequences++
		for oi, op := range seq {
			res.Ops++
			if res.HarnessErr != "" {
				break
			}
			switch op {
			case "create":
				if r := must(c05Cmd{Op: "create"}); r.Code == 200 {
					sessions = append(sessions, r)
				} else {
					res.report(sigs, "C05", "POST /session refused on a healthy single-node network", fmt.Sprintf("sequence %v op %d: %d", seq, oi, r.Code), full)
				}
			case "config":
				if r := must(c05Cmd{Op: "config", Data: vCfgFast}); r.Code == 200 {
					ackedRev++
				} else {
					res.report(sigs, "C05", "POST /config refused on a healthy single-node network", fmt.Sprintf("sequence %v op %d: %d %s", seq, oi, r.Code, r.Err), full)
				}
			case "snapshot":
				// (a snapshot of an empty history is refused; a refused snapshot must not lose anything either)
				// (it is the later loss, if any, that the oracle reports -- not the refusal)
				if r := must(c05Cmd{Op: "snapshot"}); r.Code == 200 {
					res.Snapshots++
				}
			case "snapkill":
				if _, err := child.call(c05Cmd{Op: "snapkill"}); err != nil {
					// the child died in the window
					child.cmd.Wait()
					child.w.Close()
					res.Restarts++
					res.EndStates["(kills between FSM.Snapshot and Persist)"]++
					child, err = c05Spawn(dir, false)
					herr(err)
				}
			case "kill", "restart", "snap+restart":
				if op == "snap+restart" {
					if r := must(c05Cmd{Op: "snapshot"}); r.Code == 200 {
						res.Snapshots++
					}
				}
				if op == "kill" {
					child.kill()
				} else {
					must(c05Cmd{Op: "stop"})
					child.cmd.Wait()
					child.w.Close()
				}
				res.Restarts++
				child, err = c05Spawn(dir, false)
				herr(err)
			}
			if res.HarnessErr != "" {
				break
			}
			for _, s := range sessions {
				if r := must(c05Cmd{Op: "has", Num: s.Num}); r.Code != 200 {
					res.report(sigs, "C05", "acknowledged session is gone after "+op, fmt.Sprintf("sequence %v, after op %d: session %d (POST /session answered 200): %s", seq, oi, s.Num, r.Err), full)
				}
			}
			if r := must(c05Cmd{Op: "rev"}); r.Num != ackedRev {
				res.report(sigs, "C05", "acknowledged configuration is not in force after "+op, fmt.Sprintf("sequence %v, after op %d: revision %d, acknowledged %d", seq, oi, r.Num, ackedRev), full)
			}
		}
		if res.HarnessErr == "" && len(sessions) > 0 {
			s := sessions[len(sessions)-1]
			if r := must(c05Cmd{Op: "post", Sid: s.Sid, Auth: s.Auth, Num: s.Num, Data: "NICK fresh", Cmid: 4711}); r.Code != 200 {
				res.report(sigs, "C05", "acknowledged session cannot post at the end", fmt.Sprintf("sequence %v: POST answered %d %s", seq, r.Code, r.Err), full)
			}
		}
		res.EndStates[fmt.Sprintf("fresh network: %d sessions, revision %d", len(sessions), ackedRev)]++
		child.kill()
		os.RemoveAll(dir)
		if res.HarnessErr != "" {
			break
		}
	}
	b, _ := json.Marshal(res)
	if o := os.Getenv("VERIF_OUT"); o != "" {
		os.WriteFile(o, b, 0644)
	} else {
		fmt.Println(string(b))
	}
}
