//go:build verif

package main

// C02, macro schedules: longer histories of the same operations as TestVerifC02, but with the common
// combinations as single steps ("apply the next chunk and snapshot+persist", "apply and snapshot with
// a failing persist", ...), so that schedules which need e.g. snapshot / failed snapshot / in-process
// restore / snapshot / restart (nine elementary operations) are within the enumeration bound.

import (
	"encoding/json"
	"fmt"
	"os"
	"strconv"
	"strings"
	"testing"
	"time"

	"github.com/robustirc/robustirc/internal/robust"
)

func c02MacroSchedules(l c02Log, length int) [][]string {
	var out [][]string
	var rec func(cur []string, applied, persisted int)
	rec = func(cur []string, applied, persisted int) {
		if len(cur) == length {
			out = append(out, append([]string(nil), cur...))
			return
		}
		last := ""
		if len(cur) > 0 {
			last = cur[len(cur)-1]
		}
		// two snapshots in a row, or the same restore/restart twice in a row, add nothing
		skip := func(op string) bool {
			switch last {
			case "P", "F", "A+P", "A+F":
				return op == "P" || op == "F"
			case "X", "R":
				return op == last
			}
			return false
		}
		if applied < len(l.Chunks) {
			rec(append(cur, "A"), applied+1, persisted)
			rec(append(cur, "A+P"), applied+1, persisted+1)
			rec(append(cur, "A+F"), applied+1, persisted)
		}
		if applied > 0 {
			if !skip("P") {
				rec(append(cur, "P"), applied, persisted+1)
				rec(append(cur, "F"), applied, persisted)
			}
			if !skip("X") {
				rec(append(cur, "X"), applied, persisted)
			}
			if persisted > 0 && !skip("R") {
				rec(append(cur, "R"), applied, persisted)
			}
		}
	}
	rec(nil, 0, 0)
	return out
}

func TestVerifC02Macro(t *testing.T) {
	shard, _ := strconv.Atoi(os.Getenv("VERIF_SHARD"))
	nshards, _ := strconv.Atoi(os.Getenv("VERIF_NSHARDS"))
	if nshards == 0 {
		nshards = 1
	}
	thorough := os.Getenv("VERIF_TIER") == "thorough"
	length := 5
	if thorough {
		length = 6
	}
	if d := os.Getenv("VERIF_DEPTH"); d != "" {
		length, _ = strconv.Atoi(d)
	}
	var deadline time.Time
	if d := os.Getenv("VERIF_DEADLINE"); d != "" {
		sec, _ := strconv.ParseInt(d, 10, 64)
		deadline = time.Unix(sec, 0)
	}
	res := &vSeqResult{EndStates: map[string]int{}, Depth: length}
	sigs := map[string]*vViol{}
	base := t.TempDir()
	type job struct {
		log c02Log
		seq []string
	}
	var jobs []job
	for _, l := range c02Logs(thorough) {
		if l.Name != "gaps" && l.Name != "all-old" && !thorough {
			continue
		}
		for _, s := range c02MacroSchedules(l, length) {
			jobs = append(jobs, job{l, s})
		}
	}
	for ji, j := range jobs {
		if ji%nshards != shard {
			continue
		}
		if !deadline.IsZero() && time.Now().After(deadline) {
			res.HarnessErr = "time cap reached"
			break
		}
		*useProtobuf = true
		robust.MessageOffset = 0
		if ji%2 == 1 {
			robust.MessageOffset = 4648398125000000000
		}
		dir := fmt.Sprintf("%s/m%d", base, ji)
		w, err := c02NewWorld(dir, j.log)
		if err != nil {
			t.Fatal(err)
		}
		res.Sequences++
		full := append([]string{j.log.Name, "macro"}, j.seq...)
		step := func(op string) error {
			switch op {
			case "A":
				w.opApply()
			case "P", "F":
				h := j.log.Chunks[w.nextChunk-1].Hours
				// fold as much as the age classes allow: the newest applied class, inclusive
				for k := 0; k < w.nextChunk; k++ {
					if j.log.Chunks[k].Hours > h {
						h = j.log.Chunks[k].Hours
					}
				}
				w.opSnapshot(c02CompactionStart(h, true))
				res.Snapshots++
				if w.pending != nil {
					if op == "P" {
						return w.opPersist(-1)
					}
					return w.opPersist(0)
				}
			case "R":
				return w.opRestore()
			case "X":
				res.Restarts++
				return w.opRestart()
			}
			return nil
		}
		for oi, op := range j.seq {
			res.Ops++
			var herr error
			var perr interface{}
			func() {
				defer func() { perr = recover() }()
				for _, part := range strings.Split(op, "+") {
					if herr = step(part); herr != nil {
						return
					}
				}
			}()
			if perr != nil {
				res.report(sigs, "C02", "panic during "+op+" (macro schedules)", fmt.Sprintf("log %s, schedule %v, op %d: %v", j.log.Name, j.seq, oi, perr), full)
				break
			}
			if herr != nil {
				if strings.HasPrefix(herr.Error(), "HARNESS") {
					res.HarnessErr = herr.Error()
				} else {
					res.report(sigs, "C02", "operation failed (macro schedules): "+strings.SplitN(herr.Error(), ":", 2)[0], fmt.Sprintf("log %s, schedule %v, op %d (%s): %v", j.log.Name, j.seq, oi, op, herr), full)
				}
				break
			}
			for _, b := range w.check(op) {
				res.report(sigs, "C02", b[0], fmt.Sprintf("log %s, macro schedule %v, after op %d (%s): %s", j.log.Name, j.seq, oi, op, b[1]), full)
			}
		}
		res.EndStates[fmt.Sprintf("%s: %d applied, %d snapshots persisted (macro)", j.log.Name, len(w.applied), len(w.persisted))]++
		if len(res.Samples) < 3 && ji%307 == shard {
			res.Samples = append(res.Samples, fmt.Sprintf("log %s macro schedule %v: %d entries applied, %d snapshots persisted", j.log.Name, j.seq, len(w.applied), len(w.persisted)))
		}
		w.close()
		os.RemoveAll(dir)
		if res.HarnessErr != "" && res.HarnessErr != "time cap reached" {
			break
		}
	}
	b, _ := json.Marshal(res)
	if o := os.Getenv("VERIF_OUT"); o != "" {
		os.WriteFile(o, b, 0644)
	} else {
		fmt.Println(string(b))
	}
}
