//go:build verif

package main

// C10: a retried POST (same client message id) is never applied twice.  All operation
// sequences up to a depth over {post, retry, traffic of another session, a message of
// death carrying a client message id, forced snapshot, restart} on the in-process
// single-node network (real raft, real handlers).

import (
	"encoding/json"
	"fmt"
	"os"
	"strconv"
	"strings"
	"testing"
	"time"

	"github.com/robustirc/robustirc/internal/ircserver"
	"github.com/robustirc/robustirc/internal/robust"
)

type vViol struct {
	Sig   string   `json:"sig"`
	Desc  string   `json:"desc"`
	Prop  string   `json:"prop"`
	Count int      `json:"count"`
	Seq   []string `json:"seq"`
}

type vSeqResult struct {
	Sequences  int            `json:"sequences"`
	Ops        int            `json:"ops"`
	Retries    int            `json:"retries"`
	Restarts   int            `json:"restarts"`
	Snapshots  int            `json:"snapshots"`
	EndStates  map[string]int `json:"end_states"`
	Violations []*vViol       `json:"violations"`
	Samples    []string       `json:"samples"`
	Depth      int            `json:"depth"`
	Mixed      int            `json:"mixed_encoding_schedules,omitempty"`
	HarnessErr string         `json:"harness_error,omitempty"`
}

func (r *vSeqResult) report(sigs map[string]*vViol, prop, sig, desc string, seq []string) {
	sig = prop + ":" + sig
	if v, ok := sigs[sig]; ok {
		v.Count++
		return
	}
	v := &vViol{Sig: sig, Desc: desc, Prop: prop, Count: 1, Seq: append([]string(nil), seq...)}
	sigs[sig] = v
	r.Violations = append(r.Violations, v)
}

func vSeqs(alphabet []string, depth int) [][]string {
	var out [][]string
	var rec func(cur []string)
	rec = func(cur []string) {
		if len(cur) == depth {
			out = append(out, append([]string(nil), cur...))
			return
		}
		for _, a := range alphabet {
			rec(append(cur, a))
		}
	}
	rec(nil)
	return out
}

type c10Posted struct {
	sess string
	line string // the complete line when it is not a channel message
	text string
	cmid uint64
	died bool
}

func TestVerifC10(t *testing.T) {
	shard, _ := strconv.Atoi(os.Getenv("VERIF_SHARD"))
	nshards, _ := strconv.Atoi(os.Getenv("VERIF_NSHARDS"))
	if nshards == 0 {
		nshards = 1
	}
	depth := 4
	if os.Getenv("VERIF_TIER") == "thorough" {
		depth = 5
	}
	if d := os.Getenv("VERIF_DEPTH"); d != "" {
		depth, _ = strconv.Atoi(d)
	}
	var deadline time.Time
	if d := os.Getenv("VERIF_DEADLINE"); d != "" {
		sec, _ := strconv.ParseInt(d, 10, 64)
		deadline = time.Unix(sec, 0)
	}
	res := &vSeqResult{EndStates: map[string]int{}, Depth: depth}
	sigs := map[string]*vViol{}
	// S is a services link (PASS services=..., SERVER): its messages carry a prefix and are handled by the
	// server-to-server command table, retries must be recognised all the same
	// foldsnapshot: a snapshot taken "much later" (compaction time far in the future): every entry is old enough
	// to be folded into the snapshot state, so that the markers have to survive in the state alone
	// junkA: a line the IRC parser cannot make a message of (a prefix without a command) is a message like any
	// other as far as the log and the duplicate detection are concerned
	alphabet := []string{"postA", "retryA", "postB", "retryB", "postS", "retryS", "deathA", "snapshot", "foldsnapshot", "restart"}
	if os.Getenv("VERIF_C10_ALPHA") == "kinds" {
		// second pass: the kinds of "last message" other than a channel message -- a PING, a line the parser makes
		// nothing of, a message stamped before the session's last activity (a new leader whose clock lags)
		alphabet = []string{"pingA", "junkA", "pastA", "retryA", "deathA", "snapshot", "foldsnapshot", "restart"}
	}
	base := t.TempDir()
	seqs := vSeqs(alphabet, depth)
	if rp := os.Getenv("VERIF_REPLAY"); rp != "" {
		b, _ := os.ReadFile(rp)
		var v vViol
		json.Unmarshal(b, &v)
		seqs = [][]string{v.Seq}
		nshards, shard = 1, 0
	}
	for si, seq := range seqs {
		if si%nshards != shard {
			continue
		}
		if !deadline.IsZero() && time.Now().After(deadline) {
			res.HarnessErr = "time cap reached"
			break
		}
		dir := fmt.Sprintf("%s/n%d", base, si)
		n, err := vStartNode(dir, true)
		if err != nil {
			t.Fatal(err)
		}
		fail := func(err error) {
			res.HarnessErr = err.Error()
		}
		if r := n.setConfig(vCfgFast); r.Code != 200 {
			t.Fatalf("config: %d %s", r.Code, r.Body)
		}
		A, _ := n.createSession()
		B, _ := n.createSession()
		cm := uint64(100)
		// client message ids are not monotonic in practice (the bridge derives them from a hash of the
		// message and a random number): use a fixed permutation of distinct non-zero values
		next := func() uint64 { cm++; return (cm*2654435761)%1000003 + 1 }
		for _, l := range []string{"NICK a", "USER a 0 * :a", "JOIN #c"} {
			n.post(A, l, next())
		}
		for _, l := range []string{"NICK b", "USER b 0 * :b", "JOIN #c"} {
			n.post(B, l, next())
		}
		S, _ := n.createSession()
		for _, l := range []string{"PASS :services=svcpw", "SERVER services.robustirc.net 1 :Services", "NICK ChanServ 1 1422134861 services localhost.net services.robustirc.net 0 :Channel Services"} {
			if r := n.post(S, l, next()); r.Code != 200 {
				t.Fatalf("services link: %d %s", r.Code, r.Body)
			}
		}
		sess := map[string]vSession{"A": A, "B": B, "S": S}
		line := func(who, text string) string {
			if who == "S" {
				return ":ChanServ PRIVMSG #c :" + text
			}
			return "PRIVMSG #c :" + text
		}
		last := map[string]*c10Posted{}
		var posted []*c10Posted
		foldedBefore := 0 // number of posted messages when the last foldsnapshot ran
		res.Sequences++
		for oi, op := range seq {
			res.Ops++
			who := op[len(op)-1:]
			switch {
			case strings.HasPrefix(op, "post"):
				p := &c10Posted{sess: who, text: fmt.Sprintf("msg-%s-%d", who, oi), cmid: next()}
				if r := n.post(sess[who], line(who, p.text), p.cmid); r.Code != 200 {
					res.report(sigs, "C10", "POST refused", fmt.Sprintf("op %d of %v: %d %s", oi, seq, r.Code, r.Body), seq)
				}
				last[who] = p
				posted = append(posted, p)
			case strings.HasPrefix(op, "past"):
				// committed by a leader whose clock is 1.5 s behind the one that committed the session's previous
				// message (the time safeguard tolerates up to 2 s): applied like any other message
				p := &c10Posted{sess: who, text: fmt.Sprintf("msg-%s-%d", who, oi), cmid: next()}
				m := &robust.Message{Session: robust.Id{Id: sess[who].Num}, Type: robust.IRCFromClient, Data: "PRIVMSG #c :" + p.text, ClientMessageId: p.cmid}
				if err := n.applyStamped(m, time.Now().Add(-1500*time.Millisecond).UnixNano()); err != nil {
					fail(err)
				}
				last[who] = p
				posted = append(posted, p)
			case strings.HasPrefix(op, "junk"):
				p := &c10Posted{sess: who, text: fmt.Sprintf("junk-%s-%d", who, oi), cmid: next(), line: ":junk" + strconv.Itoa(oi)}
				if r := n.post(sess[who], p.line, p.cmid); r.Code != 200 {
					res.report(sigs, "C10", "POST refused", fmt.Sprintf("op %d of %v: %d %s", oi, seq, r.Code, r.Body), seq)
				}
				last[who] = p
				posted = append(posted, p)
			case strings.HasPrefix(op, "ping"):
				// a keep-alive line is a message like any other: it becomes the session's last message
				p := &c10Posted{sess: who, text: fmt.Sprintf("ping-%s-%d", who, oi), cmid: next(), line: fmt.Sprintf("PING ping-%s-%d", who, oi)}
				if r := n.post(sess[who], p.line, p.cmid); r.Code != 200 {
					res.report(sigs, "C10", "POST refused", fmt.Sprintf("op %d of %v: %d %s", oi, seq, r.Code, r.Body), seq)
				}
				last[who] = p
				posted = append(posted, p)
			case strings.HasPrefix(op, "retry"):
				p := last[who]
				if p == nil {
					continue
				}
				res.Retries++
				data := line(who, p.text)
				if p.line != "" {
					data = p.line
				}
				r := n.post(sess[who], data, p.cmid)
				if r.Code != 200 {
					res.report(sigs, "C10", "retry not acknowledged", fmt.Sprintf("op %d of %v: retry of cmid %d answered %d %s", oi, seq, p.cmid, r.Code, r.Body), seq)
				}
			case strings.HasPrefix(op, "death"):
				// an entry that was marked as message of death (it crashed the network when first applied):
				// it reaches the FSM with Type MessageOfDeath and must still advance the marker
				p := &c10Posted{sess: who, text: fmt.Sprintf("death-%s-%d", who, oi), cmid: next(), died: true}
				m := &robust.Message{Session: robust.Id{Id: sess[who].Num}, Type: robust.MessageOfDeath, Data: "PRIVMSG #c :" + p.text, ClientMessageId: p.cmid}
				if err := n.api.ApplyMessageWait(m, 10*time.Second); err != nil {
					fail(err)
				}
				last[who] = p
				posted = append(posted, p)
			case op == "snapshot" || op == "foldsnapshot":
				res.Snapshots++
				time.Sleep(2 * time.Millisecond) // raft names snapshots by term-index-millisecond
				if op == "foldsnapshot" {
					*canaryCompactionStart = time.Now().Add(1000 * time.Hour).UnixNano()
					foldedBefore = len(posted)
				}
				err := n.raft.Snapshot().Error()
				*canaryCompactionStart = 0
				// (with everything folded the log copy is empty and the next snapshot is refused: nothing to do)
				if err != nil && !strings.Contains(err.Error(), "first index of ircstore") {
					fail(fmt.Errorf("HARNESS: snapshot: %v", err))
				}
			case op == "restart":
				res.Restarts++
				n.Stop()
				n, err = vStartNode(dir, false)
				if err != nil {
					t.Fatal(err)
				}
			}
			// oracle after every operation
			for w, p := range last {
				if got := ircserver.VerifMarker(ircServer, robust.Id{Id: sess[w].Num}); got != p.cmid {
					res.report(sigs, "C10", "duplicate-detection marker is not the last client message id after "+op, fmt.Sprintf("after op %d of %v: session %s marker %d, last posted %d", oi, seq, w, got, p.cmid), seq)
				}
			}
			counts := map[uint64]int{}
			for _, e := range n.logEntries() {
				if e.ClientMessageId != 0 {
					counts[e.ClientMessageId]++
				}
			}
			for _, p := range posted {
				if counts[p.cmid] != 1 {
					res.report(sigs, "C10", fmt.Sprintf("message has %s log entries after %s", map[bool]string{true: "no", false: "several"}[counts[p.cmid] == 0], op), fmt.Sprintf("after op %d of %v: client message id %d occurs %d times in the raft log", oi, seq, p.cmid, counts[p.cmid]), seq)
				}
			}
		}
		// delivery: each message exactly once, in post order, to the other member(s)
		for _, recv := range []string{"A", "B"} {
			msgs, err := n.drain(sess[recv], "")
			if err != nil {
				fail(err)
				break
			}
			for _, w := range []string{"A", "B", "S"} {
				if w == recv {
					continue
				}
				var got []string
				for _, m := range msgs {
					if i := strings.Index(m.Data, "PRIVMSG #c "); i >= 0 && strings.Contains(m.Data, "msg-"+w+"-") {
						got = append(got, strings.TrimPrefix(m.Data[i+len("PRIVMSG #c "):], ":"))
					}
					if strings.Contains(m.Data, "death-") {
						res.report(sigs, "C10", "message of death was delivered", m.Data, seq)
					}
				}
				// (outputs of entries that a foldsnapshot folded are deleted by design: all of them or none)
				var want, wantAfterFold []string
				for k, p := range posted {
					if p.sess == w && !p.died && p.line == "" {
						want = append(want, p.text)
						if k >= foldedBefore {
							wantAfterFold = append(wantAfterFold, p.text)
						}
					}
				}
				if strings.Join(got, ",") != strings.Join(want, ",") && strings.Join(got, ",") != strings.Join(wantAfterFold, ",") {
					kind := "delivered sequence differs from posted sequence"
					if len(got) > len(want) {
						kind = "message delivered more than once"
					}
					res.report(sigs, "C10", kind, fmt.Sprintf("sequence %v: session %s posted %v, session %s received %v", seq, w, want, recv, got), seq)
				}
			}
		}
		res.EndStates[fmt.Sprintf("%d posted, %d log entries", len(posted), len(n.logEntries()))]++
		if len(res.Samples) < 3 && si%97 == shard {
			res.Samples = append(res.Samples, fmt.Sprintf("%v: %d messages posted, %d command entries in the log", seq, len(posted), len(n.logEntries())))
		}
		n.Stop()
		os.RemoveAll(dir)
		if res.HarnessErr != "" {
			break
		}
	}
	b, _ := json.Marshal(res)
	if o := os.Getenv("VERIF_OUT"); o != "" {
		os.WriteFile(o, b, 0644)
	} else {
		fmt.Println(string(b))
	}
}
