//go:build verif

package main

// C02/C05, two-node tier: a leader L and a follower F (each its own directory, FSM, stores; the
// package-level globals are switched on every context change, only one node runs at a time) share one
// committed log.  The follower may lag, may be brought up to date by installing the *leader's*
// snapshot (FSM.Restore of a snapshot taken by another node, then the tail), may snapshot and
// restart itself.  Every enabled schedule up to a length is executed; after every operation each node
// is compared with a twin that applied the same prefix and never snapshotted, and the streams of the
// two nodes must agree on every input both retain.

import (
	"encoding/json"
	"fmt"
	"os"
	"strconv"
	"strings"
	"testing"
	"time"

	"github.com/robustirc/robustirc/internal/ircserver"
	"github.com/robustirc/robustirc/internal/outputstream"
	"github.com/robustirc/robustirc/internal/raftstore"
	"github.com/robustirc/robustirc/internal/robust"
)

type c02Ctx struct {
	w   *c02World
	srv *ircserver.IRCServer
	out *outputstream.OutputStream
	st  *raftstore.LevelDBStore
	pb  bool // the node runs with -pre1.0_protobuf
}

func (c *c02Ctx) enter() {
	ircServer, outputStream, ircStore = c.srv, c.out, c.st
	*raftDir = c.w.dir
	*useProtobuf = c.pb
}

func (c *c02Ctx) leave() {
	c.srv, c.out, c.st = ircServer, outputStream, ircStore
}

func c02NewCtx(dir string, l c02Log) (*c02Ctx, error) {
	w, err := c02NewWorld(dir, l)
	if err != nil {
		return nil, err
	}
	c := &c02Ctx{w: w, pb: *useProtobuf}
	c.leave()
	return c, nil
}

// clusterSchedules enumerates enabled schedules over the abstract state (chunks applied per node,
// snapshots persisted by the leader / the follower).
func c02ClusterSchedules(l c02Log, length int) [][]string {
	var out [][]string
	var rec func(cur []string, la, fa, ls, fs, lsAt int)
	rec = func(cur []string, la, fa, ls, fs, lsAt int) {
		if len(cur) == length {
			out = append(out, append([]string(nil), cur...))
			return
		}
		ext := func(op string, la, fa, ls, fs int) { rec(append(cur, op), la, fa, ls, fs, lsAt) }
		if la < len(l.Chunks) {
			ext("L:apply", la+1, fa, ls, fs)
		}
		if fa < la {
			ext("F:apply", la, fa+1, ls, fs)
		}
		if la > 0 {
			seen := map[int]bool{}
			for k := 0; k < la; k++ {
				if h := l.Chunks[k].Hours; !seen[h] {
					seen[h] = true
					rec(append(cur, fmt.Sprintf("L:snapP:%d", h)), la, fa, ls+1, fs, la)
				}
			}
			ext("L:restart", la, fa, ls, fs)
		}
		if fa > 0 {
			seen := map[int]bool{}
			for k := 0; k < fa; k++ {
				if h := l.Chunks[k].Hours; !seen[h] {
					seen[h] = true
					ext(fmt.Sprintf("F:snapP:%d", h), la, fa, ls, fs+1)
				}
			}
			ext("F:restart", la, fa, ls, fs)
		}
		if ls > 0 {
			// the follower installs the leader's newest snapshot (only meaningful when it is not ahead of it;
			// the harness skips the operation otherwise) and is then fed the tail up to where it was
			if lsAt >= fa {
				rec(append(cur, "F:install"), la, lsAt, ls, fs, lsAt)
			}
		}
	}
	rec(nil, 0, 0, 0, 0, 0)
	return out
}

func TestVerifC02Cluster(t *testing.T) {
	shard, _ := strconv.Atoi(os.Getenv("VERIF_SHARD"))
	nshards, _ := strconv.Atoi(os.Getenv("VERIF_NSHARDS"))
	if nshards == 0 {
		nshards = 1
	}
	thorough := os.Getenv("VERIF_TIER") == "thorough"
	length := 5
	if thorough {
		length = 7
	}
	if d := os.Getenv("VERIF_DEPTH"); d != "" {
		length, _ = strconv.Atoi(d)
	}
	var deadline time.Time
	if d := os.Getenv("VERIF_DEADLINE"); d != "" {
		sec, _ := strconv.ParseInt(d, 10, 64)
		deadline = time.Unix(sec, 0)
	}
	res := &vSeqResult{EndStates: map[string]int{}, Depth: length}
	sigs := map[string]*vViol{}
	base := t.TempDir()
	type job struct {
		log   c02Log
		seq   []string
		mixed bool // rolling upgrade: the leader already runs with protobuf, the follower still with JSON
	}
	var jobs []job
	for _, l := range c02Logs(thorough) {
		if l.Name == "all-new" || l.Name == "endings" && !thorough {
			continue
		}
		for _, s := range c02ClusterSchedules(l, length) {
			jobs = append(jobs, job{l, s, false})
		}
	}
	// rolling upgrade (mixed encodings): a follower still running with the legacy JSON encoding installs the
	// protobuf snapshot of an upgraded leader, whose retained entries are copied verbatim into its store.
	// Only schedules with an install differ from the single-encoding runs; one operation more than above,
	// because the interesting continuation is install -> own snapshot -> restart.
	if os.Getenv("VERIF_DEPTH") == "" {
		for _, l := range c02Logs(thorough) {
			if l.Name != "all-old" && l.Name != "old-new" && !thorough {
				continue
			}
			if l.Name == "all-new" {
				continue
			}
			for _, s := range c02ClusterSchedules(l, length+1) {
				inst := -1
				for k, op := range s {
					if op == "F:install" {
						inst = k
						break
					}
				}
				// the install has to be followed by at least two operations of the follower
				if inst < 0 || inst > len(s)-3 {
					continue
				}
				jobs = append(jobs, job{l, s, true})
			}
		}
	}
	installs := 0
	for ji, j := range jobs {
		if ji%nshards != shard {
			continue
		}
		if !deadline.IsZero() && time.Now().After(deadline) {
			res.HarnessErr = "time cap reached"
			break
		}
		*useProtobuf = true
		robust.MessageOffset = 0
		if ji%2 == 1 {
			robust.MessageOffset = 4648398125000000000
		}
		L, err := c02NewCtx(fmt.Sprintf("%s/L%d", base, ji), j.log)
		if err != nil {
			t.Fatal(err)
		}
		if j.mixed {
			*useProtobuf = false
			res.Mixed++
		}
		F, err := c02NewCtx(fmt.Sprintf("%s/F%d", base, ji), j.log)
		if err != nil {
			t.Fatal(err)
		}
		res.Sequences++
		full := append([]string{j.log.Name, "cluster"}, j.seq...)
		if j.mixed {
			full[1] = "cluster-mixed-encoding"
		}
		node := map[string]*c02Ctx{"L": L, "F": F}
		for oi, op := range j.seq {
			res.Ops++
			who, what, _ := strings.Cut(op, ":")
			c := node[who]
			var herr error
			var perr interface{}
			func() {
				defer func() { perr = recover() }()
				c.enter()
				defer c.leave()
				switch {
				case what == "install":
					// copy of what raft does on InstallSnapshot: the follower restores the snapshot the leader
					// persisted last; then it is at the snapshot's index
					snaps, _ := L.w.fss.List()
					if len(snaps) == 0 || snaps[0].Index < F.w.lastIndex() {
						return // nothing newer to install
					}
					_, rc, err := L.w.fss.Open(snaps[0].ID)
					if err != nil {
						herr = fmt.Errorf("HARNESS: open: %v", err)
						return
					}
					installs++
					F.w.pending = nil
					if err := F.w.fsm.Restore(rc); err != nil {
						herr = fmt.Errorf("Restore of the leader's snapshot failed: %v", err)
						return
					}
					// the follower is now where the leader was when it took the snapshot: bring its bookkeeping
					// (what the harness considers applied, and the twin) to that index
					for F.w.lastIndex() < snaps[0].Index {
						ch := j.log.Chunks[F.w.nextChunk]
						F.w.nextChunk++
						for _, e := range ch.Entries {
							st := F.w.twin.Apply(c02Msg(e))
							F.w.twinOut[e.Id] = st.Msgs
							F.w.applied = append(F.w.applied, e)
						}
					}
					if L.w.maxCompactionEnd.After(F.w.maxCompactionEnd) {
						F.w.maxCompactionEnd = L.w.maxCompactionEnd
					}
				default:
					herr = c.w.run(what)
				}
			}()
			if strings.HasPrefix(what, "restart") {
				res.Restarts++
			}
			if strings.HasPrefix(what, "snap") {
				res.Snapshots++
			}
			if perr != nil {
				res.report(sigs, "C02", "panic during "+strings.SplitN(what, ":", 2)[0]+" (two-node tier)", fmt.Sprintf("log %s, schedule %v, op %d: %v", j.log.Name, j.seq, oi, perr), full)
				break
			}
			if herr != nil {
				if strings.HasPrefix(herr.Error(), "HARNESS") {
					res.HarnessErr = herr.Error()
				} else {
					res.report(sigs, "C02", "operation failed (two-node tier): "+strings.SplitN(herr.Error(), ":", 2)[0], fmt.Sprintf("log %s, schedule %v, op %d (%s): %v", j.log.Name, j.seq, oi, op, herr), full)
				}
				break
			}
			// every node against its own twin
			for _, name := range []string{"L", "F"} {
				n := node[name]
				n.enter()
				for _, b := range n.w.check(strings.SplitN(what, ":", 2)[0] + " on " + who) {
					role := "leader"
					if name == "F" {
						role = "follower"
					}
					res.report(sigs, "C02", role+": "+b[0], fmt.Sprintf("log %s, schedule %v, after op %d (%s): %s", j.log.Name, j.seq, oi, op, b[1]), full)
				}
				n.leave()
			}
			// the two nodes agree on every input both still serve
			for _, e := range F.w.applied {
				L.enter()
				a, okA := outputStream.Get(robust.Id{Id: robust.IdFromRaftIndex(e.Id)})
				L.leave()
				F.enter()
				b, okB := outputStream.Get(robust.Id{Id: robust.IdFromRaftIndex(e.Id)})
				F.leave()
				if okA && okB {
					same := len(a) == len(b)
					for k := 0; same && k < len(a); k++ {
						if strings.Contains(a[k].Data, " 003 ") {
							continue
						}
						if a[k].Id != b[k].Id || a[k].Data != b[k].Data || c02Recips(a[k].InterestingFor) != c02Recips(b[k].InterestingFor) {
							same = false
						}
					}
					if !same {
						res.report(sigs, "C05", "two nodes serve different output for the same input", fmt.Sprintf("log %s, schedule %v, after op %d: input %d", j.log.Name, j.seq, oi, e.Id), full)
					}
				}
			}
		}
		res.EndStates[fmt.Sprintf("%s: leader %d applied, follower %d applied, %d/%d snapshots", j.log.Name, len(L.w.applied), len(F.w.applied), len(L.w.persisted), len(F.w.persisted))]++
		if len(res.Samples) < 3 && ji%173 == shard {
			res.Samples = append(res.Samples, fmt.Sprintf("log %s schedule %v: leader applied %d, follower %d entries", j.log.Name, j.seq, len(L.w.applied), len(F.w.applied)))
		}
		for _, n := range []*c02Ctx{L, F} {
			n.enter()
			n.w.close()
			os.RemoveAll(n.w.dir)
		}
		if res.HarnessErr != "" && res.HarnessErr != "time cap reached" {
			break
		}
	}
	res.Retries = installs
	b, _ := json.Marshal(res)
	if o := os.Getenv("VERIF_OUT"); o != "" {
		os.WriteFile(o, b, 0644)
	} else {
		fmt.Println(string(b))
	}
}
