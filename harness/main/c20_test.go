//go:build verif && verifrace

package main

// C20: data-race freedom of concurrent API use.  The repository files that take locks
// (ircserver.go, serialize.go, outputstream.go, leveldb.go, api.go, statemachine.go, ...)
// are compiled with "sync" redirected to the race-mode scheduler shim (engine vsyncr):
// the shim decides the interleaving, forwards every operation to the *real* primitive
// and hands the token over without creating happens-before edges, so the Go race
// detector judges exactly the program's own synchronisation -- once per enumerated
// schedule.  Pairs of operations that the running system executes concurrently are
// explored within a preemption bound.

import (
	"context"
	"encoding/json"
	"fmt"
	"net/http/httptest"
	"os"
	"regexp"
	"runtime"
	"sort"
	"strconv"
	"strings"
	"testing"
	"time"

	"github.com/hashicorp/raft"
	"github.com/robustirc/robustirc/internal/api"
	"github.com/robustirc/robustirc/internal/ircserver"
	"github.com/robustirc/robustirc/internal/outputstream"
	"github.com/robustirc/robustirc/internal/raftstore"
	"github.com/robustirc/robustirc/internal/robust"
	vsync "github.com/robustirc/robustirc/internal/verif/vsyncr"
)

type c20Fixture struct {
	srv            *ircserver.IRCServer
	o              *outputstream.OutputStream
	st             *raftstore.LevelDBStore
	h              *api.HTTP
	fsm            *FSM
	next           uint64
	now            int64
	a, b           robust.Id
	link           robust.Id // an authenticated services link with the pseudo-client ChanServ
	pending        robust.Id // a session that has sent PASS services=... but not SERVER yet
	pendingAuth    string
	pendingCmid    uint64
	batchA, batchB uint64 // ids of inputs that produced an output batch (JOIN of a, JOIN of b)
	tailPrev       uint64 // id of the batch in front of the newest one: GetNext(tailPrev) hands out the tail
	spare          *ircserver.IRCServer
}

const c20Cfg = `SessionExpiration = "30m"
PostMessageCooloff = "500ms"
[IRC]
[[IRC.Operators]]
Name = "root"
Password = "operpw"
[[IRC.Services]]
Password = "svcpw"
[TrustedBridges]
bridgeauth = "bridge1"
`

var c20Store *raftstore.LevelDBStore

var c20FreshStore bool
var c20StoreSeq int

func c20NewFixture(t *testing.T, dir string) *c20Fixture {
	if c20FreshStore && c20Store != nil {
		// store operations are part of the pair: every execution gets a freshly opened store (state that
		// is only initialised lazily after open must be exercised concurrently, too)
		c20Store.Close()
		c20Store = nil
		c20StoreSeq++
	}
	f := &c20Fixture{fsm: &FSM{lastSnapshotState: make(map[uint64][]byte)}}
	f.srv = ircserver.VerifNewServer()
	f.spare = ircserver.VerifNewServer()
	o, err := outputstream.VerifNewStream()
	if err != nil {
		t.Fatal(err)
	}
	f.o = o
	if c20Store == nil {
		st, err := raftstore.NewLevelDBStore(fmt.Sprintf("%s/c20store%d", dir, c20StoreSeq/50), false, true)
		if err != nil {
			t.Fatal(err)
		}
		c20Store = st
		for i := uint64(1); i <= 4; i++ {
			st.StoreLog(&raft.Log{Index: i, Term: 1, Type: raft.LogCommand, Data: []byte("pxx")})
		}
	}
	f.st = c20Store
	f.now = ircserver.VerifT0
	apply := func(e ircserver.VEntry) {
		f.next++
		f.now += 1e9
		e.Id, e.UnixNano = f.next, f.now
		f.fsm.applyRobustMessage(e.Msg(), f.srv, f.o)
	}
	apply(ircserver.VEntry{Type: robust.Config, Data: c20Cfg, Revision: 1})
	apply(ircserver.VEntry{Type: robust.CreateSession, Data: "auth-a-0123456789"})
	f.a = robust.Id{Id: f.next}
	for _, l := range []string{"NICK a", "USER a 0 * :A", "OPER root operpw", "JOIN #c"} {
		apply(ircserver.VEntry{Type: robust.IRCFromClient, Session: f.a, Data: l, ClientMessageId: f.next + 100, RemoteAddr: "10.0.0.1"})
	}
	f.batchA = f.next
	apply(ircserver.VEntry{Type: robust.CreateSession, Data: "auth-b-0123456789"})
	f.b = robust.Id{Id: f.next}
	for _, l := range []string{"NICK b", "USER b 0 * :B", "JOIN #c"} {
		apply(ircserver.VEntry{Type: robust.IRCFromClient, Session: f.b, Data: l, ClientMessageId: f.next + 100, RemoteAddr: "10.0.0.2"})
	}
	f.batchB = f.next
	apply(ircserver.VEntry{Type: robust.CreateSession, Data: "auth-s-0123456789"})
	f.link = robust.Id{Id: f.next}
	for _, l := range []string{"PASS :services=svcpw", "SERVER services.robustirc.net 1 :Services", "NICK ChanServ 1 1422134861 services robustirc.net services.robustirc.net 0 :Channel Services"} {
		apply(ircserver.VEntry{Type: robust.IRCFromClient, Session: f.link, Data: l, ClientMessageId: f.next + 100, RemoteAddr: "10.0.0.3"})
	}
	apply(ircserver.VEntry{Type: robust.CreateSession, Data: "auth-p-0123456789"})
	f.pending, f.pendingAuth = robust.Id{Id: f.next}, "auth-p-0123456789"
	apply(ircserver.VEntry{Type: robust.IRCFromClient, Session: f.pending, Data: "PASS :services=svcpw", ClientMessageId: f.next + 100, RemoteAddr: "10.0.0.4"})
	f.pendingCmid = f.next + 99 // the client message id of that PASS line
	for id := f.o.LastSeen().Id - 1; id > 0; id-- {
		if _, ok := f.o.Get(robust.Id{Id: id}); ok {
			f.tailPrev = id
			break
		}
	}
	if _, ok := f.o.Get(robust.Id{Id: f.batchA}); !ok {
		t.Fatal("HARNESS: fixture batch missing")
	}
	// a second stream object over the same data would share the cache; instead make sure the cache is cold
	// for the operations under test: Get above warmed batchA only
	// (a zero raft.Raft: State() is Follower and Leader() is empty, which is all a handler that finds no
	// duplicate needs to answer "no leader known" instead of dereferencing nil)
	f.h = api.NewHTTP(f.srv, &raft.Raft{}, f.st, f.o, nil, vNetName, vNetPassword, dir, vPeerAddr, true, 3)
	return f
}

type c20Op struct {
	Name string
	Side string // "fsm" (the single goroutine that applies entries / snapshots / restores) or "http"
	Run  func(f *c20Fixture)
}

func c20Ops() []c20Op {
	line := func(sess func(f *c20Fixture) robust.Id, data string) func(f *c20Fixture) {
		return func(f *c20Fixture) {
			e := ircserver.VEntry{Type: robust.IRCFromClient, Id: f.next + 1, Session: sess(f), Data: data, UnixNano: f.now + 1e9, ClientMessageId: 999, RemoteAddr: "10.0.0.9"}
			f.fsm.applyRobustMessage(e.Msg(), f.srv, f.o)
		}
	}
	A := func(f *c20Fixture) robust.Id { return f.a }
	B := func(f *c20Fixture) robust.Id { return f.b }
	L := func(f *c20Fixture) robust.Id { return f.link }
	ops := []c20Op{
		// the services link: its command table touches the same state through its own handlers
		{"Apply(services SVSJOIN new channel)", "fsm", line(L, ":services.robustirc.net SVSJOIN a #svsnew")},
		{"Apply(services JOIN new channel)", "fsm", line(L, ":ChanServ JOIN #svcnew")},
		{"Apply(services SVSPART)", "fsm", line(L, ":services.robustirc.net SVSPART b #c")},
		{"Apply(services SVSNICK)", "fsm", line(L, "SVSNICK b guest7 :1")},
		{"Apply(services KILL)", "fsm", line(L, ":ChanServ KILL b :bye")},
		{"Apply(services NICK new pseudo-client)", "fsm", line(L, "NICK NickServ 1 1422134861 services robustirc.net services.robustirc.net 0 :Nick Services")},
		{"Apply(services QUIT)", "fsm", line(L, "QUIT :link closing")},
		// (same client message id as the session's previous line: the POST handler below then answers from the
		// duplicate detection whichever of the two runs first; the fixture has no raft node to hand a message to)
		{"Apply(SERVER: a session becomes a services link)", "fsm", func(f *c20Fixture) {
			e := ircserver.VEntry{Type: robust.IRCFromClient, Id: f.next + 1, Session: f.pending, Data: "SERVER services2.robustirc.net 1 :second link", UnixNano: f.now + 1e9, ClientMessageId: f.pendingCmid, RemoteAddr: "10.0.0.4"}
			f.fsm.applyRobustMessage(e.Msg(), f.srv, f.o)
		}},
		{"Apply(PRIVMSG)", "fsm", line(A, "PRIVMSG #c :hi")},
		{"Apply(NICK)", "fsm", line(B, "NICK bb")},
		{"Apply(JOIN new channel)", "fsm", line(B, "JOIN #d")},
		{"Apply(QUIT)", "fsm", line(B, "QUIT :bye")},
		{"Apply(GLINE)", "fsm", line(A, "GLINE b :spam")},
		{"Apply(MODE +k)", "fsm", line(A, "MODE #c +k key")},
		{"Apply(CreateSession)", "fsm", func(f *c20Fixture) {
			e := ircserver.VEntry{Type: robust.CreateSession, Id: f.next + 1, Data: "auth-new-0123456789", UnixNano: f.now + 1e9}
			f.fsm.applyRobustMessage(e.Msg(), f.srv, f.o)
		}},
		{"Apply(DeleteSession)", "fsm", func(f *c20Fixture) {
			e := ircserver.VEntry{Type: robust.DeleteSession, Id: f.next + 1, Session: f.b, Data: "gone", UnixNano: f.now + 1e9}
			f.fsm.applyRobustMessage(e.Msg(), f.srv, f.o)
		}},
		{"Apply(Config)", "fsm", func(f *c20Fixture) {
			e := ircserver.VEntry{Type: robust.Config, Id: f.next + 1, Data: c20Cfg, Revision: 2, UnixNano: f.now + 1e9}
			f.fsm.applyRobustMessage(e.Msg(), f.srv, f.o)
		}},
		{"Apply(MessageOfDeath)", "fsm", func(f *c20Fixture) {
			e := ircserver.VEntry{Type: robust.MessageOfDeath, Id: f.next + 1, Session: f.a, Data: "x", ClientMessageId: 4242, UnixNano: f.now + 1e9}
			f.fsm.applyRobustMessage(e.Msg(), f.srv, f.o)
		}},
		{"OutputStream.Add", "fsm", func(f *c20Fixture) {
			f.o.Add([]outputstream.Message{{Id: robust.Id{Id: f.next + 5, Reply: 1}, Data: "x", InterestingFor: map[uint64]bool{f.a.Id: true}}})
		}},
		{"OutputStream.Delete", "fsm", func(f *c20Fixture) { f.o.Delete(robust.Id{Id: f.a.Id + 2}) }},
		{"LevelDBStore.StoreLog", "fsm", func(f *c20Fixture) {
			f.st.StoreLog(&raft.Log{Index: 5, Term: 1, Type: raft.LogCommand, Data: []byte("pyy")})
		}},
		{"LevelDBStore.DeleteRange", "fsm", func(f *c20Fixture) { f.st.DeleteRange(5, 5) }},
		{"HTTP.ReplaceState (Restore)", "fsm", func(f *c20Fixture) { f.h.ReplaceState(f.spare, f.st, f.o) }},
		{"IRCServer.Unmarshal into a fresh server (Restore)", "fsm", func(f *c20Fixture) {
			b, _ := f.srv.Marshal(0)
			f.spare.Unmarshal(b)
		}},

		{"ThrottleUntil(a)", "http", func(f *c20Fixture) { f.srv.ThrottleUntil(f.a) }},
		{"ThrottleUntil(b)", "http", func(f *c20Fixture) { f.srv.ThrottleUntil(f.b) }},
		{"LastPostMessage", "http", func(f *c20Fixture) { f.srv.LastPostMessage(f.a) }},
		{"GetSession+GetAuth", "http", func(f *c20Fixture) { f.srv.GetSession(f.b); f.srv.GetAuth(f.a); f.srv.GetSession(robust.Id{Id: 999}) }},
		{"GetNick", "http", func(f *c20Fixture) { f.srv.GetNick(f.b) }},
		{"GetSessions", "http", func(f *c20Fixture) { f.srv.GetSessions() }},
		{"NumSessions+NumChannels", "http", func(f *c20Fixture) { f.srv.NumSessions(); f.srv.NumChannels() }},
		{"Marshal (status page)", "http", func(f *c20Fixture) { f.srv.Marshal(0) }},
		{"TrustedBridge+OriginWhitelisted+Banned", "http", func(f *c20Fixture) {
			f.srv.TrustedBridge("bridgeauth")
			f.srv.OriginWhitelisted("https://web.example")
			f.srv.Banned("10.0.0.2")
		}},
		{"SessionLimit+ChannelLimit", "http", func(f *c20Fixture) { f.srv.SessionLimit(); f.srv.ChannelLimit() }},
		{"ExpireSessions", "http", func(f *c20Fixture) { f.srv.ExpireSessions() }},
		{"GET /config", "http", func(f *c20Fixture) {
			f.h.DispatchPrivateWithoutAuth(httptest.NewRecorder(), httptest.NewRequest("GET", "https://x/config", nil))
		}},
		{"OutputStream.Get (cold batch)", "http", func(f *c20Fixture) { f.o.Get(robust.Id{Id: f.batchB}) }},
		{"OutputStream.Get (warm batch)", "http", func(f *c20Fixture) { f.o.Get(robust.Id{Id: f.batchA}) }},
		{"OutputStream.GetNext (chain)", "http", func(f *c20Fixture) { f.o.GetNext(context.Background(), robust.Id{Id: f.batchB - 1}) }},
		// the reader is handed the batch that is the tail right now (the next Add rewrites that batch's successor link)
		{"OutputStream.GetNext (returns the tail)", "http", func(f *c20Fixture) {
			for _, m := range f.o.GetNext(context.Background(), robust.Id{Id: f.tailPrev}) {
				_ = len(m.Data) + len(m.InterestingFor)
			}
		}},
		{"OutputStream.GetNext (range search)", "http", func(f *c20Fixture) { f.o.GetNext(context.Background(), robust.Id{Id: f.a.Id}) }},
		{"OutputStream.LastSeen+InterruptGetNext", "http", func(f *c20Fixture) { f.o.LastSeen(); f.o.InterruptGetNext() }},
		{"LevelDBStore reads", "http", func(f *c20Fixture) {
			var l raft.Log
			f.st.GetLog(2, &l)
			f.st.FirstIndex()
			f.st.LastIndex()
			it := f.st.GetBulkIterator(0, 10)
			for it.Next() {
			}
			it.Release()
		}},
		{"LevelDBStore stable store", "http", func(f *c20Fixture) {
			f.st.SetUint64([]byte("CurrentTerm"), 3)
			f.st.GetUint64([]byte("CurrentTerm"))
			f.st.Set([]byte("LastVoteCand"), []byte("x"))
			f.st.Get([]byte("LastVoteCand"))
		}},
		// the real POST handler; the request repeats the session's last client message id, so it is answered by
		// the duplicate detection without going to raft (there is none in this fixture)
		{"POST message (duplicate) via the real handler", "http", func(f *c20Fixture) {
			for _, x := range []struct {
				id   robust.Id
				auth string
				cmid uint64
			}{{f.pending, f.pendingAuth, f.pendingCmid}} {
				body := fmt.Sprintf(`{"Data":"PASS :services=svcpw","ClientMessageId":%d}`, x.cmid)
				req := httptest.NewRequest("POST", fmt.Sprintf("https://x/robustirc/v1/0x%x/message", x.id.Id), strings.NewReader(body))
				req.Header.Set("X-Session-Auth", x.auth)
				f.h.VerifHandlePostMessage(httptest.NewRecorder(), req, x.id)
			}
		}},
		{"GET /status/sessions via api accessors", "http", func(f *c20Fixture) {
			f.h.DispatchPrivateWithoutAuth(httptest.NewRecorder(), httptest.NewRequest("GET", "https://x/status/sessions", nil))
		}},
	}
	return ops
}

var c20FrameRe = regexp.MustCompile(`^\s+github\.com/robustirc/robustirc(?:/internal/[a-z]+)?\.(\(\*?[A-Za-z]+\)\.)?([A-Za-z0-9_]+)(?:\.func[0-9.]+)?\(\)`)

// c20Signature extracts the innermost repository functions of the two accesses of a race report.
func c20Signature(report string) (string, string) {
	var fns []string
	blocks := strings.Split(report, "\n\n")
	for _, b := range blocks {
		lines := strings.Split(b, "\n")
		if len(lines) == 0 {
			continue
		}
		head := ""
		for k, l := range lines {
			if strings.Contains(l, " at 0x") && strings.Contains(l, "by goroutine") {
				head = l
				lines = lines[k:]
				break
			}
		}
		if !(strings.Contains(head, "Write at") || strings.Contains(head, "Read at") || strings.Contains(head, "Previous write at") || strings.Contains(head, "Previous read at")) {
			continue
		}
		kind := "read"
		if strings.Contains(strings.ToLower(head), "write") {
			kind = "write"
		}
		fn := "?"
		for _, l := range lines[1:] {
			if strings.Contains(l, "zz_verif_") || strings.Contains(l, "/verif/") {
				continue
			}
			if m := c20FrameRe.FindStringSubmatch(l); m != nil && !strings.HasPrefix(m[2], "Verif") && !strings.HasPrefix(m[2], "c20") {
				fn = m[2]
				break
			}
		}
		fns = append(fns, kind+" in "+fn)
	}
	if len(fns) > 2 {
		fns = fns[:2]
	}
	sort.Strings(fns)
	return strings.Join(fns, " / "), report
}

type c20Violation struct {
	Sig      string    `json:"sig"`
	Desc     string    `json:"desc"`
	Prop     string    `json:"prop"`
	Count    int       `json:"count"`
	Pair     [2]string `json:"pair"`
	Schedule []int     `json:"schedule"`
	Report   string    `json:"report"`
}

func TestVerifC20(t *testing.T) {
	shard, _ := strconv.Atoi(os.Getenv("VERIF_SHARD"))
	nshards, _ := strconv.Atoi(os.Getenv("VERIF_NSHARDS"))
	if nshards == 0 {
		nshards = 1
	}
	if runtime.GOMAXPROCS(0) != 1 {
		t.Fatal("HARNESS: race mode needs GOMAXPROCS=1")
	}
	bound := 1
	if os.Getenv("VERIF_TIER") == "thorough" {
		bound = 2
	}
	if b := os.Getenv("VERIF_BOUND"); b != "" {
		bound, _ = strconv.Atoi(b)
	}
	var deadline time.Time
	if d := os.Getenv("VERIF_DEADLINE"); d != "" {
		sec, _ := strconv.ParseInt(d, 10, 64)
		deadline = time.Unix(sec, 0)
	}
	logPath := os.Getenv("VERIF_RACE_LOG")
	readLog := func() string {
		var sb strings.Builder
		matches, _ := os.ReadDir(strings.TrimSuffix(logPath, "/race"))
		for _, m := range matches {
			if strings.HasPrefix(m.Name(), "race.") {
				b, _ := os.ReadFile(strings.TrimSuffix(logPath, "/race") + "/" + m.Name())
				sb.Write(b)
			}
		}
		return sb.String()
	}
	dir := t.TempDir()
	type result struct {
		Pairs      int             `json:"pairs"`
		Executions int             `json:"executions"`
		Points     int             `json:"points"`
		Truncated  int             `json:"pairs_truncated"`
		Outcomes   map[string]int  `json:"outcomes"`
		RacyPairs  int             `json:"pairs_with_race"`
		Deadlocks  int             `json:"deadlocks_seen"`
		Violations []*c20Violation `json:"violations"`
		Samples    []string        `json:"samples"`
		Bound      int             `json:"preemption_bound"`
	}
	res := &result{Outcomes: map[string]int{}, Bound: bound}
	sigs := map[string]*c20Violation{}
	ops := c20Ops()
	type pair struct{ x, y int }
	var pairs []pair
	for x := range ops {
		for y := range ops {
			if y < x {
				continue
			}
			// the FSM side is one goroutine: two FSM operations never run concurrently
			if ops[x].Side == "fsm" && ops[y].Side == "fsm" {
				continue
			}
			pairs = append(pairs, pair{x, y})
		}
	}
	only := os.Getenv("VERIF_C20_PAIR")
	seenLog := len(readLog())
	for pi, p := range pairs {
		if pi%nshards != shard {
			continue
		}
		if only != "" && only != ops[p.x].Name+"|"+ops[p.y].Name {
			continue
		}
		res.Pairs++
		racy := false
		c20FreshStore = strings.HasPrefix(ops[p.x].Name, "LevelDBStore") || strings.HasPrefix(ops[p.y].Name, "LevelDBStore")
		st := vsync.Explore(bound, 20000, deadline, func(s *vsync.Sched) {
			f := c20NewFixture(t, dir)
			before := runtime.RaceErrors()
			s.Go(ops[p.x].Name, func() { ops[p.x].Run(f) })
			s.Go(ops[p.y].Name, func() { ops[p.y].Run(f) })
			s.Run()
			res.Points += len(s.Points)
			if s.Outcome == "deadlock" {
				res.Deadlocks++
			}
			if runtime.RaceErrors() > before {
				racy = true
				all := readLog()
				report := all[seenLog:]
				seenLog = len(all)
				for _, rep := range strings.Split(report, "==================") {
					if !strings.Contains(rep, "DATA RACE") {
						continue
					}
					sg, _ := c20Signature(rep)
					full := "C20:data race: " + sg
					if v, ok := sigs[full]; ok {
						v.Count++
						continue
					}
					sched := make([]int, len(s.Points))
					for k, pt := range s.Points {
						sched[k] = pt.Chosen
					}
					if len(rep) > 3000 {
						rep = rep[:3000]
					}
					v := &c20Violation{Sig: full, Desc: fmt.Sprintf("%s || %s, schedule %v", ops[p.x].Name, ops[p.y].Name, sched), Prop: "C20", Count: 1, Pair: [2]string{ops[p.x].Name, ops[p.y].Name}, Schedule: sched, Report: rep}
					sigs[full] = v
					res.Violations = append(res.Violations, v)
				}
			}
		})
		res.Executions += st.Executions
		if st.Truncated {
			res.Truncated++
		}
		for k, v := range st.Outcomes {
			res.Outcomes[k] += v
		}
		if racy {
			res.RacyPairs++
		}
		if len(res.Samples) < 4 && pi%29 == shard%29 {
			res.Samples = append(res.Samples, fmt.Sprintf("%s || %s: %d schedules (<=%d preemptions), race reported: %v", ops[p.x].Name, ops[p.y].Name, st.Executions, bound, racy))
		}
	}
	b, _ := json.Marshal(res)
	if o := os.Getenv("VERIF_OUT"); o != "" {
		os.WriteFile(o, b, 0644)
	} else {
		fmt.Println(string(b))
	}
}
