//go:build verif

package outputstream

import (
	"encoding/binary"
	"math"
	"reflect"
	"strings"
	"sync"

	"github.com/robustirc/robustirc/internal/robust"
	"github.com/syndtr/goleveldb/leveldb"
	"github.com/syndtr/goleveldb/leveldb/opt"
	"github.com/syndtr/goleveldb/leveldb/storage"
)

// VerifNewStream exports the fast stream constructor of the C08 harness to harnesses in other
// packages (C04).  In scheduler builds this file is rewritten like outputstream.go ("sync" -> vsync).
func VerifNewStream() (*OutputStream, error) { return verifNewStreamImpl() }

var verifSharedDB *leveldb.DB
var verifSharedUses int

// c08NewStream returns a stream in the state NewOutputStream/reset produce.  Opening and closing
// a LevelDB costs ~2.4 ms even on in-memory storage, so the executions of one worker share one
// database (in-memory storage) that is emptied between executions; the OutputStream object
// itself (locks, condition variable, cache, lastseen) is fresh every time.
// verifStreamFields are the fields of OutputStream this constructor knows how to initialise.  A field
// added to the repository later makes the harness stop (HARNESS-OUT-OF-DATE) instead of running the
// real code on a half-initialised object.
var verifStreamFields = "tmpdir,dirname,messagesMu,newMessage,db,batch,lastseen,cacheMu,messagesCache"

func verifNewStreamImpl() (*OutputStream, error) {
	if verifSharedDB == nil {
		t := reflect.TypeOf(OutputStream{})
		var names []string
		for k := 0; k < t.NumField(); k++ {
			names = append(names, t.Field(k).Name)
		}
		if got := strings.Join(names, ","); got != verifStreamFields {
			panic("HARNESS-OUT-OF-DATE: OutputStream has fields " + got + ", the harness constructor knows " + verifStreamFields)
		}
	}
	o := &OutputStream{messagesCache: make(map[uint64]*messageBatch)}
	o.newMessage = sync.NewCond(&o.messagesMu)
	verifSharedUses++
	if verifSharedDB != nil && verifSharedUses%200 == 0 {
		// tombstones accumulate in the memtable and slow the emptying scan down: start afresh
		verifSharedDB.Close()
		verifSharedDB = nil
	}
	if verifSharedDB == nil {
		db, err := leveldb.Open(storage.NewMemStorage(), &opt.Options{NoSync: true, BlockCacheCapacity: 2 * 1024 * 1024})
		if err != nil {
			return nil, err
		}
		verifSharedDB = db
	}
	db := verifSharedDB
	it := db.NewIterator(nil, nil)
	var batch leveldb.Batch
	for it.Next() {
		batch.Delete(append([]byte(nil), it.Key()...))
	}
	it.Release()
	if err := db.Write(&batch, nil); err != nil {
		return nil, err
	}
	o.db = db
	o.lastseen = messageBatch{
		Messages: []Message{{Id: robust.Id{Id: 0}, InterestingFor: make(map[uint64]bool)}},
		NextID:   math.MaxUint64,
	}
	var key [8]byte
	binary.BigEndian.PutUint64(key[:], uint64(0))
	return o, o.db.Put(key[:], o.lastseen.marshal(), nil)
}

