//go:build verif

package outputstream

// C08, sequential tier: every sequential program up to a length over Add / Delete(any
// existing id, also the tail) / Delete(non-existing) / GetNext / Get against a sorted-map
// model (replaces the "long random sequential programs" of the property text by a bounded
// exhaustive set; exercises the cache paths: Add after Delete(tail), Get after rewrite).

import (
	"context"
	"encoding/json"
	"fmt"
	"os"
	"sort"
	"strconv"
	"strings"
	"testing"
	"time"

	"github.com/robustirc/robustirc/internal/robust"
)

var c08StuckWait = 20 * time.Second

type c08SeqOp struct {
	Kind string
	Id   uint64
}

func TestVerifC08Seq(t *testing.T) {
	c08LongOn = true
	defer func() { c08LongOn = false }()
	shard, _ := strconv.Atoi(os.Getenv("VERIF_SHARD"))
	nshards, _ := strconv.Atoi(os.Getenv("VERIF_NSHARDS"))
	if nshards == 0 {
		nshards = 1
	}
	maxLen := 5
	if os.Getenv("VERIF_TIER") == "thorough" {
		maxLen = 7
	}
	if l := os.Getenv("VERIF_SEQLEN"); l != "" {
		maxLen, _ = strconv.Atoi(l)
	}
	type result struct {
		Programs   int             `json:"sequential_programs"`
		Ops        int             `json:"sequential_ops"`
		States     map[string]bool `json:"-"`
		NStates    int             `json:"distinct_model_states"`
		Violations []*c08Violation `json:"violations"`
		Samples    []string        `json:"samples"`
		MaxLen     int             `json:"max_len"`
	}
	res := &result{States: map[string]bool{}, MaxLen: maxLen}
	chainReads := os.Getenv("VERIF_C08_CHAIN") == "1"
	sigs := map[string]*c08Violation{}
	cancelled, cancel := context.WithCancel(context.Background())
	cancel()
	// apply executes one op on the real stream and the model and returns a violation description or ""
	apply := func(o *OutputStream, model map[uint64]bool, op c08SeqOp) (bad string) {
		defer func() {
			if r := recover(); r != nil {
				bad = fmt.Sprintf("panic: %v", r)
			}
		}()
		switch op.Kind {
		case "add":
			if err := o.Add(c08Batch(op.Id)); err != nil {
				return "Add failed: " + err.Error()
			}
			model[op.Id] = true
		case "del":
			if err := o.Delete(robust.Id{Id: op.Id}); err != nil {
				return "Delete failed: " + err.Error()
			}
			delete(model, op.Id)
		case "next":
			want, has := c08Succ(model, op.Id)
			ctx := context.Background()
			if !has {
				ctx = cancelled
			}
			var msgs []Message
			if !has {
				msgs = o.GetNext(ctx, robust.Id{Id: op.Id})
			} else {
				// a successor exists, so the call has to return; a call that parks itself can never be woken in a
				// sequential program: bound the wait, then free the goroutine and report
				cctx, ccancel := context.WithCancel(ctx)
				done := make(chan []Message, 1)
				panicked := ""
				go func() {
					defer func() {
						if r := recover(); r != nil {
							panicked = fmt.Sprint(r)
							done <- nil
						}
					}()
					done <- o.GetNext(cctx, robust.Id{Id: op.Id})
				}()
				select {
				case msgs = <-done:
					ccancel()
					if panicked != "" {
						return "panic: " + panicked
					}
				case <-time.After(c08StuckWait):
					ccancel()
					c08StuckWait = time.Second // one report is enough to fail the run: do not wait as long again
					for stuck := true; stuck; {
						o.InterruptGetNext()
						select {
						case <-done:
							stuck = false
						case <-time.After(time.Millisecond):
						}
					}
					return fmt.Sprintf("GetNext(%d) stays blocked, want batch %d", op.Id, want)
				}
			}
			if !has {
				if len(msgs) != 0 {
					return fmt.Sprintf("GetNext(%d) returned batch %d although no successor exists", op.Id, msgs[0].Id.Id)
				}
				return ""
			}
			if len(msgs) == 0 || msgs[0].Id.Id != want {
				got := "empty"
				if len(msgs) > 0 {
					got = fmt.Sprint(msgs[0].Id.Id)
				}
				return fmt.Sprintf("GetNext(%d) returned %s, want batch %d", op.Id, got, want)
			}
			if len(msgs) != 2 || msgs[0].Data != c08Data(want, 1) || msgs[1].Data != c08Data(want, 2) || !msgs[0].InterestingFor[1] || !msgs[1].InterestingFor[2] {
				return fmt.Sprintf("GetNext(%d) returned batch %d with wrong content", op.Id, want)
			}
		case "get":
			msgs, ok := o.Get(robust.Id{Id: op.Id})
			if ok != model[op.Id] {
				return fmt.Sprintf("Get(%d) found=%v, model says %v", op.Id, ok, model[op.Id])
			}
			if ok && (len(msgs) != 2 || msgs[0].Data != c08Data(op.Id, 1) || msgs[1].Data != c08Data(op.Id, 2) || msgs[0].Id.Id != op.Id || msgs[1].Id.Reply != 2) {
				return fmt.Sprintf("Get(%d) returned wrong content", op.Id)
			}
		case "lastseen":
			// LastSeen names the newest batch (0 when none exists)
			var newest uint64
			for id := range model {
				if id > newest {
					newest = id
				}
			}
			if got := o.LastSeen().Id; got != newest {
				return fmt.Sprintf("LastSeen() = %d, newest existing batch is %d", got, newest)
			}
		}
		return ""
	}
	menu := func(model map[uint64]bool, added []uint64) []c08SeqOp {
		// ids start just below 256 and step by 10, so that consecutive ids differ in more than their lowest byte
		// (the store orders its keys bytewise)
		next := uint64(250)
		if len(added) > 0 {
			next = added[len(added)-1] + 10
		}
		ops := []c08SeqOp{{"add", next}}
		var ids []uint64
		for id := range model {
			ids = append(ids, id)
		}
		sort.Slice(ids, func(a, b int) bool { return ids[a] < ids[b] })
		for _, id := range ids {
			ops = append(ops, c08SeqOp{"del", id})
		}
		ops = append(ops, c08SeqOp{"del", 5}, c08SeqOp{"del", next + 5}) // non-existing: below everything, above the tail
		xs := map[uint64]bool{0: true, 15: true, 255: true, 256: true}
		for _, id := range added {
			xs[id] = true
		}
		var xl []uint64
		for x := range xs {
			xl = append(xl, x)
		}
		sort.Slice(xl, func(a, b int) bool { return xl[a] < xl[b] })
		for _, x := range xl {
			ops = append(ops, c08SeqOp{"next", x})
		}
		for _, id := range added {
			ops = append(ops, c08SeqOp{"get", id})
		}
		ops = append(ops, c08SeqOp{"get", 7}, c08SeqOp{"lastseen", 0})
		return ops
	}
	build := func(prefix []c08SeqOp) (*OutputStream, map[uint64]bool, []uint64) {
		o, err := c08NewStream()
		if err != nil {
			t.Fatal(err)
		}
		model := map[uint64]bool{}
		var added []uint64
		for _, op := range prefix {
			apply(o, model, op)
			if op.Kind == "add" {
				added = append(added, op.Id)
			}
		}
		return o, model, added
	}
	leaf := 0
	var rec func(prefix []c08SeqOp, k0 int)
	rec = func(prefix []c08SeqOp, k0 int) {
		_, model, added := build(prefix)
		ops := menu(model, added)
		for k, op := range ops {
			if len(prefix) == 1 && (k0*31+k)%nshards != shard {
				continue // the depth-2 subtrees are distributed over the workers
			}
			if len(prefix) == 0 {
				k0 = k
			}
			o, model, added := build(prefix)
			_ = added
			bad := apply(o, model, op)
			if len(prefix) > 0 || shard == 0 {
				res.Ops += len(prefix) + 1
				res.Programs++
			}
			var ks []string
			for id := range model {
				ks = append(ks, fmt.Sprint(id))
			}
			sort.Strings(ks)
			res.States[strings.Join(ks, ",")] = true
			seq := append(append([]c08SeqOp(nil), prefix...), op)
			if bad != "" {
				cls := bad
				for _, cut := range []string{"panic", "although no successor", "want batch", "wrong content", "model says", "LastSeen", "failed"} {
					if strings.Contains(bad, cut) {
						cls = cut
					}
				}
				full := "C08:sequential: " + cls + " [" + op.Kind + "]"
				if v, ok := sigs[full]; ok {
					v.Count++
				} else {
					v := &c08Violation{Sig: full, Desc: fmt.Sprintf("sequential program %v: %s", seq, bad), Prop: "C08seq", Count: 1}
					sigs[full] = v
					res.Violations = append(res.Violations, v)
				}
				continue
			}
			leaf++
			if len(res.Samples) < 3 && leaf%997 == 1 {
				res.Samples = append(res.Samples, fmt.Sprintf("sequential %v ok", seq))
			}
			// reads do not change the stream: only extend behind mutators (and behind a leading read,
			// so that "read, then mutate" orders are covered too)
			// (VERIF_C08_CHAIN=1, used with the small-cache build: reads fill and evict the batch cache, so they
			// are extended like mutators)
			if len(seq) < maxLen && (op.Kind == "add" || op.Kind == "del" || len(seq) < 2 || chainReads) {
				rec(seq, k0)
			}
		}
	}
	rec(nil, 0)
	res.NStates = len(res.States)
	b, _ := json.Marshal(res)
	if o := os.Getenv("VERIF_OUT"); o != "" {
		os.WriteFile(o, b, 0644)
	} else {
		fmt.Println(string(b))
	}
}
