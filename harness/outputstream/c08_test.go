//go:build verif

package outputstream

// C08: output stream under every interleaving.  The real outputstream.go (its import
// of "sync" redirected to the scheduler-controlled vsync by tools/rewrite.py) runs on
// a real LevelDB; bounded programs of 2-3 threads are executed under every schedule
// within the preemption bound and every observed call/return history is checked
// against a sorted-map model with a version timeline.

import (
	"context"
	"encoding/json"
	"fmt"
	"os"
	"sort"
	"strconv"
	"strings"
	"testing"
	"time"

	"github.com/robustirc/robustirc/internal/robust"
	"github.com/robustirc/robustirc/internal/verif/vsync"
)

// ---- program description ---------------------------------------------------------------

type c08Op struct {
	Kind string // add, del, next, get, cancel
	Id   uint64 // add/del/get: batch id; next: position x (0 with Chain: use the previous result)
	Chain bool
	Ctx  int // next: index of the cancellable context (0 = background); cancel: which context
}

type c08Prog struct {
	Name    string
	Initial []uint64
	Threads [][]c08Op
}

func (p c08Prog) String() string {
	var ts []string
	for _, t := range p.Threads {
		var os []string
		for _, o := range t {
			s := fmt.Sprintf("%s(%d)", o.Kind, o.Id)
			if o.Chain {
				s = o.Kind + "(prev)"
			}
			if o.Ctx > 0 {
				s += fmt.Sprintf("[ctx%d]", o.Ctx)
			}
			os = append(os, s)
		}
		ts = append(ts, "{"+strings.Join(os, "; ")+"}")
	}
	return fmt.Sprintf("init=%v %s", p.Initial, strings.Join(ts, " || "))
}

func c08Batch(id uint64) []Message {
	return []Message{
		{Id: robust.Id{Id: id, Reply: 1}, Data: c08Data(id, 1), InterestingFor: map[uint64]bool{1: true}},
		{Id: robust.Id{Id: id, Reply: 2}, Data: c08Data(id, 2), InterestingFor: map[uint64]bool{2: true}},
	}
}

var c08Long = strings.Repeat("x", 70000)

// only the sequential programs use the long text (the scheduler tier runs 400k executions)
var c08LongOn = false

// c08Data is the text of message k of batch id; the first message of batch 20 (260 in the sequential programs) is longer than 64 KiB
// ("exactly what was added" is not limited to the length of an IRC line at this interface)
func c08Data(id uint64, k int) string {
	s := fmt.Sprintf("msg %d.%d", id, k)
	if c08LongOn && (id == 20 || id == 260) && k == 1 {
		s += c08Long
	}
	return s
}

func c08Want(id uint64) string { return c08Data(id, 1) + "|" + c08Data(id, 2) }

// ---- recorded history --------------------------------------------------------------------

type c08Event struct {
	Thread   int
	Op       c08Op
	X        uint64 // effective position for next
	Call     int
	Ret      int // 0 = did not return
	ResId    uint64
	ResEmpty bool
	ResOK    bool   // get: found
	ResData  string // content check
	CtxCancelledAt int // logical time at which the ctx was cancelled (0 = never)
}

type c08Run struct {
	events  []*c08Event
	clock   int
	cancels map[int]int // ctx index -> logical time of cancel
	wakes   map[int]int // ctx index -> logical time InterruptGetNext returned after cancel
}

func (r *c08Run) tick() int { r.clock++; return r.clock }

// ---- model -----------------------------------------------------------------------------------

func c08Succ(state map[uint64]bool, x uint64) (uint64, bool) {
	var best uint64
	found := false
	for id := range state {
		if id > x && (!found || id < best) {
			best, found = id, true
		}
	}
	return best, found
}

// c08Check evaluates the oracle for one execution; it returns a violation signature and description or "".
func c08Check(p c08Prog, r *c08Run, outcome string, blocked []string, panics []interface{}, stacks []string) (string, string) {
	for k, pn := range panics {
		if pn != nil {
			site := "unknown"
			for _, l := range strings.Split(stacks[k], "\n") {
				if strings.Contains(l, "outputstream.(*OutputStream).") {
					site = strings.TrimSpace(l)
					if i := strings.Index(site, "(*OutputStream)."); i >= 0 {
						site = site[i+len("(*OutputStream)."):]
					}
					if i := strings.IndexByte(site, '('); i >= 0 {
						site = site[:i]
					}
					break
				}
			}
			return "panic in " + site, fmt.Sprintf("thread %d panicked: %v", k, pn)
		}
	}
	if outcome == "horizon" {
		return "execution did not quiesce", "horizon reached"
	}
	// mutators and their intervals
	var muts []*c08Event
	for _, e := range r.events {
		if e.Op.Kind == "add" || e.Op.Kind == "del" {
			muts = append(muts, e)
		}
	}
	const inf = 1 << 30
	ret := func(e *c08Event) int {
		if e.Ret == 0 {
			return inf
		}
		return e.Ret
	}
	// enumerate linearizations of the mutators consistent with real-time order; mutators of one
	// thread are ordered by program order (their intervals do not overlap), so this is small
	n := len(muts)
	perm := make([]int, 0, n)
	used := make([]bool, n)
	var anyOK bool
	var lastWhy string
	var try func()
	try = func() {
		if anyOK {
			return
		}
		if len(perm) == n {
			// states S_0..S_n
			states := make([]map[uint64]bool, n+1)
			cur := map[uint64]bool{}
			for _, id := range p.Initial {
				cur[id] = true
			}
			cp := func(m map[uint64]bool) map[uint64]bool {
				o := map[uint64]bool{}
				for k, v := range m {
					o[k] = v
				}
				return o
			}
			states[0] = cp(cur)
			e := make([]int, n+2) // earliest effect time of k-th mutator (1-based)
			for k := 1; k <= n; k++ {
				m := muts[perm[k-1]]
				if m.Op.Kind == "add" {
					cur[m.Op.Id] = true
				} else {
					delete(cur, m.Op.Id)
				}
				states[k] = cp(cur)
				e[k] = m.Call
				if e[k-1] > e[k] {
					e[k] = e[k-1]
				}
			}
			l := make([]int, n+2) // latest effect time
			l[n+1] = inf
			for k := n; k >= 1; k-- {
				l[k] = ret(muts[perm[k-1]])
				if l[k+1] < l[k] {
					l[k] = l[k+1]
				}
			}
			feasible := func(k, c, rr int) bool { // state k exists at some instant within [c, rr]
				ek := 0
				if k >= 1 {
					ek = e[k]
				}
				return ek <= rr && l[k+1] > c
			}
			ok := true
			why := ""
			for _, ev := range r.events {
				switch ev.Op.Kind {
				case "next":
					if ev.Ret == 0 {
						// blocked at quiescence: legal iff no successor exists in the final state
						if _, has := c08Succ(states[n], ev.X); has {
							ok, why = false, fmt.Sprintf("stuck reader: GetNext(%d) is still blocked although a successor exists in the final state", ev.X)
						}
						if ev.Op.Ctx > 0 {
							if w, woke := r.wakes[ev.Op.Ctx]; woke && w > ev.Call {
								ok, why = false, fmt.Sprintf("cancelled reader not released: GetNext(%d) still blocked after its context was cancelled and InterruptGetNext returned", ev.X)
							}
						}
						continue
					}
					if ev.ResEmpty {
						c, cancelled := r.cancels[ev.Op.Ctx]
						if ev.Op.Ctx == 0 || !cancelled || c > ev.Ret {
							ok, why = false, fmt.Sprintf("GetNext(%d) returned empty although its context was not cancelled", ev.X)
						}
						continue
					}
					if ev.ResId <= ev.X {
						ok, why = false, fmt.Sprintf("GetNext(%d) returned batch %d which is not newer", ev.X, ev.ResId)
						continue
					}
					if ev.ResData != c08Want(ev.ResId) {
						ok, why = false, fmt.Sprintf("GetNext(%d) returned batch %d with wrong content (%d bytes)", ev.X, ev.ResId, len(ev.ResData))
						continue
					}
					match := false
					for k := 0; k <= n; k++ {
						if !feasible(k, ev.Call, ev.Ret) {
							continue
						}
						if s, has := c08Succ(states[k], ev.X); has && s == ev.ResId {
							match = true
						}
					}
					if !match {
						ok, why = false, fmt.Sprintf("GetNext(%d) returned batch %d, which was at no instant of the call the smallest existing id greater than %d", ev.X, ev.ResId, ev.X)
					}
				case "get":
					match := false
					for k := 0; k <= n; k++ {
						if !feasible(k, ev.Call, ev.Ret) {
							continue
						}
						if states[k][ev.Op.Id] == ev.ResOK {
							match = true
						}
					}
					if ev.ResOK && ev.ResData != c08Want(ev.Op.Id) {
						match = false
					}
					if !match {
						ok, why = false, fmt.Sprintf("Get(%d) answered found=%v content %q, inconsistent with every state during the call", ev.Op.Id, ev.ResOK, ev.ResData)
					}
				default:
					if ev.Ret == 0 {
						ok, why = false, fmt.Sprintf("%s(%d) did not return", ev.Op.Kind, ev.Op.Id)
					}
				}
				if !ok {
					break
				}
			}
			if ok {
				anyOK = true
			} else {
				lastWhy = why
			}
			return
		}
		for k := 0; k < n; k++ {
			if used[k] {
				continue
			}
			// real-time order: k may come next only if no unused mutator returned before k was called
			okk := true
			for j := 0; j < n; j++ {
				if j != k && !used[j] && ret(muts[j]) < muts[k].Call {
					okk = false
				}
			}
			if !okk {
				continue
			}
			used[k] = true
			perm = append(perm, k)
			try()
			perm = perm[:len(perm)-1]
			used[k] = false
		}
	}
	try()
	if anyOK {
		return "", ""
	}
	sig := lastWhy
	for _, cut := range []string{"stuck reader", "cancelled reader not released", "returned empty although", "which is not newer", "wrong content", "at no instant of the call", "inconsistent with every state", "did not return"} {
		if strings.Contains(lastWhy, cut) {
			sig = cut
		}
	}
	return sig, lastWhy
}

// ---- execution -------------------------------------------------------------------------------

// c08NewStream builds an OutputStream exactly as NewOutputStream/reset do, but on LevelDB's
// in-memory storage (an execution costs ~0.3 ms instead of ~2.5 ms).  TestVerifC08 compares it
// once per run with a stream made by the real constructor.
func c08NewStream() (*OutputStream, error) { return verifNewStreamImpl() }

// c08SameInitialState compares the hand-built stream with one made by NewOutputStream.
func c08SameInitialState(tmp string) error {
	a, err := c08NewStream()
	if err != nil {
		return err
	}
	b, err := NewOutputStream(tmp)
	if err != nil {
		return err
	}
	defer b.Close()
	dump := func(o *OutputStream) string {
		var sb strings.Builder
		it := o.db.NewIterator(nil, nil)
		defer it.Release()
		for it.Next() {
			fmt.Fprintf(&sb, "%x=%x;", it.Key(), it.Value())
		}
		fmt.Fprintf(&sb, "lastseen=%x cache=%d", o.lastseen.marshal(), len(o.messagesCache))
		return sb.String()
	}
	if dump(a) != dump(b) {
		return fmt.Errorf("HARNESS-OUT-OF-DATE: hand-built stream %q differs from NewOutputStream %q", dump(a), dump(b))
	}
	return nil
}

func c08Execute(t *testing.T, p c08Prog, s *vsync.Sched, tmp string) (*c08Run, string) {
	o, err := c08NewStream()
	if err != nil {
		t.Fatal(err)
	}
	for _, id := range p.Initial {
		if err := o.Add(c08Batch(id)); err != nil {
			t.Fatal(err)
		}
	}
	r := &c08Run{cancels: map[int]int{}, wakes: map[int]int{}}
	ctxs := map[int]context.Context{0: context.Background()}
	cancelFns := map[int]context.CancelFunc{}
	for _, th := range p.Threads {
		for _, op := range th {
			if op.Ctx > 0 && ctxs[op.Ctx] == nil {
				c, cf := context.WithCancel(context.Background())
				ctxs[op.Ctx], cancelFns[op.Ctx] = c, cf
			}
		}
	}
	for ti, th := range p.Threads {
		ti, th := ti, th
		s.Go(fmt.Sprintf("T%d", ti), func() {
			var prev uint64
			for _, op := range th {
				ev := &c08Event{Thread: ti, Op: op}
				r.events = append(r.events, ev)
				switch op.Kind {
				case "add":
					ev.Call = r.tick()
					if err := o.Add(c08Batch(op.Id)); err != nil {
						panic(err)
					}
					ev.Ret = r.tick()
				case "del":
					ev.Call = r.tick()
					if err := o.Delete(robust.Id{Id: op.Id}); err != nil {
						panic(err)
					}
					ev.Ret = r.tick()
				case "next":
					ev.X = op.Id
					if op.Chain {
						ev.X = prev
					}
					ev.Call = r.tick()
					msgs := o.GetNext(ctxs[op.Ctx], robust.Id{Id: ev.X})
					ev.Ret = r.tick()
					if len(msgs) == 0 {
						ev.ResEmpty = true
					} else {
						ev.ResId = msgs[0].Id.Id
						prev = ev.ResId
						var ds []string
						for _, m := range msgs {
							ds = append(ds, m.Data)
						}
						ev.ResData = strings.Join(ds, "|")
					}
				case "get":
					ev.Call = r.tick()
					msgs, ok := o.Get(robust.Id{Id: op.Id})
					ev.Ret = r.tick()
					ev.ResOK = ok
					var ds []string
					for _, m := range msgs {
						ds = append(ds, m.Data)
					}
					ev.ResData = strings.Join(ds, "|")
				case "wake":
					// a wake-up without a new batch and without cancelling anybody (InterruptGetNext is broadcast to
					// all readers whenever any request is cancelled)
					ev.Call = r.tick()
					o.InterruptGetNext()
					ev.Ret = r.tick()
				case "cancel":
					ev.Call = r.tick()
					cancelFns[op.Ctx]()
					r.cancels[op.Ctx] = r.tick()
					o.InterruptGetNext()
					ev.Ret = r.tick()
					r.wakes[op.Ctx] = ev.Ret
				}
			}
		})
	}
	s.Run()
	for _, cf := range cancelFns {
		cf()
	}
	var obs []string
	for _, ev := range r.events {
		switch {
		case ev.Ret == 0:
			obs = append(obs, fmt.Sprintf("%s(%d)=blocked", ev.Op.Kind, ev.X))
		case ev.Op.Kind == "next" && ev.ResEmpty:
			obs = append(obs, fmt.Sprintf("next(%d)=empty", ev.X))
		case ev.Op.Kind == "next":
			obs = append(obs, fmt.Sprintf("next(%d)=%d", ev.X, ev.ResId))
		case ev.Op.Kind == "get":
			obs = append(obs, fmt.Sprintf("get(%d)=%v", ev.Op.Id, ev.ResOK))
		}
	}
	for k, pn := range s.Panics() {
		if pn != nil {
			obs = append(obs, fmt.Sprintf("T%d panicked", k))
		}
	}
	sort.Strings(obs)
	return r, strings.Join(obs, ",")
}

// ---- program generation -----------------------------------------------------------------------

func c08Programs(thorough bool) []c08Prog {
	var ps []c08Prog
	inits := [][]uint64{{}, {10}, {10, 20}, {10, 20, 30}}
	for _, init := range inits {
		var newest uint64
		if len(init) > 0 {
			newest = init[len(init)-1]
		}
		// reader positions the stream has reached
		xs := []uint64{0}
		for _, id := range init {
			xs = append(xs, id)
		}
		if len(init) > 0 {
			xs = append(xs, init[0]+5) // between two batches / behind the only one
		}
		next1, next2 := newest+10, newest+20
		if newest == 0 {
			next1, next2 = 10, 20
		}
		adders := [][]c08Op{{{Kind: "add", Id: next1}}, {{Kind: "add", Id: next1}, {Kind: "add", Id: next2}}}
		var compactors [][]c08Op
		for n := 1; n <= len(init); n++ {
			var ops []c08Op
			for k := 0; k < n; k++ {
				ops = append(ops, c08Op{Kind: "del", Id: init[k]})
			}
			compactors = append(compactors, ops)
			// compaction followed by new output (the tail may have been reached)
			compactors = append(compactors, append(append([]c08Op(nil), ops...), c08Op{Kind: "add", Id: next1}))
			if n == len(init) {
				// the whole stream is compacted and two new batches arrive before a parked reader runs again
				compactors = append(compactors, append(append([]c08Op(nil), ops...), c08Op{Kind: "add", Id: next1}, c08Op{Kind: "add", Id: next2}))
			}
		}
		compactors = append(compactors, []c08Op{{Kind: "del", Id: 5}}, []c08Op{{Kind: "del", Id: 99}})
		if len(init) > 0 {
			// the reader is parked behind the tail, the tail is deleted, the reader is woken without a new batch
			// (somebody else's request was cancelled) while a batch arrives
			tail := init[len(init)-1]
			for _, rd := range [][]c08Op{{{Kind: "next", Id: tail}}} {
				ps = append(ps, c08Prog{Name: "reader||delete-tail+wake||adder", Initial: init, Threads: [][]c08Op{rd, {{Kind: "del", Id: tail}, {Kind: "wake"}}, {{Kind: "add", Id: next1}}}})
				ps = append(ps, c08Prog{Name: "reader||delete-tail+wake+add", Initial: init, Threads: [][]c08Op{rd, {{Kind: "del", Id: tail}, {Kind: "wake"}, {Kind: "add", Id: next1}}}})
				// two readers parked behind the tail, one Add: both must be woken
				ps = append(ps, c08Prog{Name: "reader||reader||adder", Initial: init, Threads: [][]c08Op{rd, rd, {{Kind: "add", Id: next1}}}})
				ps = append(ps, c08Prog{Name: "reader||wake||adder", Initial: init, Threads: [][]c08Op{rd, {{Kind: "wake"}, {Kind: "wake"}}, {{Kind: "add", Id: next1}}}})
			}
		}
		for _, x := range xs {
			if x > newest {
				continue
			}
			readers := [][]c08Op{{{Kind: "next", Id: x}}, {{Kind: "next", Id: x}, {Kind: "next", Chain: true}}}
			for ri, rd := range readers {
				for _, ad := range adders {
					ps = append(ps, c08Prog{Name: "reader||adder", Initial: init, Threads: [][]c08Op{rd, ad}})
				}
				for _, cp := range compactors {
					ps = append(ps, c08Prog{Name: "reader||compactor", Initial: init, Threads: [][]c08Op{rd, cp}})
					// batches are added in increasing id order (a single goroutine adds in production), so a second
					// adding thread is only combined with compactors that do not add themselves
					if (ri == 0 || thorough) && cp[len(cp)-1].Kind == "del" {
						ps = append(ps, c08Prog{Name: "reader||compactor||adder", Initial: init, Threads: [][]c08Op{rd, cp, adders[0]}})
					}
					if ri == 0 && len(cp) <= 2 && cp[len(cp)-1].Kind == "del" {
						ps = append(ps, c08Prog{Name: "reader||compactor||adder2", Initial: init, Threads: [][]c08Op{rd, cp, adders[1]}})
					}
				}
			}
			// cancellation
			crd := []c08Op{{Kind: "next", Id: x, Ctx: 1}}
			ps = append(ps, c08Prog{Name: "reader||canceller", Initial: init, Threads: [][]c08Op{crd, {{Kind: "cancel", Ctx: 1}}}})
			ps = append(ps, c08Prog{Name: "reader||canceller||adder", Initial: init, Threads: [][]c08Op{crd, {{Kind: "cancel", Ctx: 1}}, adders[0]}})
			if len(init) > 0 {
				ps = append(ps, c08Prog{Name: "reader||canceller||compactor", Initial: init, Threads: [][]c08Op{crd, {{Kind: "cancel", Ctx: 1}}, compactors[0]}})
			}
			// two readers
			ps = append(ps, c08Prog{Name: "reader||reader||adder", Initial: init, Threads: [][]c08Op{{{Kind: "next", Id: x}}, {{Kind: "next", Id: newest}}, adders[0]}})
		}
		// lookups by id while the batch is deleted / rewritten
		for _, id := range init {
			for _, cp := range compactors {
				ps = append(ps, c08Prog{Name: "get||compactor", Initial: init, Threads: [][]c08Op{{{Kind: "get", Id: id}, {Kind: "get", Id: id}}, cp}})
			}
			ps = append(ps, c08Prog{Name: "get||adder", Initial: init, Threads: [][]c08Op{{{Kind: "get", Id: id}, {Kind: "get", Id: next1}}, adders[1]}})
		}
	}
	return ps
}

// ---- worker ------------------------------------------------------------------------------------

type c08Violation struct {
	Sig      string   `json:"sig"`
	Desc     string   `json:"desc"`
	Prop     string   `json:"prop"`
	Count    int      `json:"count"`
	Program  c08Prog  `json:"program"`
	Schedule []int    `json:"schedule"`
	Trace    []string `json:"trace,omitempty"`
}

type c08Result struct {
	Programs         int             `json:"programs"`
	Executions       int             `json:"executions"`
	Points           int             `json:"points"`
	Truncated        int             `json:"programs_truncated"`
	Outcomes         map[string]int  `json:"outcomes"`
	DistinctOutcomes int             `json:"distinct_observations"`
	ProgramsColliding int            `json:"programs_with_2plus_observations"`
	SeqPrograms      int             `json:"sequential_programs"`
	SeqOps           int             `json:"sequential_ops"`
	Violations       []*c08Violation `json:"violations"`
	Samples          []string        `json:"samples"`
	Bound            int             `json:"preemption_bound"`
}

func c08Schedule(s *vsync.Sched) []int {
	out := make([]int, len(s.Points))
	for k, p := range s.Points {
		out[k] = p.Chosen
	}
	return out
}

func TestVerifC08(t *testing.T) {
	shard, _ := strconv.Atoi(os.Getenv("VERIF_SHARD"))
	nshards, _ := strconv.Atoi(os.Getenv("VERIF_NSHARDS"))
	if nshards == 0 {
		nshards = 1
	}
	thorough := os.Getenv("VERIF_TIER") == "thorough"
	bound := 2
	if thorough {
		bound = 3
	}
	if b := os.Getenv("VERIF_BOUND"); b != "" {
		bound, _ = strconv.Atoi(b)
	}
	var deadline time.Time
	if d := os.Getenv("VERIF_DEADLINE"); d != "" {
		sec, _ := strconv.ParseInt(d, 10, 64)
		deadline = time.Unix(sec, 0)
	}
	tmp := t.TempDir()
	res := &c08Result{Outcomes: map[string]int{}, Bound: bound}
	sigs := map[string]*c08Violation{}
	if rp := os.Getenv("VERIF_REPLAY"); rp != "" {
		b, err := os.ReadFile(rp)
		if err != nil {
			t.Fatal(err)
		}
		var v c08Violation
		if err := json.Unmarshal(b, &v); err != nil {
			t.Fatal(err)
		}
		n, _ := strconv.Atoi(os.Getenv("VERIF_REPLAY_COUNT"))
		if n == 0 {
			n = 1
		}
		type rr struct {
			Runs       []string `json:"runs"`
			Reproduced bool     `json:"reproduced"`
			Identical  bool     `json:"identical"`
		}
		out := rr{Reproduced: true, Identical: true}
		for k := 0; k < n; k++ {
			s := vsync.New(v.Schedule)
			s.TraceOn = true
			run, _ := c08Execute(t, v.Program, s, tmp)
			stacks := make([]string, len(s.Panics()))
			for i := range stacks {
				stacks[i] = s.PanicStack(i)
			}
			sig, _ := c08Check(v.Program, run, s.Outcome, s.Blocked, s.Panics(), stacks)
			out.Runs = append(out.Runs, "C08:"+sig)
			if "C08:"+sig != v.Sig {
				out.Reproduced = false
			}
			if k > 0 && out.Runs[k] != out.Runs[0] {
				out.Identical = false
			}
		}
		jb, _ := json.Marshal(out)
		if o := os.Getenv("VERIF_OUT"); o != "" {
			os.WriteFile(o, jb, 0644)
		} else {
			fmt.Println(string(jb))
		}
		return
	}
	if err := c08SameInitialState(tmp); err != nil {
		t.Fatal(err)
	}
	progs := c08Programs(thorough)
	for pi, p := range progs {
		if pi%nshards != shard {
			continue
		}
		p := p
		res.Programs++
		observations := map[string]bool{}
		st := vsync.Explore(bound, 200000, deadline, func(s *vsync.Sched) {
			run, obs := c08Execute(t, p, s, tmp)
			observations[obs] = true
			res.Points += len(s.Points)
			stacks := make([]string, len(s.Panics()))
			for i := range stacks {
				stacks[i] = s.PanicStack(i)
			}
			if sig, desc := c08Check(p, run, s.Outcome, s.Blocked, s.Panics(), stacks); sig != "" {
				full := "C08:" + sig
				if v, ok := sigs[full]; ok {
					v.Count++
				} else {
					v := &c08Violation{Sig: full, Desc: fmt.Sprintf("program %s, schedule %v: %s", p.String(), c08Schedule(s), desc), Prop: "C08", Count: 1, Program: p, Schedule: c08Schedule(s)}
					sigs[full] = v
					res.Violations = append(res.Violations, v)
				}
			}
		})
		res.Executions += st.Executions
		if st.Truncated {
			res.Truncated++
		}
		for k, v := range st.Outcomes {
			res.Outcomes[k] += v
		}
		res.DistinctOutcomes += len(observations)
		if len(observations) >= 2 {
			res.ProgramsColliding++
		}
		if len(res.Samples) < 5 && pi%37 == shard%37 {
			var os_ []string
			for o := range observations {
				os_ = append(os_, "["+o+"]")
			}
			sort.Strings(os_)
			res.Samples = append(res.Samples, fmt.Sprintf("%s: %d schedules (<=%d preemptions), observations %s", p.String(), st.Executions, bound, strings.Join(os_, " ")))
		}
	}
	b, _ := json.Marshal(res)
	if o := os.Getenv("VERIF_OUT"); o != "" {
		os.WriteFile(o, b, 0644)
	} else {
		fmt.Println(string(b))
	}
}
