//go:build verif

package outputstream

// C18 part 3: output batches through the hand-written codec (messageBatch.marshal /
// unmarshalMessageBatch) and through the real OutputStream (Add -> LevelDB -> Get).
//
// Grid (full cartesian product, no sampling): number of messages 0..3; per message every
// combination of (text, recipient set); batch id {0,1,mid,max}; reply numbering {1..n, {0,max,5}};
// NextID {id, MaxUint64}.  Oracle: same NextID, same number of messages, same ids, same text
// bytes, same recipient set.

import (
	"crypto/sha1"
	"encoding/binary"
	"encoding/json"
	"fmt"
	"math"
	"os"
	"sort"
	"strconv"
	"strings"
	"testing"

	"github.com/robustirc/robustirc/internal/robust"
)

type vC18Violation struct {
	Sig   string `json:"sig"`
	Desc  string `json:"desc"`
	Prop  string `json:"prop"`
	Count int    `json:"count"`
	Input string `json:"input,omitempty"`
}

type vC18Result struct {
	Part        string           `json:"part"`
	GridSize    int              `json:"grid_size"`
	Batches     int              `json:"batches"`
	CodecTrips  int              `json:"codec_roundtrips"`
	StreamTrips int              `json:"stream_roundtrips"`
	Evaluations int              `json:"evaluations"`
	Distinct    int              `json:"distinct_batches"`
	Nontrivial  int              `json:"distinct_nontrivial"`
	Dims        map[string]int   `json:"dims"`
	Violations  []*vC18Violation `json:"violations"`
	Samples     []string         `json:"samples"`
}

func vC18Recips(m map[uint64]bool) []uint64 {
	var rs []uint64
	for id, ok := range m {
		if ok {
			rs = append(rs, id)
		}
	}
	sort.Slice(rs, func(i, j int) bool { return rs[i] < rs[j] })
	return rs
}

func vC18Short(s string) string {
	if len(s) > 40 {
		return fmt.Sprintf("%q...(%d bytes)", s[:24], len(s))
	}
	return fmt.Sprintf("%q", s)
}

func vC18ShowBatch(mb *messageBatch) string {
	var sb strings.Builder
	fmt.Fprintf(&sb, "{NextID:%d Messages:[", mb.NextID)
	for i, m := range mb.Messages {
		if i > 0 {
			sb.WriteString(" ")
		}
		fmt.Fprintf(&sb, "{Id:%d.%d Data:%s For:%v}", m.Id.Id, m.Id.Reply, vC18Short(m.Data), vC18Recips(m.InterestingFor))
	}
	sb.WriteString("]}")
	return sb.String()
}

// canonical, order-independent image of a batch (recipients sorted)
func vC18Canon(mb *messageBatch) []byte {
	var b []byte
	var u [8]byte
	put := func(v uint64) { binary.BigEndian.PutUint64(u[:], v); b = append(b, u[:]...) }
	put(mb.NextID)
	put(uint64(len(mb.Messages)))
	for _, m := range mb.Messages {
		put(m.Id.Id)
		put(m.Id.Reply)
		put(uint64(len(m.Data)))
		b = append(b, m.Data...)
		rs := vC18Recips(m.InterestingFor)
		put(uint64(len(rs)))
		for _, r := range rs {
			put(r)
		}
	}
	return b
}

// vC18CompareMsgs reports the first difference between decoded and original messages ("" if none).
func vC18CompareMsgs(got, want []Message) (field, detail string) {
	if len(got) != len(want) {
		return "number of messages", fmt.Sprintf("got %d, want %d", len(got), len(want))
	}
	for i := range want {
		if got[i].Id.Id != want[i].Id.Id {
			return "Id.Id", fmt.Sprintf("message %d: got %d, want %d", i, got[i].Id.Id, want[i].Id.Id)
		}
		if got[i].Id.Reply != want[i].Id.Reply {
			return "Id.Reply", fmt.Sprintf("message %d: got %d, want %d", i, got[i].Id.Reply, want[i].Id.Reply)
		}
		if got[i].Data != want[i].Data {
			return "Data", fmt.Sprintf("message %d: got %s, want %s", i, vC18Short(got[i].Data), vC18Short(want[i].Data))
		}
		g, w := vC18Recips(got[i].InterestingFor), vC18Recips(want[i].InterestingFor)
		if fmt.Sprint(g) != fmt.Sprint(w) {
			return "recipient set", fmt.Sprintf("message %d: got %v, want %v", i, g, w)
		}
		for id, ok := range got[i].InterestingFor {
			if !ok {
				return "recipient set", fmt.Sprintf("message %d: decoded map has a false entry for %d", i, id)
			}
		}
	}
	return "", ""
}

type vC18Elem struct {
	data   string
	recips []uint64
}

func TestVerifC18Batch(t *testing.T) {
	shard, _ := strconv.Atoi(os.Getenv("VERIF_SHARD"))
	nshards, _ := strconv.Atoi(os.Getenv("VERIF_NSHARDS"))
	if nshards == 0 {
		nshards = 1
	}
	thorough := os.Getenv("VERIF_TIER") == "thorough"
	datas := []string{
		"",
		"x",
		"é☃",
		strings.Repeat(":irc.example 353 nick = #chan :a b c d e ", 15)[:600],
		"say \"hi\" \\ back\x00slash",
		"ping :starts with p",
	}
	recips := [][]uint64{
		nil,
		{1},
		{1, math.MaxUint64},
		{0, 0x0102030405060708, math.MaxUint64},
	}
	ids := []uint64{0, 1, 0x40826d776b433c17, math.MaxUint64}
	if thorough {
		datas = append(datas, strings.Repeat("☃", 1700), "\x00", "line\nfeed\r\n")
		recips = append(recips, []uint64{2, 3, 5, 7, 11, 13, 17, 19}, []uint64{1 << 63})
		ids = append(ids, 2, 1<<63)
	}
	var elems []vC18Elem
	for _, d := range datas {
		for _, r := range recips {
			elems = append(elems, vC18Elem{d, r})
		}
	}
	E := len(elems)
	replyPatterns := [][]uint64{{1, 2, 3}, {0, math.MaxUint64, 5}}
	maxN := 3
	// number of (n, element tuple) combinations
	combos := 0
	pow := 1
	offsets := make([]int, maxN+2)
	for n := 0; n <= maxN; n++ {
		offsets[n] = combos
		combos += pow
		pow *= E
	}
	offsets[maxN+1] = combos
	N := combos * len(ids) * len(replyPatterns) * 2
	res := &vC18Result{Part: "batch", GridSize: N, Dims: map[string]int{
		"messages_per_batch": maxN + 1, "texts": len(datas), "recipient_sets": len(recips), "batch_ids": len(ids), "reply_numberings": len(replyPatterns), "next_ids": 2,
	}}
	sigs := map[string]*vC18Violation{}
	report := func(sig, desc string, mb *messageBatch) {
		sig = "C18:" + sig
		if v, ok := sigs[sig]; ok {
			v.Count++
			return
		}
		v := &vC18Violation{Sig: sig, Desc: desc, Prop: "C18", Count: 1, Input: vC18ShowBatch(mb)}
		sigs[sig] = v
		res.Violations = append(res.Violations, v)
	}

	tmp := t.TempDir()
	var o *OutputStream
	streamOps := 0
	openStream := func() {
		var err error
		o, err = NewOutputStream(tmp)
		if err != nil {
			t.Fatal(err)
		}
		streamOps = 0
	}
	openStream()
	defer func() { o.Close() }()

	seen := map[[sha1.Size]byte]struct{}{}
	lo, hi := shard*N/nshards, (shard+1)*N/nshards
	for k := lo; k < hi; k++ {
		// decode grid point: (combo, id, replyPattern, nextKind), nextKind fastest
		r := k
		nextKind := r % 2
		r /= 2
		rp := replyPatterns[r%len(replyPatterns)]
		r /= len(replyPatterns)
		id := ids[r%len(ids)]
		r /= len(ids)
		n := 0
		for r >= offsets[n+1] {
			n++
		}
		r -= offsets[n]
		mb := &messageBatch{NextID: math.MaxUint64}
		if nextKind == 0 {
			mb.NextID = id
		}
		if n > 0 {
			mb.Messages = make([]Message, n)
		}
		for j := n - 1; j >= 0; j-- {
			e := elems[r%E]
			r /= E
			var m map[uint64]bool
			if e.recips != nil {
				m = make(map[uint64]bool, len(e.recips))
				for _, s := range e.recips {
					m[s] = true
				}
			}
			mb.Messages[j] = Message{Id: robust.Id{Id: id, Reply: rp[j]}, Data: e.data, InterestingFor: m}
		}
		res.Batches++
		canon := vC18Canon(mb)
		h := sha1.Sum(canon)
		if _, ok := seen[h]; !ok {
			seen[h] = struct{}{}
			res.Distinct++
			if n > 0 {
				res.Nontrivial++
			}
		}

		// (a) codec
		res.CodecTrips++
		res.Evaluations++
		func() {
			defer func() {
				if p := recover(); p != nil {
					report("output batch codec panics", fmt.Sprintf("batch %s: %v", vC18ShowBatch(mb), p), mb)
				}
			}()
			buf := mb.marshal()
			// bounds-checked reference decoder first (layout as documented in serialization.go): a malformed
			// value must not reach the unchecked decoder, which would allocate from garbage lengths
			ref, err := vC18SafeDecode(buf)
			if err != nil {
				report("messageBatch.marshal writes a malformed value", fmt.Sprintf("batch %s: %v (%d bytes)", vC18ShowBatch(mb), err, len(buf)), mb)
				return
			}
			if f, d := vC18CompareMsgs(ref.Messages, mb.Messages); f != "" || ref.NextID != mb.NextID {
				report("value written by messageBatch.marshal does not hold the batch ("+f+")", fmt.Sprintf("batch %s: %s; the bytes hold %s", vC18ShowBatch(mb), d, vC18ShowBatch(ref)), mb)
			}
			back := unmarshalMessageBatch(buf)
			if back.NextID != mb.NextID {
				report("output batch codec changes NextID", fmt.Sprintf("batch %s: decoded NextID %d", vC18ShowBatch(mb), back.NextID), mb)
			}
			if f, d := vC18CompareMsgs(back.Messages, mb.Messages); f != "" {
				report("output batch codec changes "+f, fmt.Sprintf("batch %s: %s; decoded %s", vC18ShowBatch(mb), d, vC18ShowBatch(back)), mb)
			}
			// re-encoding the decoded batch is the same batch again (marshal of a map is unordered, compare canonically)
			again := unmarshalMessageBatch(back.marshal())
			if string(vC18Canon(again)) != string(canon) {
				report("output batch does not survive a second encode/decode", fmt.Sprintf("batch %s: second generation %s", vC18ShowBatch(mb), vC18ShowBatch(again)), mb)
			}
		}()

		// (b) the real stream; Add needs >=1 message, id 0 is the stream's own sentinel batch, NextID is
		// owned by the stream (checked on the predecessor batch instead)
		if n == 0 || id == 0 || nextKind == 0 {
			continue
		}
		if streamOps >= vC18StreamReuse {
			o.Close()
			openStream()
		}
		streamOps++
		res.StreamTrips++
		res.Evaluations++
		func() {
			defer func() {
				if p := recover(); p != nil {
					report("output stream panics on Add/Get/Delete", fmt.Sprintf("batch %s: %v", vC18ShowBatch(mb), p), mb)
					o.Close()
					openStream()
				}
			}()
			msgs := make([]Message, n)
			copy(msgs, mb.Messages)
			if err := o.Add(msgs); err != nil {
				t.Fatal(err)
			}
			var key [8]byte
			for _, kid := range []uint64{id, 0} {
				binary.BigEndian.PutUint64(key[:], kid)
				raw, err := o.db.Get(key[:], nil)
				if err == nil {
					_, err = vC18SafeDecode(raw)
				}
				if err != nil {
					report("output stream stores a malformed value", fmt.Sprintf("after Add of %s the value under key %d: %v", vC18ShowBatch(mb), kid, err), mb)
					o.Close()
					openStream()
					return
				}
			}
			for _, name := range []string{"Get (from LevelDB)", "Get (cached)"} {
				got, ok := o.Get(robust.Id{Id: id})
				if !ok {
					report("output stream does not return a stored batch", fmt.Sprintf("batch %s: %s found nothing", vC18ShowBatch(mb), name), mb)
					continue
				}
				if f, d := vC18CompareMsgs(got, mb.Messages); f != "" {
					report("output stream Add/Get changes "+f, fmt.Sprintf("batch %s via %s: %s", vC18ShowBatch(mb), name, d), mb)
				}
			}
			// the raw stored value, decoded
			binary.BigEndian.PutUint64(key[:], id)
			raw, err := o.db.Get(key[:], nil)
			if err != nil {
				report("output stream does not return a stored batch", fmt.Sprintf("batch %s: raw read: %v", vC18ShowBatch(mb), err), mb)
			} else {
				back := unmarshalMessageBatch(raw)
				if back.NextID != math.MaxUint64 {
					report("stored newest batch does not carry NextID MaxUint64", fmt.Sprintf("batch %s: NextID %d", vC18ShowBatch(mb), back.NextID), mb)
				}
				if f, d := vC18CompareMsgs(back.Messages, mb.Messages); f != "" {
					report("output stream stored value changes "+f, fmt.Sprintf("batch %s: %s", vC18ShowBatch(mb), d), mb)
				}
			}
			// predecessor (sentinel batch 0) now points to this batch
			o.messagesMu.RLock()
			prev, ok := o.getUnlocked(0)
			o.messagesMu.RUnlock()
			if !ok || prev.NextID != id || len(prev.Messages) != 1 || prev.Messages[0].Id.Id != 0 || prev.Messages[0].Data != "" || len(prev.Messages[0].InterestingFor) != 0 {
				d := "missing"
				if ok {
					d = vC18ShowBatch(prev)
				}
				report("predecessor batch not linked to the added batch", fmt.Sprintf("after Add of %s the sentinel batch reads %s", vC18ShowBatch(mb), d), mb)
			}
			if err := o.Delete(robust.Id{Id: id}); err != nil {
				t.Fatal(err)
			}
			if _, ok := o.Get(robust.Id{Id: id}); ok {
				report("deleted batch still returned", fmt.Sprintf("batch %s", vC18ShowBatch(mb)), mb)
			}
		}()
		if len(res.Samples) < 3 && n == len(res.Samples)+1 && len(mb.Messages[n-1].InterestingFor) > 1 && len(mb.Messages[n-1].Data) > 1 && len(mb.Messages[0].Data) > 1 {
			res.Samples = append(res.Samples, fmt.Sprintf("grid point %d: %s -> %d encoded bytes; marshal/unmarshal and Add/Get(uncached, cached)/raw value/Delete", k, vC18ShowBatch(mb), len(mb.marshal())))
		}
	}
	// length sweep ("text of any length"): a long first message followed by a short one, text lengths around
	// powers of two up to 1 MiB; codec round trip and the value the real stream stores and decodes again
	if shard == 0 {
		for _, l := range []int{255, 256, 257, 4095, 4096, 4097, 65535, 65536, 65537, 70000, 131071, 131072, 1<<20 - 1, 1 << 20, 1<<20 + 1} {
			for ri, rs := range []map[uint64]bool{{1: true}, {1: true, 2: true, math.MaxUint64: true}} {
				id := uint64(1000000 + 2*l + ri)
				mb := &messageBatch{NextID: math.MaxUint64, Messages: []Message{
					{Id: robust.Id{Id: id, Reply: 1}, Data: strings.Repeat("a", l), InterestingFor: rs},
					{Id: robust.Id{Id: id, Reply: 2}, Data: "tail", InterestingFor: map[uint64]bool{3: true}},
				}}
				res.Batches++
				res.Distinct++
				res.Nontrivial++
				res.CodecTrips++
				res.Evaluations++
				func() {
					defer func() {
						if p := recover(); p != nil {
							report("output batch codec panics", fmt.Sprintf("text of %d bytes, %d recipients: %v", l, len(rs), p), mb)
						}
					}()
					back := unmarshalMessageBatch(mb.marshal())
					if f, d := vC18CompareMsgs(back.Messages, mb.Messages); f != "" || back.NextID != mb.NextID {
						report("output batch codec changes "+f, fmt.Sprintf("text of %d bytes, %d recipients: %s", l, len(rs), d), mb)
						return
					}
					if err := o.Add(mb.Messages); err != nil {
						report("Add fails", fmt.Sprintf("text of %d bytes: %v", l, err), mb)
						return
					}
					// Add does not fill the decoded-batch cache: the first Get decodes the stored value
					got, ok := o.Get(robust.Id{Id: id})
					if !ok {
						report("added batch not found", fmt.Sprintf("text of %d bytes", l), mb)
						return
					}
					if f, d := vC18CompareMsgs(got, mb.Messages); f != "" {
						report("batch read back from the stream differs ("+f+")", fmt.Sprintf("text of %d bytes, %d recipients: %s", l, len(rs), d), mb)
					}
				}()
			}
		}
	}
	b, _ := json.Marshal(res)
	if out := os.Getenv("VERIF_OUT"); out != "" {
		os.WriteFile(out, b, 0644)
	} else {
		fmt.Println(string(b))
	}
}

// a fresh stream (fresh LevelDB) after this many Add/Delete pairs: Delete walks an iterator over
// the tombstones of all earlier pairs
var vC18StreamReuse = func() int {
	if n, err := strconv.Atoi(os.Getenv("VERIF_C18_REUSE")); err == nil && n > 0 {
		return n
	}
	return 100
}()

// vC18SafeDecode parses a marshalled batch with bounds checks, following the layout documented in
// serialization.go: NextID, #messages, per message Id, Reply, len(Data), Data, #recipients, recipients
// (all integers little-endian uint64).
func vC18SafeDecode(b []byte) (*messageBatch, error) {
	n := 0
	u64 := func() (uint64, error) {
		if len(b)-n < 8 {
			return 0, fmt.Errorf("truncated at offset %d", n)
		}
		v := binary.LittleEndian.Uint64(b[n:])
		n += 8
		return v, nil
	}
	var mb messageBatch
	var err error
	if mb.NextID, err = u64(); err != nil {
		return nil, err
	}
	cnt, err := u64()
	if err != nil {
		return nil, err
	}
	if cnt > uint64(len(b))/32 {
		return nil, fmt.Errorf("message count %d does not fit into %d bytes", cnt, len(b))
	}
	for i := uint64(0); i < cnt; i++ {
		var m Message
		if m.Id.Id, err = u64(); err != nil {
			return nil, err
		}
		if m.Id.Reply, err = u64(); err != nil {
			return nil, err
		}
		l, err := u64()
		if err != nil {
			return nil, err
		}
		if l > uint64(len(b)-n) {
			return nil, fmt.Errorf("message %d: text length %d exceeds the remaining %d bytes", i, l, len(b)-n)
		}
		m.Data = string(b[n : n+int(l)])
		n += int(l)
		r, err := u64()
		if err != nil {
			return nil, err
		}
		if r > uint64(len(b)-n)/8 {
			return nil, fmt.Errorf("message %d: %d recipients do not fit into the remaining %d bytes", i, r, len(b)-n)
		}
		m.InterestingFor = make(map[uint64]bool, r)
		for j := uint64(0); j < r; j++ {
			v, _ := u64()
			m.InterestingFor[v] = true
		}
		mb.Messages = append(mb.Messages, m)
	}
	if n != len(b) {
		return nil, fmt.Errorf("%d trailing bytes", len(b)-n)
	}
	return &mb, nil
}
