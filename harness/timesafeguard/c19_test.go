//go:build verif

package timesafeguard

// C19: the start-up time check.  Bounded-exhaustive grid over true clock offset x request
// delay x response delay x number of peers x answering or not x -disable_timesafeguard.
//
// Every measurement is constructed from the physics, never from the formula of the code:
// the local node starts at local time T, the request needs d1, the peer (whose clock is
// ahead of the local one by delta) answers with its own reading T+d1+delta, the answer
// needs d2 and is decoded at local time T+d1+d2.  A peer that did not answer is the zero
// timeResult, which is what collectTime leaves in its slot.
//
// The oracle only knows delta (the truth) and the property:
//   - safeguard enabled and nil error  =>  every answering peer has |delta| < ElectionTimeout
//   - an error names every answering peer with |delta| >= ElectionTimeout, names at least one
//     peer, never names a peer that did not answer
//   - the decision over several peers is the combination of the decisions for each peer
//     measured alone (so silent peers neither cause nor prevent a refusal) and the named
//     peers are exactly those refused alone
//   - safeguard disabled  =>  nil
// Refusing a peer with |delta| < ElectionTimeout is allowed (counted, not alarmed).

import (
	"encoding/json"
	"fmt"
	"io"
	"log"
	"os"
	"sort"
	"strconv"
	"strings"
	"testing"
	"time"
)

const (
	vNs = time.Nanosecond
	vMs = time.Millisecond
	vS  = time.Second
)

var vC19Base = time.Unix(1432323893, 0).UTC()

type vC19Meas struct {
	answered      bool
	delta, d1, d2 time.Duration
}

// result builds the timeResult of the measurement for peer slot `slot`; slots use
// different local start times so that every peer has a distinct String().
func (m vC19Meas) result(slot int) timeResult {
	if !m.answered {
		return timeResult{}
	}
	T := vC19Base.Add(time.Duration(slot) * time.Hour)
	return timeResult{
		Start:  T,
		End:    T.Add(m.d1).Add(m.d2),
		Result: T.Add(m.d1).Add(m.delta),
	}
}

func vAbs(d time.Duration) time.Duration {
	if d < 0 {
		return -d
	}
	return d
}

// categories of a measurement, from the truth only
const (
	vCatSilent      = 0
	vCatProvable    = 1               // |delta| < ET and every offset consistent with the measurement is < ET
	vCatUnprovable  = 2               // |delta| < ET but some offset consistent with the measurement is >= ET
	vCatOutOfSync   = 3               // |delta| >= ET
	vC19ElectionTmo = 2 * time.Second // the figure of the property text, deliberately not the package constant
)

func (m vC19Meas) cat() int {
	if !m.answered {
		return vCatSilent
	}
	if vAbs(m.delta) >= vC19ElectionTmo {
		return vCatOutOfSync
	}
	// the measurement (Start, End, Result) is produced by every (delta', d1') with
	// d1' in [0, d1+d2] and delta' = delta + d1 - d1', i.e. delta' in [delta-d2, delta+d1]
	if vAbs(m.delta-m.d2) < vC19ElectionTmo && vAbs(m.delta+m.d1) < vC19ElectionTmo {
		return vCatProvable
	}
	return vCatUnprovable
}

func (m vC19Meas) String() string {
	if !m.answered {
		return "silent"
	}
	return fmt.Sprintf("delta=%v d1=%v d2=%v", m.delta, m.d1, m.d2)
}

type vC19Peer struct {
	Answered bool   `json:"answered"`
	DeltaNs  int64  `json:"delta_ns"`
	D1Ns     int64  `json:"d1_ns"`
	D2Ns     int64  `json:"d2_ns"`
	Start    string `json:"start,omitempty"`
	End      string `json:"end,omitempty"`
	Result   string `json:"result,omitempty"`
}

type vC19Violation struct {
	Sig      string     `json:"sig"`
	Desc     string     `json:"desc"`
	Prop     string     `json:"prop"`
	Count    int        `json:"count"`
	Peers    []vC19Peer `json:"peers"`
	Disabled bool       `json:"disabled"`
	Err      string     `json:"err"`
}

type vC19Result struct {
	Tier            string           `json:"tier"`
	Evaluations     int              `json:"evaluations"`
	Accepted        int              `json:"accepted"`
	Refused         int              `json:"refused"`
	DisabledNil     int              `json:"disabled_nil"`
	TrivialAccepted int              `json:"trivial_sync_accepted"`
	Conservative    int              `json:"conservative_refusals"`
	Boundary        int              `json:"boundary_evaluations"`
	ByPeers         map[string]int   `json:"by_peers"`
	Classes         map[string]int   `json:"classes"`
	Grid            map[string]int   `json:"grid"`
	Violations      []*vC19Violation `json:"violations"`
	Samples         []string         `json:"samples"`
}

type vC19Ctx struct {
	res     *vC19Result
	sigs    map[string]*vC19Violation
	classes map[uint32]int
	sampled map[int]bool
}

// sample keeps the first case of every kind (kind ids are small integers so that the
// hot path does not format strings).
func (c *vC19Ctx) sample(kind int, label string, ms []vC19Meas, disabled bool, err error) {
	if c.sampled[kind] {
		return
	}
	c.sampled[kind] = true
	c.res.Samples = append(c.res.Samples, fmt.Sprintf("%s, %d peer(s): %s", label, len(ms), vC19Describe(ms, disabled, err)))
}

func vC19Describe(ms []vC19Meas, disabled bool, err error) string {
	var parts []string
	for i, m := range ms {
		parts = append(parts, fmt.Sprintf("peer%d{%s}", i, m.String()))
	}
	e := "nil"
	if err != nil {
		e = strconv.Quote(err.Error())
	}
	return fmt.Sprintf("-disable_timesafeguard=%v %s -> %s", disabled, strings.Join(parts, " "), e)
}

func (c *vC19Ctx) report(sig string, ms []vC19Meas, trs []timeResult, disabled bool, err error, why string) {
	sig = "C19:" + sig
	if v, ok := c.sigs[sig]; ok {
		v.Count++
		return
	}
	v := &vC19Violation{Sig: sig, Prop: "C19", Count: 1, Disabled: disabled}
	if err != nil {
		v.Err = err.Error()
	}
	for i, m := range ms {
		p := vC19Peer{Answered: m.answered, DeltaNs: int64(m.delta), D1Ns: int64(m.d1), D2Ns: int64(m.d2)}
		if m.answered {
			p.Start = trs[i].Start.Format(time.RFC3339Nano)
			p.End = trs[i].End.Format(time.RFC3339Nano)
			p.Result = trs[i].Result.Format(time.RFC3339Nano)
		}
		v.Peers = append(v.Peers, p)
	}
	v.Desc = why + ": " + vC19Describe(ms, disabled, err)
	c.sigs[sig] = v
	c.res.Violations = append(c.res.Violations, v)
}

func vC19Call(trs []timeResult) (err error, panicked interface{}) {
	defer func() {
		if r := recover(); r != nil {
			panicked = r
		}
	}()
	// the real code appends to / ranges over the slice only; hand it a private copy anyway
	cp := make([]timeResult, len(trs))
	copy(cp, trs)
	return synchronizedWithNetwork(cp), nil
}

func vSign(d time.Duration) string {
	switch {
	case d < 0:
		return "peer clock behind"
	case d > 0:
		return "peer clock ahead"
	}
	return "no offset"
}

// eval runs the real synchronizedWithNetwork on one case and applies the oracle.
// strs[i] is trs[i].String(); alone[i] is 1 when peer i measured alone (safeguard enabled)
// is refused, 0 when accepted, -1 when not known (single-peer pass).  Returns whether the
// call refused.
func (c *vC19Ctx) eval(ms []vC19Meas, trs []timeResult, strs []string, disabled bool, alone []int8) bool {
	*DisableTimesafeguard = disabled
	err, pan := vC19Call(trs)
	*DisableTimesafeguard = false
	n := len(ms)
	c.res.Evaluations++
	if pan != nil {
		c.report("synchronizedWithNetwork panics", ms, trs, disabled, nil, fmt.Sprintf("panic %v", pan))
		return false
	}
	// ---- classification (truth only)
	var cats [3]int
	answering := 0
	anyOut := false
	allProvable := true
	trivial := true
	boundary := false
	silent := false
	for i, m := range ms {
		cats[i] = m.cat()
		if !m.answered {
			silent = true
			continue
		}
		answering++
		if cats[i] == vCatOutOfSync {
			anyOut = true
		}
		if cats[i] != vCatProvable {
			allProvable = false
		}
		if m.delta != 0 || m.d1 > vMs || m.d2 > vMs {
			trivial = false
		}
		if vAbs(m.delta) == vC19ElectionTmo || vAbs(m.delta+m.d1)+m.d1+m.d2 == vC19ElectionTmo {
			boundary = true
		}
	}
	if boundary {
		c.res.Boundary++
	}
	// ---- who is named by the error
	namedMask := uint32(0)
	var named [3]bool
	if err != nil {
		msg := err.Error()
		for i, m := range ms {
			if strings.Contains(msg, strs[i]) {
				named[i] = true
				namedMask |= 1 << uint(i)
				if !m.answered {
					c.report("refusal names a peer that did not answer", ms, trs, disabled, err, fmt.Sprintf("peer%d is silent but its (zero) measurement is listed", i))
				}
			}
		}
	}
	// ---- outcome class
	key := uint32(n) | namedMask<<2
	if disabled {
		key |= 1 << 5
	}
	if err != nil {
		key |= 1 << 6
	}
	for i := 0; i < n; i++ {
		key |= uint32(cats[i]) << uint(8+2*i)
	}
	c.classes[key]++

	// ---- oracle
	if disabled {
		if err != nil {
			c.report("refuses although the safeguard is disabled", ms, trs, disabled, err, "-disable_timesafeguard is set but an error is returned")
		} else {
			c.res.DisabledNil++
		}
		return err != nil
	}
	if err == nil {
		c.res.Accepted++
		if anyOut {
			for i, m := range ms {
				if cats[i] != vCatOutOfSync {
					continue
				}
				q := "more than the election timeout"
				if vAbs(m.delta) == vC19ElectionTmo {
					q = "exactly the election timeout"
				}
				c.report(fmt.Sprintf("joins although the clock of an answering peer differs by %s (%s)", q, vSign(m.delta)), ms, trs, disabled, err,
					fmt.Sprintf("peer%d answered with a true offset of %v (|offset| >= 2s) and the check returned nil", i, m.delta))
			}
		}
		if trivial && answering > 0 {
			c.res.TrivialAccepted++
			c.sample(0+n, "accepted, trivially synchronous", ms, disabled, err)
		} else if answering > 0 {
			c.sample(4+n, "accepted", ms, disabled, err)
		}
	} else {
		c.res.Refused++
		if namedMask == 0 {
			c.report("refusal names no peer", ms, trs, disabled, err, "an error is returned but no answering peer is listed in it")
		}
		for i, m := range ms {
			if cats[i] == vCatOutOfSync && !named[i] {
				c.report("refusal does not name an answering peer whose clock differs by >= the election timeout", ms, trs, disabled, err,
					fmt.Sprintf("peer%d answered with a true offset of %v but is not listed", i, m.delta))
			}
		}
		if answering == 0 {
			c.report("refuses although no peer answered", ms, trs, disabled, err, "all peers silent")
		}
		if answering > 0 && allProvable {
			c.res.Conservative++
			c.sample(8+n, "refused although the measurements themselves prove |offset| < 2s (allowed: the bound of the code is conservative)", ms, disabled, err)
		} else if anyOut {
			c.sample(12+n, "refused, an offset >= 2s", ms, disabled, err)
		} else {
			c.sample(16+n, "refused, offsets < 2s but not provable from the measurement", ms, disabled, err)
		}
	}
	// ---- composition: decision and named peers follow from the per-peer decisions
	if alone != nil {
		want := false
		for i, m := range ms {
			if m.answered && alone[i] == 1 {
				want = true
			}
		}
		q := ""
		if silent {
			q = " (with a silent peer)"
		}
		if want && err == nil {
			c.report("joins although one of the peers is refused when measured alone"+q, ms, trs, disabled, err, "per-peer decisions "+fmt.Sprint(alone[:n]))
		}
		if !want && err != nil {
			c.report("refuses although every answering peer is accepted when measured alone"+q, ms, trs, disabled, err, "per-peer decisions "+fmt.Sprint(alone[:n]))
		}
		if err != nil {
			for i, m := range ms {
				if !m.answered {
					continue
				}
				if alone[i] == 1 && !named[i] {
					c.report("refusal does not name a peer that is refused when measured alone"+q, ms, trs, disabled, err, fmt.Sprintf("peer%d; per-peer decisions %v", i, alone[:n]))
				}
				if alone[i] == 0 && named[i] {
					c.report("refusal names a peer that is accepted when measured alone"+q, ms, trs, disabled, err, fmt.Sprintf("peer%d; per-peer decisions %v", i, alone[:n]))
				}
			}
		}
	}
	return err != nil
}

// ---------------------------------------------------------------- grids

func vDedup(ds []time.Duration) []time.Duration {
	sort.Slice(ds, func(i, j int) bool { return ds[i] < ds[j] })
	out := ds[:0]
	for i, d := range ds {
		if i == 0 || d != ds[i-1] {
			out = append(out, d)
		}
	}
	return out
}

func vPM(ds ...time.Duration) []time.Duration {
	var out []time.Duration
	for _, d := range ds {
		out = append(out, d, -d)
	}
	return vDedup(out)
}

func vDeltaGrid(step time.Duration) []time.Duration {
	var ds []time.Duration
	for d := -4 * vS; d <= 4*vS; d += step {
		ds = append(ds, d)
	}
	ds = append(ds, vPM(0, vNs, 2*vS, 2*vS-vNs, 2*vS+vNs, 1999999999*vNs, 2000000001*vNs)...)
	// clocks that are off by a lot (dead RTC battery, wrong time zone, wrong year)
	ds = append(ds, vPM(10*vS, 60*vS, 3600*vS, 24*3600*vS-vS, 24*3600*vS, 24*3600*vS+vS, 25*3600*vS, 72*3600*vS, 365*24*3600*vS, 45*365*24*3600*vS)...)
	return vDedup(ds)
}

var vDelaysFull = []time.Duration{0, vNs, vMs, 100 * vMs, 999 * vMs, vS, 1999 * vMs, 2 * vS, 3 * vS}

func vMeasurements(deltas, delays []time.Duration, withSilent bool) []vC19Meas {
	var out []vC19Meas
	if withSilent {
		out = append(out, vC19Meas{})
	}
	for _, de := range deltas {
		for _, d1 := range delays {
			for _, d2 := range delays {
				out = append(out, vC19Meas{answered: true, delta: de, d1: d1, d2: d2})
			}
		}
	}
	return out
}

type vC19Slot struct {
	tr    []timeResult
	str   []string
	alone []int8
}

// prepare builds, for every peer slot, the timeResult / String() of every measurement
// and the decision for the measurement alone (safeguard enabled).
func (c *vC19Ctx) prepare(ms []vC19Meas, slots int) []vC19Slot {
	out := make([]vC19Slot, slots)
	for s := range out {
		out[s].tr = make([]timeResult, len(ms))
		out[s].str = make([]string, len(ms))
		out[s].alone = make([]int8, len(ms))
		for k, m := range ms {
			tr := m.result(s)
			out[s].tr[k] = tr
			out[s].str[k] = tr.String()
			*DisableTimesafeguard = false
			err, pan := vC19Call([]timeResult{tr})
			if pan == nil && err != nil {
				out[s].alone[k] = 1
			}
		}
	}
	return out
}

func vC19Tier() (tier string, d1 []time.Duration, sub2, sub3 []vC19Meas) {
	tier = os.Getenv("VERIF_TIER")
	if tier == "" {
		tier = "quick"
	}
	dA := vPM(0, vNs, 500*vMs, vS, 1500*vMs, 1950*vMs, 1999999999*vNs, 2*vS, 2000000001*vNs, 2050*vMs, 2500*vMs, 3*vS, 4*vS, 25*3600*vS, 365*24*3600*vS)
	dB := vPM(0, vS, 1999999999*vNs, 2*vS, 2000000001*vNs, 3*vS)
	if tier == "thorough" {
		d1 = vDeltaGrid(10 * vMs)
		sub2 = vMeasurements(vDeltaGrid(50*vMs), vDelaysFull, true)
		sub3 = vMeasurements(dA, []time.Duration{0, vMs, vS, 2 * vS}, true)
	} else {
		d1 = vDeltaGrid(50 * vMs)
		sub2 = vMeasurements(dA, vDelaysFull, true)
		sub3 = vMeasurements(dB, []time.Duration{0, vMs, vS, 2 * vS}, true)
	}
	return
}

func vC19NewCtx(tier string) *vC19Ctx {
	return &vC19Ctx{
		res:     &vC19Result{Tier: tier, ByPeers: map[string]int{}, Classes: map[string]int{}, Grid: map[string]int{}},
		sigs:    map[string]*vC19Violation{},
		classes: map[uint32]int{},
		sampled: map[int]bool{},
	}
}

var vCatNames = []string{"silent", "insync-provable", "insync-unprovable", "outofsync"}

func (c *vC19Ctx) finish() []byte {
	for key, cnt := range c.classes {
		n := int(key & 3)
		var cs, nm []string
		for i := 0; i < n; i++ {
			cs = append(cs, vCatNames[(key>>uint(8+2*i))&3])
			if key&(1<<uint(2+i)) != 0 {
				nm = append(nm, strconv.Itoa(i))
			}
		}
		dec := "accept"
		if key&(1<<6) != 0 {
			dec = "refuse"
		}
		c.res.Classes[fmt.Sprintf("peers=%d disabled=%v truth=[%s] -> %s named=[%s]", n, key&(1<<5) != 0, strings.Join(cs, ","), dec, strings.Join(nm, ","))] = cnt
	}
	b, _ := json.Marshal(c.res)
	return b
}

func TestVerifC19(t *testing.T) {
	log.SetOutput(io.Discard)
	shard, _ := strconv.Atoi(os.Getenv("VERIF_SHARD"))
	nshards, _ := strconv.Atoi(os.Getenv("VERIF_NSHARDS"))
	if nshards == 0 {
		nshards = 1
	}
	tier, deltas1, sub2, sub3 := vC19Tier()
	c := vC19NewCtx(tier)
	c.res.Grid["deltas_1peer"] = len(deltas1)
	c.res.Grid["delays"] = len(vDelaysFull)
	c.res.Grid["measurements_1peer"] = len(deltas1)*len(vDelaysFull)*len(vDelaysFull) + 1
	c.res.Grid["measurements_2peers"] = len(sub2)
	c.res.Grid["measurements_3peers"] = len(sub3)
	unit := 0
	mine := func() bool {
		unit++
		return (unit-1)%nshards == shard
	}
	flags := []bool{false, true}

	// ---- one peer, full grid (plus the silent peer and the empty peer list)
	all1 := vMeasurements(deltas1, vDelaysFull, true)
	for _, m := range all1 {
		if !mine() {
			continue
		}
		ms := []vC19Meas{m}
		trs := []timeResult{m.result(0)}
		strs := []string{trs[0].String()}
		for _, dis := range flags {
			c.eval(ms, trs, strs, dis, nil)
			c.res.ByPeers["1"]++
		}
	}
	if mine() {
		for _, dis := range flags {
			c.eval(nil, nil, nil, dis, nil)
			c.res.ByPeers["0"]++
		}
	}

	// ---- two peers, every ordered pair of the sub-grid
	s2 := c.prepare(sub2, 2)
	for i := range sub2 {
		if !mine() {
			continue
		}
		ms := make([]vC19Meas, 2)
		trs := make([]timeResult, 2)
		strs := make([]string, 2)
		alone := make([]int8, 2)
		ms[0], trs[0], strs[0], alone[0] = sub2[i], s2[0].tr[i], s2[0].str[i], s2[0].alone[i]
		for j := range sub2 {
			ms[1], trs[1], strs[1], alone[1] = sub2[j], s2[1].tr[j], s2[1].str[j], s2[1].alone[j]
			for _, dis := range flags {
				c.eval(ms, trs, strs, dis, alone)
			}
		}
		c.res.ByPeers["2"] += 2 * len(sub2)
	}

	// ---- three peers, every ordered triple of the smaller sub-grid
	s3 := c.prepare(sub3, 3)
	for i := range sub3 {
		for j := range sub3 {
			if !mine() {
				continue
			}
			ms := make([]vC19Meas, 3)
			trs := make([]timeResult, 3)
			strs := make([]string, 3)
			alone := make([]int8, 3)
			ms[0], trs[0], strs[0], alone[0] = sub3[i], s3[0].tr[i], s3[0].str[i], s3[0].alone[i]
			ms[1], trs[1], strs[1], alone[1] = sub3[j], s3[1].tr[j], s3[1].str[j], s3[1].alone[j]
			for k := range sub3 {
				ms[2], trs[2], strs[2], alone[2] = sub3[k], s3[2].tr[k], s3[2].str[k], s3[2].alone[k]
				for _, dis := range flags {
					c.eval(ms, trs, strs, dis, alone)
				}
			}
			c.res.ByPeers["3"] += 2 * len(sub3)
		}
	}

	b := c.finish()
	if out := os.Getenv("VERIF_OUT"); out != "" {
		os.WriteFile(out, b, 0644)
	} else {
		fmt.Println(string(b))
	}
}

// TestVerifC19Replay re-evaluates the case of a saved violation (VERIF_REPLAY=<file>).
func TestVerifC19Replay(t *testing.T) {
	p := os.Getenv("VERIF_REPLAY")
	if p == "" {
		t.Skip("VERIF_REPLAY not set")
	}
	log.SetOutput(io.Discard)
	raw, err := os.ReadFile(p)
	if err != nil {
		t.Fatal(err)
	}
	var v vC19Violation
	if err := json.Unmarshal(raw, &v); err != nil {
		t.Fatal(err)
	}
	c := vC19NewCtx("replay")
	var ms []vC19Meas
	var trs []timeResult
	var strs []string
	for i, pe := range v.Peers {
		m := vC19Meas{answered: pe.Answered, delta: time.Duration(pe.DeltaNs), d1: time.Duration(pe.D1Ns), d2: time.Duration(pe.D2Ns)}
		ms = append(ms, m)
		trs = append(trs, m.result(i))
		strs = append(strs, trs[i].String())
	}
	var alone []int8
	if len(ms) > 1 {
		for i, m := range ms {
			a := int8(0)
			if e, _ := vC19Call([]timeResult{m.result(i)}); e != nil {
				a = 1
			}
			alone = append(alone, a)
		}
	}
	*DisableTimesafeguard = v.Disabled
	e, _ := vC19Call(trs)
	*DisableTimesafeguard = false
	fmt.Println("case:", vC19Describe(ms, v.Disabled, e))
	c.eval(ms, trs, strs, v.Disabled, alone)
	for _, x := range c.res.Violations {
		fmt.Println("VIOLATED:", x.Sig, "--", x.Desc)
	}
	if len(c.res.Violations) == 0 {
		fmt.Println("no violation on this tree")
	} else {
		t.Fail()
	}
}
