//go:build verif

package timesafeguard

// C19, collection tier: the exported entry points SynchronizedWithNetwork and
// SynchronizedWithMasterAndNetwork are driven against real HTTPS peers on the loopback interface
// (net/http/httptest) for every tuple of 1..3 peers over {in sync, 1 h ahead, 1 h behind, silent},
// with both settings of the disable flag.  A peer whose clock is one hour off and that ANSWERED must
// make the node refuse, whatever the other peers do (a silent peer must neither be trusted nor make the
// answers of the others disappear).  Only this direction is an oracle: one hour is far beyond anything
// scheduling delays on the loopback could produce.  Refusing an all-good network is counted, not alarmed.

import (
	"encoding/json"
	"encoding/pem"
	"flag"
	"fmt"
	"io"
	"log"
	"net"
	"net/http"
	"net/http/httptest"
	"os"
	"path/filepath"
	"strconv"
	"strings"
	"testing"
	"time"
)

func TestVerifC19Net(t *testing.T) {
	shard, _ := strconv.Atoi(os.Getenv("VERIF_SHARD"))
	nshards, _ := strconv.Atoi(os.Getenv("VERIF_NSHARDS"))
	if nshards == 0 {
		nshards = 1
	}
	log.SetOutput(io.Discard)
	type viol struct {
		Sig   string `json:"sig"`
		Desc  string `json:"desc"`
		Prop  string `json:"prop"`
		Count int    `json:"count"`
	}
	type result struct {
		Cases             int            `json:"cases"`
		Refused           int            `json:"refused"`
		Accepted          int            `json:"accepted"`
		UnexpectedRefusal int            `json:"refusals_of_an_all_good_network"`
		Outcomes          map[string]int `json:"outcomes"`
		Violations        []*viol        `json:"violations"`
		Samples           []string       `json:"samples"`
	}
	res := &result{Outcomes: map[string]int{}}
	sigs := map[string]*viol{}
	rep := func(sig, desc string) {
		sig = "C19:" + sig
		if v, ok := sigs[sig]; ok {
			v.Count++
			return
		}
		v := &viol{Sig: sig, Desc: desc, Prop: "C19net", Count: 1}
		sigs[sig] = v
		res.Violations = append(res.Violations, v)
	}
	var peersForStatus []string
	// the peers also report their raft state (whatever it is, a peer that answered counts)
	mk := func(off time.Duration, state string) *httptest.Server {
		return httptest.NewTLSServer(http.HandlerFunc(func(w http.ResponseWriter, r *http.Request) {
			if user, pass, ok := r.BasicAuth(); !ok || user != "robustirc" || pass != "secret" {
				http.Error(w, "Unauthorized", http.StatusUnauthorized)
				return
			}
			w.Header().Set("Content-Type", "application/json")
			json.NewEncoder(w).Encode(map[string]interface{}{"State": state, "Peers": peersForStatus, "CurrentTime": time.Now().Add(off)})
		}))
	}
	mkSlow := func(off, delay time.Duration) *httptest.Server {
		return httptest.NewTLSServer(http.HandlerFunc(func(w http.ResponseWriter, r *http.Request) {
			time.Sleep(delay)
			w.Header().Set("Content-Type", "application/json")
			json.NewEncoder(w).Encode(map[string]interface{}{"State": "Follower", "Peers": peersForStatus, "CurrentTime": time.Now().Add(off)})
		}))
	}
	servers := map[string]*httptest.Server{"slow": mkSlow(time.Hour, 2500*time.Millisecond), "good": mk(0, "Leader"), "good2": mk(0, "Follower"), "ahead": mk(time.Hour, "Candidate"), "behind": mk(-time.Hour, "Follower")}
	for _, s := range servers {
		defer s.Close()
	}
	ln, err := net.Listen("tcp", "127.0.0.1:0")
	if err != nil {
		t.Fatal(err)
	}
	silent := ln.Addr().String()
	ln.Close()
	dir := t.TempDir()
	ca := filepath.Join(dir, "ca.pem")
	if err := os.WriteFile(ca, pem.EncodeToMemory(&pem.Block{Type: "CERTIFICATE", Bytes: servers["good"].Certificate().Raw}), 0600); err != nil {
		t.Fatal(err)
	}
	if err := flag.Set("tls_ca_file", ca); err != nil {
		t.Fatal(err)
	}
	addr := func(kind string) string {
		if kind == "silent" {
			return silent
		}
		return strings.TrimPrefix(servers[kind].URL, "https://")
	}
	const me = "me.example.net:60667"
	kinds := []string{"good", "ahead", "behind", "silent"}
	var tuples [][]string
	var rec func(cur []string)
	rec = func(cur []string) {
		if len(cur) > 0 {
			tuples = append(tuples, append([]string(nil), cur...))
		}
		if len(cur) == 3 {
			return
		}
		for _, k := range kinds {
			rec(append(cur, k))
		}
	}
	rec(nil)
	// a peer that answers slowly (2.5 s: longer than the election timeout, well inside the HTTP timeout) with a
	// clock one hour ahead: it answered, so it counts
	tuples = append(tuples, []string{"slow"}, []string{"good", "slow"}, []string{"slow", "good"}, []string{"slow", "silent"})
	ci := 0
	for _, tu := range tuples {
		for _, disabled := range []bool{false, true} {
			for _, entry := range []string{"restart", "join"} {
				ci++
				if ci%nshards != shard {
					continue
				}
				res.Cases++
				*DisableTimesafeguard = disabled
				var peers []string
				bad := false
				for k, kind := range tu {
					a := addr(kind)
					if kind == "good" && k > 0 {
						a = addr("good2")
					}
					peers = append(peers, a)
					if kind == "ahead" || kind == "behind" || kind == "slow" {
						bad = true
					}
				}
				var err error
				if entry == "restart" {
					err = SynchronizedWithNetwork(me, append([]string{me}, peers...), "secret")
				} else {
					// -join: the master (first peer) must answer, otherwise the real code calls log.Fatalf
					if tu[0] == "silent" {
						res.Cases--
						continue
					}
					peersForStatus = append([]string{me}, peers...)
					err = SynchronizedWithMasterAndNetwork(me, peers[0], "secret")
				}
				*DisableTimesafeguard = false
				what := fmt.Sprintf("%s with peers %v, -disable_timesafeguard=%v", entry, tu, disabled)
				if err == nil {
					res.Accepted++
				} else {
					res.Refused++
				}
				res.Outcomes[fmt.Sprintf("bad answering peer=%v disabled=%v refused=%v", bad, disabled, err != nil)]++
				switch {
				case disabled && err != nil:
					rep("refuses although the safeguard is disabled (collection tier)", what)
				case !disabled && bad && err == nil:
					rep("joins although an answering peer's clock is one hour off (collection tier)", what)
				case !disabled && !bad && err != nil:
					res.UnexpectedRefusal++
				}
				if len(res.Samples) < 3 {
					res.Samples = append(res.Samples, fmt.Sprintf("%s -> refused=%v", what, err != nil))
				}
			}
		}
	}
	b, _ := json.Marshal(res)
	if o := os.Getenv("VERIF_OUT"); o != "" {
		os.WriteFile(o, b, 0644)
	} else {
		fmt.Println(string(b))
	}
}
