//go:build verif

package api

import (
	"net/http"

	"github.com/robustirc/robustirc/internal/robust"
)

// VerifHandlePostMessage calls the POST message handler without the dispatcher around it: the dispatcher
// turns every panic into an exit of the process, and the cooperative scheduler of the C20 harness unwinds
// an aborted thread with a panic.
func (api *HTTP) VerifHandlePostMessage(w http.ResponseWriter, r *http.Request, session robust.Id) {
	api.handlePostMessage(w, r, session)
}
