//go:build verif

package api

// C04: exactly-once, in-order delivery when a client resumes with lastseen.  The real
// api.getMessages (time.Sleep redirected to the scheduler) reads a real OutputStream
// (sync redirected) while an applier thread adds the batches the node has not applied
// yet; every interleaving within the preemption bound is executed.

import (
	"context"
	"encoding/json"
	"fmt"
	"os"
	"strconv"
	"strings"
	gosync "sync"
	"testing"
	"time"

	"github.com/robustirc/robustirc/internal/outputstream"
	"github.com/robustirc/robustirc/internal/robust"
	"github.com/robustirc/robustirc/internal/verif/vsync"
)

const c04Session = 1

// batch shapes: which of the messages of a batch are addressed to the client (C), to somebody else (O)
var c04Shapes = []string{"C", "O", "CC", "COC", "OC", "CCC"}

type c04Case struct {
	History []string // shapes, batch ids 10,20,30,...
	Cut     int      // number of messages of the client's filtered sequence already received
	Lag     int      // number of batches node 2 has applied when the client reconnects
	Cut2    int      // thorough: second disconnect after Cut2 further messages (-1 = none)
}

func (c c04Case) String() string {
	return fmt.Sprintf("history=%v received=%d node2-has=%d batches cut2=%d", c.History, c.Cut, c.Lag, c.Cut2)
}

func c04Batch(id uint64, shape string) []outputstream.Message {
	var msgs []outputstream.Message
	for k, ch := range shape {
		rec := map[uint64]bool{}
		if ch == 'C' {
			rec[c04Session] = true
		} else {
			rec[99] = true
		}
		msgs = append(msgs, outputstream.Message{Id: robust.Id{Id: id, Reply: uint64(k + 1)}, Data: fmt.Sprintf("m%d.%d", id, k+1), InterestingFor: rec})
	}
	return msgs
}

// c04Reference is the sequence of message ids addressed to the client.
func c04Reference(c c04Case) []robust.Id {
	var out []robust.Id
	for b, shape := range c.History {
		for k, ch := range shape {
			if ch == 'C' {
				out = append(out, robust.Id{Id: uint64(10 * (b + 1)), Reply: uint64(k + 1)})
			}
		}
	}
	return out
}

type c04Conn struct {
	received []robust.Id
	raw      int
	chunks   int
}

// c04Connect runs the real getMessages against stream o under schedule s, starting at lastSeen, while
// `pending` batches are added by an applier thread; it returns what the handler would have written to
// the client (the recipient filter of handleGetMessages is mirrored here).
func c04Connect(s *vsync.Sched, o *outputstream.OutputStream, lastSeen robust.Id, pending [][]outputstream.Message) *c04Conn {
	api := &HTTP{outputUnlocked: o}
	ctx, cancel := context.WithCancel(context.Background())
	msgschan := make(chan []*robust.Message)
	conn := &c04Conn{}
	var mu gosync.Mutex
	var wg gosync.WaitGroup
	wg.Add(1)
	go func() { // the consumer of handleGetMessages: always ready, filters by recipient
		defer wg.Done()
		for msgs := range msgschan {
			mu.Lock()
			conn.chunks++
			for _, m := range msgs {
				conn.raw++
				if m.Type != robust.Ping && !m.InterestingFor[c04Session] {
					continue
				}
				conn.received = append(conn.received, m.Id)
			}
			mu.Unlock()
		}
	}()
	s.Go("reader", func() {
		api.getMessages(ctx, lastSeen, msgschan)
	})
	s.Go("applier", func() {
		for _, b := range pending {
			if err := o.Add(b); err != nil {
				panic(err)
			}
		}
	})
	s.Run()
	cancel()
	close(msgschan)
	wg.Wait()
	return conn
}

func c04Ids(ids []robust.Id) string {
	var s []string
	for _, id := range ids {
		s = append(s, fmt.Sprintf("%d.%d", id.Id, id.Reply))
	}
	return "[" + strings.Join(s, " ") + "]"
}

type c04Violation struct {
	Sig      string  `json:"sig"`
	Desc     string  `json:"desc"`
	Prop     string  `json:"prop"`
	Count    int     `json:"count"`
	Case     c04Case `json:"case"`
	Schedule []int   `json:"schedule"`
}

func c04NewStream(t *testing.T, tmp string) *outputstream.OutputStream {
	o, err := outputstream.VerifNewStream()
	if err != nil {
		t.Fatal(err)
	}
	return o
}

// c04Run executes one case under one schedule and returns a violation class and description ("" = ok).
func c04Run(t *testing.T, c c04Case, s *vsync.Sched, tmp string) (string, string, string) {
	ref := c04Reference(c)
	o := c04NewStream(t, tmp)
	for b := 0; b < c.Lag; b++ {
		o.Add(c04Batch(uint64(10*(b+1)), c.History[b]))
	}
	var pending [][]outputstream.Message
	for b := c.Lag; b < len(c.History); b++ {
		pending = append(pending, c04Batch(uint64(10*(b+1)), c.History[b]))
	}
	lastSeen := robust.Id{Id: c04Session}
	if c.Cut > 0 {
		lastSeen = ref[c.Cut-1]
	}
	conn := c04Connect(s, o, lastSeen, pending)
	got := append(append([]robust.Id(nil), ref[:c.Cut]...), conn.received...)
	obs := fmt.Sprintf("%s chunks=%d sleeps=%d", c04Ids(conn.received), conn.chunks, s.Sleeps())
	for k, pn := range s.Panics() {
		if pn != nil {
			return "panic while serving the stream", fmt.Sprintf("thread %d panicked: %v", k, pn), obs
		}
	}
	if s.Outcome == "horizon" {
		return "reader keeps polling and never catches up", "the execution did not quiesce within the horizon", obs
	}
	if s.Outcome == "done" {
		return "reader returned although its context was not cancelled", "getMessages returned", obs
	}
	if c04Ids(got) == c04Ids(ref) {
		return "", "", obs
	}
	// classify
	seen := map[robust.Id]int{}
	for _, id := range got {
		seen[id]++
	}
	kind := "messages delivered out of order"
	for _, id := range ref {
		if seen[id] == 0 {
			kind = "message addressed to the session is never delivered"
		}
	}
	for _, n := range seen {
		if n > 1 {
			kind = "message delivered twice"
		}
	}
	inside := "between batches"
	if c.Cut > 0 && c.Cut < len(ref) && ref[c.Cut].Id == ref[c.Cut-1].Id {
		inside = "inside a batch"
	}
	have := "node already has the batch named by lastseen"
	if c.Cut > 0 && uint64(10*c.Lag) < ref[c.Cut-1].Id {
		have = "node does not yet have the batch named by lastseen"
	}
	return fmt.Sprintf("%s (resume %s, %s)", kind, inside, have),
		fmt.Sprintf("client already had %s, resumed with lastseen=%d.%d and received %s; messages addressed to it are %s", c04Ids(ref[:c.Cut]), lastSeen.Id, lastSeen.Reply, c04Ids(conn.received), c04Ids(ref)), obs
}

func c04Cases(thorough bool) []c04Case {
	var hs [][]string
	maxLen := 3
	shapes := c04Shapes[:5]
	if thorough {
		maxLen = 4
		shapes = c04Shapes
	}
	var rec func(cur []string)
	rec = func(cur []string) {
		if len(cur) > 0 {
			hs = append(hs, append([]string(nil), cur...))
		}
		if len(cur) == maxLen {
			return
		}
		for _, s := range shapes {
			rec(append(cur, s))
		}
	}
	rec(nil)
	var cs []c04Case
	for _, h := range hs {
		c := c04Case{History: h}
		n := len(c04Reference(c))
		for cut := 0; cut <= n; cut++ {
			for lag := 0; lag <= len(h); lag++ {
				cs = append(cs, c04Case{History: h, Cut: cut, Lag: lag, Cut2: -1})
			}
		}
	}
	return cs
}

func TestVerifC04(t *testing.T) {
	shard, _ := strconv.Atoi(os.Getenv("VERIF_SHARD"))
	nshards, _ := strconv.Atoi(os.Getenv("VERIF_NSHARDS"))
	if nshards == 0 {
		nshards = 1
	}
	thorough := os.Getenv("VERIF_TIER") == "thorough"
	bound := 2
	if thorough {
		bound = 3
	}
	if b := os.Getenv("VERIF_BOUND"); b != "" {
		bound, _ = strconv.Atoi(b)
	}
	var deadline time.Time
	if d := os.Getenv("VERIF_DEADLINE"); d != "" {
		sec, _ := strconv.ParseInt(d, 10, 64)
		deadline = time.Unix(sec, 0)
	}
	tmp := t.TempDir()
	type result struct {
		Cases       int             `json:"cases"`
		Executions  int             `json:"executions"`
		Points      int             `json:"points"`
		Truncated   int             `json:"cases_truncated"`
		Outcomes    map[string]int  `json:"outcomes"`
		Distinct    int             `json:"distinct_observations"`
		Colliding   int             `json:"cases_with_2plus_observations"`
		Violations  []*c04Violation `json:"violations"`
		Samples     []string        `json:"samples"`
		Bound       int             `json:"preemption_bound"`
		SleepPaths  int             `json:"executions_through_backoff_sleep"`
	}
	res := &result{Outcomes: map[string]int{}, Bound: bound}
	sigs := map[string]*c04Violation{}
	if rp := os.Getenv("VERIF_REPLAY"); rp != "" {
		b, _ := os.ReadFile(rp)
		var v c04Violation
		if err := json.Unmarshal(b, &v); err != nil {
			t.Fatal(err)
		}
		n, _ := strconv.Atoi(os.Getenv("VERIF_REPLAY_COUNT"))
		if n == 0 {
			n = 1
		}
		type rr struct {
			Runs       []string `json:"runs"`
			Reproduced bool     `json:"reproduced"`
			Identical  bool     `json:"identical"`
		}
		out := rr{Reproduced: true, Identical: true}
		for k := 0; k < n; k++ {
			s := vsync.New(v.Schedule)
			sig, _, _ := c04Run(t, v.Case, s, tmp)
			out.Runs = append(out.Runs, "C04:"+sig)
			if "C04:"+sig != v.Sig {
				out.Reproduced = false
			}
			if k > 0 && out.Runs[k] != out.Runs[0] {
				out.Identical = false
			}
		}
		jb, _ := json.Marshal(out)
		if o := os.Getenv("VERIF_OUT"); o != "" {
			os.WriteFile(o, jb, 0644)
		} else {
			fmt.Println(string(jb))
		}
		return
	}
	cases := c04Cases(thorough)
	for ci, c := range cases {
		if ci%nshards != shard {
			continue
		}
		c := c
		res.Cases++
		observations := map[string]bool{}
		st := vsync.Explore(bound, 100000, deadline, func(s *vsync.Sched) {
			s.Horizon = 400
			sig, desc, obs := c04Run(t, c, s, tmp)
			observations[obs] = true
			res.Points += len(s.Points)
			if sig != "" {
				full := "C04:" + sig
				if v, ok := sigs[full]; ok {
					v.Count++
				} else {
					sched := make([]int, len(s.Points))
					for k, p := range s.Points {
						sched[k] = p.Chosen
					}
					v := &c04Violation{Sig: full, Desc: fmt.Sprintf("case %s, schedule %v: %s", c.String(), sched, desc), Prop: "C04", Count: 1, Case: c, Schedule: sched}
					sigs[full] = v
					res.Violations = append(res.Violations, v)
				}
			}
		})
		res.Executions += st.Executions
		if st.Truncated {
			res.Truncated++
		}
		for k, v := range st.Outcomes {
			res.Outcomes[k] += v
		}
		res.Distinct += len(observations)
		if len(observations) >= 2 {
			res.Colliding++
		}
		if len(res.Samples) < 5 && ci%53 == shard%53 {
			res.Samples = append(res.Samples, fmt.Sprintf("%s: %d schedules, %d distinct observations", c.String(), st.Executions, len(observations)))
		}
	}
	b, _ := json.Marshal(res)
	if o := os.Getenv("VERIF_OUT"); o != "" {
		os.WriteFile(o, b, 0644)
	} else {
		fmt.Println(string(b))
	}
}
