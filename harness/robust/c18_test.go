//go:build verif

package robust

// C18 part 1: robust.Message <-> raft log payload ('p'+protobuf through both encoders, legacy JSON).
//
// A full cartesian grid of messages is enumerated (no sampling).  For every message m:
//   A = 'p' + proto.Marshal(m.ProtoMessage())            (what api.applyMessageWait and the message-of-death path write)
//   B = 'p' + proto.Marshal(dst) after m.CopyToProtoMessage(dst), dst allocated once like
//       LevelDBStore.ConvertToProto does and REUSED for every message of the shard
//   C = json.Marshal(m)                                   (legacy encoding)
// Oracle: A == B byte for byte; NewMessageFromBytes(X, idx) for X in {A,B,C}, idx in {7, 2^40} equals m
// field by field, except that Id.Id == 0 becomes idx (and only then).

import (
	"crypto/sha1"
	"encoding/json"
	"fmt"
	"math"
	"os"
	"strconv"
	"strings"
	"testing"

	"github.com/golang/protobuf/proto"

	pb "github.com/robustirc/robustirc/internal/proto"
)

type vC18Violation struct {
	Sig   string `json:"sig"`
	Desc  string `json:"desc"`
	Prop  string `json:"prop"`
	Count int    `json:"count"`
	Input string `json:"input,omitempty"`
}

type vC18Result struct {
	Part        string           `json:"part"`
	GridSize    int              `json:"grid_size"`
	Messages    int              `json:"messages"`
	Evaluations int              `json:"evaluations"`
	Distinct    int              `json:"distinct_encodings"`
	Nontrivial  int              `json:"distinct_nontrivial"`
	IdDefaulted int              `json:"id_defaulted"`
	Dims        map[string]int   `json:"dims"`
	Violations  []*vC18Violation `json:"violations"`
	Samples     []string         `json:"samples"`
}

type vC18Grid struct {
	types    []Type
	ids      []uint64
	replies  []uint64
	sessions []Id
	datas    []string
	nanos    []int64
	servers  [][]string
	masters  []string
	addrs    []string
	cmids    []uint64
	revs     []uint64
}

func vC18MakeGrid(thorough bool) *vC18Grid {
	g := &vC18Grid{
		types:    []Type{CreateSession, DeleteSession, IRCFromClient, IRCToClient, Ping, MessageOfDeath, Config, State, Any},
		ids:      []uint64{0, 1, math.MaxUint64},
		replies:  []uint64{0, 5},
		sessions: []Id{{}, {Id: 0x40826d776b433c17, Reply: 3}},
		datas: []string{
			"",
			"x",
			"é☃",
			strings.Repeat("PRIVMSG #chan :0123456789abcdef ", 19)[:600],
			"say \"hi\" \\ back\x00slash",
			"ping :starts with p",
		},
		nanos:   []int64{0, 1, math.MaxInt64},
		servers: [][]string{nil, {"localhost:13001"}, {"a.example:60667", "", "[2001:db8::3]:443"}},
		masters: []string{"", "robust2.example.net:60667"},
		addrs:   []string{"", "[2001:db8::1]:54321"},
		cmids:   []uint64{0, 1, math.MaxUint64},
		revs:    []uint64{0, 1, math.MaxUint64},
	}
	if thorough {
		g.replies = append(g.replies, math.MaxUint64)
		g.sessions = append(g.sessions, Id{Id: math.MaxUint64, Reply: math.MaxUint64})
		g.datas = append(g.datas,
			"{\"Id\":{\"Id\":9}}",
			"<&>   \U0001F600 �",
			strings.Repeat("☃", 25000), // 75000 bytes: length needs 3 varint bytes
			"line\nfeed\ttab\rret")
		g.nanos = append(g.nanos, -1, math.MinInt64)
		g.servers = append(g.servers, []string{"é:1", "p", "x", "y", strings.Repeat("s", 300)})
	}
	return g
}

func (g *vC18Grid) dims() []int {
	return []int{len(g.types), len(g.ids), len(g.replies), len(g.sessions), len(g.datas), len(g.nanos),
		len(g.servers), len(g.masters), len(g.addrs), len(g.cmids), len(g.revs)}
}

func (g *vC18Grid) size() int {
	n := 1
	for _, d := range g.dims() {
		n *= d
	}
	return n
}

// at decodes grid point k (mixed radix, the LAST dimension varies fastest).
func (g *vC18Grid) at(k int) Message {
	d := g.dims()
	ix := make([]int, len(d))
	for i := len(d) - 1; i >= 0; i-- {
		ix[i] = k % d[i]
		k /= d[i]
	}
	return Message{
		Type:            g.types[ix[0]],
		Id:              Id{Id: g.ids[ix[1]], Reply: g.replies[ix[2]]},
		Session:         g.sessions[ix[3]],
		Data:            g.datas[ix[4]],
		UnixNano:        g.nanos[ix[5]],
		Servers:         g.servers[ix[6]],
		Currentmaster:   g.masters[ix[7]],
		RemoteAddr:      g.addrs[ix[8]],
		ClientMessageId: g.cmids[ix[9]],
		Revision:        g.revs[ix[10]],
	}
}

func vC18Short(s string) string {
	if len(s) > 48 {
		return fmt.Sprintf("%q...(%d bytes)", s[:32], len(s))
	}
	return fmt.Sprintf("%q", s)
}

func vC18Show(m *Message) string {
	return fmt.Sprintf("{Type:%d Id:%d.%d Session:%d.%d Data:%s UnixNano:%d Servers:%d%q Currentmaster:%q ClientMessageId:%d Revision:%d RemoteAddr:%q}",
		int64(m.Type), m.Id.Id, m.Id.Reply, m.Session.Id, m.Session.Reply, vC18Short(m.Data), m.UnixNano, len(m.Servers), vC18ShortList(m.Servers), m.Currentmaster, m.ClientMessageId, m.Revision, m.RemoteAddr)
}

func vC18ShortList(l []string) []string {
	out := make([]string, len(l))
	for i, s := range l {
		if len(s) > 24 {
			s = s[:24] + "..."
		}
		out[i] = s
	}
	return out
}

// vC18Diff returns the names of the fields in which got differs from want.
func vC18Diff(got, want *Message) []string {
	var f []string
	if got.Id.Id != want.Id.Id {
		f = append(f, "Id.Id")
	}
	if got.Id.Reply != want.Id.Reply {
		f = append(f, "Id.Reply")
	}
	if got.Session.Id != want.Session.Id {
		f = append(f, "Session.Id")
	}
	if got.Session.Reply != want.Session.Reply {
		f = append(f, "Session.Reply")
	}
	if got.Type != want.Type {
		f = append(f, "Type")
	}
	if got.Data != want.Data {
		f = append(f, "Data")
	}
	if got.UnixNano != want.UnixNano {
		f = append(f, "UnixNano")
	}
	if len(got.Servers) != len(want.Servers) {
		f = append(f, "Servers")
	} else {
		for i := range got.Servers {
			if got.Servers[i] != want.Servers[i] {
				f = append(f, "Servers")
				break
			}
		}
	}
	if got.Currentmaster != want.Currentmaster {
		f = append(f, "Currentmaster")
	}
	if got.ClientMessageId != want.ClientMessageId {
		f = append(f, "ClientMessageId")
	}
	if got.Revision != want.Revision {
		f = append(f, "Revision")
	}
	if got.RemoteAddr != want.RemoteAddr {
		f = append(f, "RemoteAddr")
	}
	return f
}

func vC18Decode(b []byte, idx uint64) (m Message, perr interface{}) {
	defer func() { perr = recover() }()
	m = NewMessageFromBytes(b, idx)
	return
}

func TestVerifC18Message(t *testing.T) {
	shard, _ := strconv.Atoi(os.Getenv("VERIF_SHARD"))
	nshards, _ := strconv.Atoi(os.Getenv("VERIF_NSHARDS"))
	if nshards == 0 {
		nshards = 1
	}
	g := vC18MakeGrid(os.Getenv("VERIF_TIER") == "thorough")
	N := g.size()
	res := &vC18Result{Part: "message", GridSize: N, Dims: map[string]int{}}
	names := []string{"types", "id", "reply", "session", "data", "unixnano", "servers", "currentmaster", "remoteaddr", "clientmessageid", "revision"}
	for i, d := range g.dims() {
		res.Dims[names[i]] = d
	}
	sigs := map[string]*vC18Violation{}
	report := func(sig, desc string, m *Message) {
		sig = "C18:" + sig
		if v, ok := sigs[sig]; ok {
			v.Count++
			return
		}
		v := &vC18Violation{Sig: sig, Desc: desc, Prop: "C18", Count: 1, Input: vC18Show(m)}
		sigs[sig] = v
		res.Violations = append(res.Violations, v)
	}
	if MessageOffset != 0 {
		t.Fatalf("harness assumes robust.MessageOffset == 0 in the test binary, got %d", MessageOffset)
	}
	// contiguous slice of the grid per shard: the reused destination of CopyToProtoMessage sees every
	// dimension go from a set value back to its zero value.
	lo, hi := shard*N/nshards, (shard+1)*N/nshards
	dst := &pb.RobustMessage{Id: &pb.RobustId{}, Session: &pb.RobustId{}}
	seen := make(map[[sha1.Size]byte]struct{}, hi-lo)
	indexes := []uint64{7, 1 << 40}
	var zero Message
	for k := lo; k < hi; k++ {
		m := g.at(k)
		res.Messages++
		pa, err := proto.Marshal(m.ProtoMessage())
		if err != nil {
			report("ProtoMessage cannot be marshalled", fmt.Sprintf("%s: %v", vC18Show(&m), err), &m)
			continue
		}
		A := append([]byte{'p'}, pa...)
		m.CopyToProtoMessage(dst)
		pbb, err := proto.Marshal(dst)
		if err != nil {
			report("CopyToProtoMessage result cannot be marshalled", fmt.Sprintf("%s: %v", vC18Show(&m), err), &m)
			continue
		}
		B := append([]byte{'p'}, pbb...)
		C, err := json.Marshal(&m)
		if err != nil {
			report("message cannot be marshalled to JSON", fmt.Sprintf("%s: %v", vC18Show(&m), err), &m)
			continue
		}
		res.Evaluations++ // A == B
		if string(A) != string(B) {
			var back pb.RobustMessage
			fields := "?"
			if err := proto.Unmarshal(pbb, &back); err == nil && back.Id != nil && back.Session != nil {
				bm, _ := vC18Decode(B, 0)
				am, _ := vC18Decode(A, 0)
				fields = strings.Join(vC18Diff(&bm, &am), ",")
			}
			report("CopyToProtoMessage and ProtoMessage disagree", fmt.Sprintf("message %s: encodings differ in field(s) %s: ProtoMessage=%x CopyToProtoMessage(reused dst)=%x", vC18Show(&m), fields, vC18Trunc(A), vC18Trunc(B)), &m)
		}
		h := sha1.Sum(A)
		if _, ok := seen[h]; !ok {
			seen[h] = struct{}{}
			res.Distinct++
			if len(vC18Diff(&m, &zero)) > 0 {
				res.Nontrivial++
			}
		}
		for _, idx := range indexes {
			want := m
			if m.Id.Id == 0 {
				want.Id.Id = idx
				res.IdDefaulted++
			}
			for _, enc := range []struct {
				name string
				b    []byte
			}{{"protobuf (ProtoMessage)", A}, {"protobuf (CopyToProtoMessage)", B}, {"JSON", C}} {
				res.Evaluations++
				got, perr := vC18Decode(enc.b, idx)
				if perr != nil {
					report("NewMessageFromBytes panics on an encoded message ("+enc.name+")", fmt.Sprintf("message %s, index %d: %v", vC18Show(&m), idx, perr), &m)
					continue
				}
				if got.InterestingFor != nil {
					report("decoded message carries InterestingFor ("+enc.name+")", fmt.Sprintf("message %s", vC18Show(&m)), &m)
				}
				for _, f := range vC18Diff(&got, &want) {
					sig := "message decoded from " + enc.name + " differs in " + f
					if f == "Id.Id" {
						if m.Id.Id != 0 {
							sig = "NewMessageFromBytes replaces a present id (" + enc.name + ")"
						} else {
							sig = "NewMessageFromBytes does not default an absent id to the raft index (" + enc.name + ")"
						}
					}
					report(sig, fmt.Sprintf("message %s, index %d, encoding %s: decoded %s", vC18Show(&m), idx, enc.name, vC18Show(&got)), &m)
				}
			}
		}
		if len(res.Samples) < 3 && (k-lo)%((hi-lo)/3+1) == (hi-lo)/7 {
			res.Samples = append(res.Samples, fmt.Sprintf("grid point %d: %s -> p+proto %d bytes, JSON %s", k, vC18Show(&m), len(A), vC18Short(string(C))))
		}
	}
	b, _ := json.Marshal(res)
	if out := os.Getenv("VERIF_OUT"); out != "" {
		os.WriteFile(out, b, 0644)
	} else {
		fmt.Println(string(b))
	}
}

func vC18Trunc(b []byte) []byte {
	if len(b) > 96 {
		return b[:96]
	}
	return b
}
