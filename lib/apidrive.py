"""Driver shared by the API-tier checks (C05, C10, C11, C16): builds the package-main test binary with the
in-process node harness and runs one sharded test."""
import json, os, subprocess, sys, time
import vlib

def build():
    ov = vlib.make_overlay('apinode', harness=['main', 'ircserver'])
    return vlib.build_test('.', os.path.join(vlib.BUILD, 'apinode.test'), ov)

def run_seq(prop, tier, test, assumptions, rule, level='model_checking', env=None, extra_cov=None, nshards=None, pre_results=None, t0=None, variants=None):
    t0 = t0 or time.time()
    budget = float(os.environ.get('VERIF_BUDGET_S', '120' if tier == 'quick' else '1200'))
    binary = build()
    e = {'VERIF_TIER': tier, 'VERIF_DEADLINE': str(int(t0 + budget)), 'GOMAXPROCS': '2'}
    e.update(env or {})
    rs = []
    by_variant = {}
    for vname, venv in (variants or [('', {})]):
        ev = dict(e); ev.update(venv)
        for tname in (test if isinstance(test, (list, tuple)) else [test]):
            rv = vlib.run_workers(binary, tname, nshards or vlib.NCPU, env=ev)
            by_variant[vname] = by_variant.get(vname, 0) + sum(r.get('sequences', 0) for r in rv)
            for r in rv:
                for v in r.get('violations') or []:
                    if vname: v['sig'] += ' [' + vname + ']'
            rs += rv
    rs += list(pre_results or [])
    bysig = {}
    herr = [r['harness_error'] for r in rs if r.get('harness_error')]
    for r in rs:
        for v in r.get('violations') or []:
            if v['sig'] in bysig: bysig[v['sig']]['count'] += v.get('count', 1)
            else: bysig[v['sig']] = v
    capped = [h for h in herr if 'time cap' in h]
    other = [h for h in herr if 'time cap' not in h]
    if other:
        print('HARNESS-ERROR: ' + '; '.join(sorted(set(other))[:3]))
        raise SystemExit(3)
    end_states = {}
    for r in rs:
        for k, c in (r.get('end_states') or {}).items(): end_states[k] = end_states.get(k, 0) + c
    cov = {
        'evaluations': sum(r.get('sequences', 0) for r in rs), 'distinct_nontrivial': len(end_states),
        'states': len(end_states), 'transitions': sum(r.get('ops', 0) for r in rs),
        'traces_validated_against_impl': sum(r.get('sequences', 0) for r in rs),
        'sequences': sum(r.get('sequences', 0) for r in rs), 'depth': rs[0].get('depth'),
        'restarts': sum(r.get('restarts', 0) for r in rs), 'snapshots': sum(r.get('snapshots', 0) for r in rs),
        'distinct_end_states': len(end_states),
        'samples': sum([r.get('samples') or [] for r in rs], [])[:6], 'exhaustive': not capped, 'rule': rule,
    }
    for k in ('retries', 'requests', 'refused', 'accepted', 'mixed_encoding_schedules'):
        if any(k in r for r in rs): cov[k] = sum(r.get(k, 0) for r in rs)
    if variants: cov['sequences_by_variant'] = by_variant
    if extra_cov: cov.update(extra_cov)
    vlib.finish(prop, tier, level, cov, list(bysig.values()), t0, assumptions=assumptions)
