"""Shared driver machinery for the /verif checks (see DESIGN.md section 1).

Everything is built from the repository's *current working tree* (VERIF_REPO,
default /repo) with `go test -c -overlay`: harness files under /verif/harness
and engine packages under /verif/engine are mounted as virtual files; nothing
is written into the repository.
"""
import hashlib, json, os, shutil, subprocess, sys, time, glob, tempfile

VERIF = os.path.dirname(os.path.dirname(os.path.abspath(__file__)))
REPO = os.environ.get('VERIF_REPO', '/repo')
BUILD = os.path.join(VERIF, 'build') if REPO == '/repo' else os.path.join(VERIF, 'build', 'alt-' + hashlib.sha1(REPO.encode()).hexdigest()[:8])
EVIDENCE = os.path.join(VERIF, 'evidence')
REPLAYS = os.path.join(VERIF, 'replays')
MODPATH = 'github.com/robustirc/robustirc'
NCPU = int(os.environ.get('VERIF_NCPU', '0') or 0) or os.cpu_count() or 4

GOENV = dict(os.environ)
GOENV.update({'GOFLAGS': '-mod=mod', 'GOPROXY': 'off', 'GOSUMDB': 'off',
              'GOTOOLCHAIN': 'local', 'CGO_ENABLED': os.environ.get('CGO_ENABLED', '1')})

sys.path.insert(0, os.path.join(VERIF, 'tools'))


def log(*a):
    print('[verif]', *a, file=sys.stderr, flush=True)


def scratch_dir():
    base = '/dev/shm' if os.path.isdir('/dev/shm') else tempfile.gettempdir()
    d = os.path.join(base, 'verif-%d' % os.getpid())
    os.makedirs(d, exist_ok=True)
    return d


def cleanup_scratch():
    base = '/dev/shm' if os.path.isdir('/dev/shm') else tempfile.gettempdir()
    shutil.rmtree(os.path.join(base, 'verif-%d' % os.getpid()), ignore_errors=True)


# ---------------------------------------------------------------- overlay

# harness dir name -> package directory inside the repository
HARNESS_PKGS = {
    'ircserver': 'internal/ircserver',
    'outputstream': 'internal/outputstream',
    'api': 'internal/api',
    'raftstore': 'internal/raftstore',
    'robust': 'internal/robust',
    'timesafeguard': 'internal/timesafeguard',
    'localnet': 'internal/localnet',
    'main': '.',
}


def make_overlay(name, harness=(), engines=(), rt=False, rewrite_sync=(), extra=None, rewrite_harness=(), vsync_pkg='vsync'):
    """Write build/<name>.overlay.json and return its path.

    harness: names from HARNESS_PKGS; every *.go below /verif/harness/<name>/ is
             mounted as <repo>/<pkgdir>/zz_verif_<file>.
    engines: names below /verif/engine mounted as <repo>/internal/verif/<name>/.
    rt:      patch runtime/map.go and time/time.go (tools/rtpatch.py).
    rewrite_sync: repository files (relative) whose import "sync" is redirected to
             the scheduler-controlled vsync (tools/rewrite.py), regenerated from the
             current tree.
    """
    os.makedirs(BUILD, exist_ok=True)
    repl = {}
    for h in harness:
        src = os.path.join(VERIF, 'harness', h)
        dst = os.path.normpath(os.path.join(REPO, HARNESS_PKGS[h]))
        for f in sorted(os.listdir(src)):
            if f.endswith('.go') or f.endswith('.s'):
                repl[os.path.join(dst, 'zz_verif_' + f)] = os.path.join(src, f)
    for e in engines:
        src = os.path.join(VERIF, 'engine', e)
        dst = os.path.join(REPO, 'internal', 'verif', e)
        for f in sorted(os.listdir(src)):
            if f.endswith('.go') or f.endswith('.s'):
                repl[os.path.join(dst, f)] = os.path.join(src, f)
    if rt:
        import rtpatch
        repl.update(rtpatch.main(os.path.join(BUILD, 'rt')))
    if rewrite_sync:
        import rewrite
        outdir = os.path.join(BUILD, 'rewrite-' + name)
        shutil.rmtree(outdir, ignore_errors=True)
        os.makedirs(outdir)
        for rel in rewrite_sync:
            src = os.path.join(REPO, rel)
            out = os.path.join(outdir, rel.replace('/', '__') + '.txt')
            rewrite.rewrite_file(src, out, vsync_pkg)
            repl[src] = out
    for h, f in rewrite_harness:
        import rewrite
        outdir = os.path.join(BUILD, 'rewrite-' + name)
        os.makedirs(outdir, exist_ok=True)
        out = os.path.join(outdir, 'harness__%s__%s.txt' % (h, f))
        rewrite.rewrite_file(os.path.join(VERIF, 'harness', h, f), out, vsync_pkg)
        repl[os.path.join(os.path.normpath(os.path.join(REPO, HARNESS_PKGS[h])), 'zz_verif_' + f)] = out
    if extra:
        repl.update(extra)
    if os.environ.get('VERIF_EXTRA_OVERLAY'):
        repl.update(json.load(open(os.environ['VERIF_EXTRA_OVERLAY'])))
    path = os.path.join(BUILD, name + '.overlay.json')
    with open(path, 'w') as f:
        json.dump({'Replace': repl}, f, indent=1)
    return path


def build_test(pkg, out, overlay, race=False, tags='verif', extra_env=None):
    """go test -c for repository package `pkg` ('.' or './internal/x')."""
    cmd = ['go', 'test', '-c', '-vet=off', '-tags', tags, '-overlay', overlay, '-o', out]
    if race:
        cmd.append('-race')
    cmd.append(pkg)
    env = dict(GOENV)
    if extra_env:
        env.update(extra_env)
    t0 = time.time()
    p = subprocess.run(cmd, cwd=REPO, env=env, stdout=subprocess.PIPE, stderr=subprocess.STDOUT, text=True)
    if p.returncode != 0:
        sys.stderr.write(p.stdout)
        raise SystemExit('HARNESS-BUILD-FAILED: %s (exit %d)' % (' '.join(cmd), p.returncode))
    log('built %s in %.1fs' % (os.path.basename(out), time.time() - t0))
    return out


# ---------------------------------------------------------------- workers

def run_workers(binary, test, shards, env=None, timeout=None, cwd=None, per_worker_env=None, extra_args=()):
    """Run `binary -test.run ^test$` once per shard (in parallel, <= NCPU at a time).

    Each worker gets VERIF_SHARD=i, VERIF_NSHARDS=n, VERIF_OUT=<file> and writes a JSON
    result there.  Returns the list of parsed results.  A worker that dies without a
    result file is reported as a harness error (exit 3), never as a violation.
    """
    sd = scratch_dir()
    procs = []
    results = [None] * shards
    pending = list(range(shards))
    running = {}
    base = dict(os.environ)
    base.update(env or {})
    base.setdefault('GOMAXPROCS', '2')
    deadline = time.time() + timeout if timeout else None

    def start(i):
        out = os.path.join(sd, '%s.%s.%d.json' % (os.path.basename(binary), test, i))
        if os.path.exists(out):
            os.remove(out)
        e = dict(base)
        e.update({'VERIF_SHARD': str(i), 'VERIF_NSHARDS': str(shards), 'VERIF_OUT': out,
                  'TMPDIR': os.path.join(sd, 'tmp%d' % i)})
        if per_worker_env:
            e.update(per_worker_env(i))
        os.makedirs(e['TMPDIR'], exist_ok=True)
        logf = open(out + '.log', 'w')
        p = subprocess.Popen([binary, '-test.run', '^' + test + '$', '-test.timeout', '0', '-test.v'] + list(extra_args),
                             env=e, stdout=logf, stderr=subprocess.STDOUT, cwd=cwd or sd)
        running[i] = (p, out, logf)

    while pending or running:
        while pending and len(running) < NCPU:
            start(pending.pop(0))
        time.sleep(0.05)
        for i, (p, out, logf) in list(running.items()):
            rc = p.poll()
            if rc is None:
                if deadline and time.time() > deadline + 120:
                    p.kill()
                continue
            logf.close()
            del running[i]
            if os.path.exists(out):
                try:
                    results[i] = json.load(open(out))
                    results[i]['_rc'] = rc
                    continue
                except Exception as ex:
                    log('worker %d wrote unreadable result: %s' % (i, ex))
            tail = open(out + '.log', errors='replace').read()[-4000:]
            sys.stderr.write(tail + '\n')
            raise SystemExit('HARNESS-WORKER-FAILED: %s shard %d exit %s (no result file)' % (test, i, rc))
    return results


def shard_work(work, n, name):
    """Write work[i::n] to one file per worker and return the per_worker_env callable for run_workers
    (every worker reads only its own share: a frontier of 10^5..10^6 states is hundreds of megabytes)."""
    sd = scratch_dir()
    files = []
    for i in range(n):
        f = os.path.join(sd, '%s.%d.json' % (name, i))
        with open(f, 'w') as o:
            json.dump(work[i::n], o)
        files.append(f)
    return lambda i: {'VERIF_WORK': files[i], 'VERIF_SHARD': '0', 'VERIF_NSHARDS': '1'}


# ---------------------------------------------------------------- evidence / findings

def load_known():
    p = os.path.join(VERIF, 'known_findings.json')
    if not os.path.exists(p):
        return []
    return json.load(open(p)).get('findings', [])


def classify(prop, violations):
    """Split violations into (new, known) by signature against known_findings.json.

    A known entry matches when entry.property == prop and entry.signature == v['sig'].
    `fixed` entries suppress nothing.
    """
    known = [k for k in load_known() if k.get('property') == prop and k.get('status') == 'known']
    sigs = {k['signature']: k for k in known}
    new, old = [], {}
    for v in violations:
        k = sigs.get(v.get('sig'))
        if k is not None:
            old.setdefault(v['sig'], (k, []))[1].append(v)
        else:
            new.append(v)
    return new, old


def save_replay(prop, v, idx):
    os.makedirs(REPLAYS, exist_ok=True)
    h = hashlib.sha1(json.dumps(v, sort_keys=True).encode()).hexdigest()[:10]
    p = os.path.join(REPLAYS, '%s-%s.json' % (prop, h))
    with open(p, 'w') as f:
        json.dump(v, f, indent=1, sort_keys=True)
    return p


def finish(prop, tier, level, coverage, violations, t0, assumptions=(), extra=None, max_print=10):
    max_print = int(os.environ.get('VERIF_MAX_PRINT', max_print))
    """Classify violations, print VIOLATION / KNOWN-FINDING lines, write evidence, exit."""
    new, old = classify(prop, violations)
    for sig, (k, vs) in sorted(old.items()):
        print('KNOWN-FINDING: property=%s %s (%d occurrence(s) this run; signature %s)' % (prop, k.get('what', ''), len(vs), sig))
    seen = set()
    shown = 0
    for i, v in enumerate(new):
        if v.get('sig') in seen:
            continue
        seen.add(v.get('sig'))
        if shown < max_print:
            p = save_replay(prop, v, i)
            print('VIOLATION property=%s replay=%s' % (prop, p))
            print('  signature: %s' % v.get('sig'))
            if v.get('desc'):
                print('  ' + str(v.get('desc'))[:600])
            shown += 1
    if os.environ.get('VERIF_VERBOSE'):
        for sg in sorted(seen):
            print('  SIG ' + str(sg))
    if len(seen) > shown:
        print('  ... %d further distinct violation signature(s) not printed' % (len(seen) - shown))
    cov = dict(coverage)
    cov.setdefault('samples', [])
    ev = {
        'property_id': prop,
        'tier': tier,
        'seed': int(os.environ.get('VERIF_SEED', '0') or 0),
        'level': level,
        'coverage': cov,
        'assumptions': list(assumptions),
        'wall_s': round(time.time() - t0, 2),
        'violations': len(seen),
        'known_findings_hit': sorted(old.keys()),
        'repo': REPO,
    }
    if extra:
        ev.update(extra)
    os.makedirs(EVIDENCE, exist_ok=True)
    with open(os.path.join(EVIDENCE, prop + '.json'), 'w') as f:
        json.dump(ev, f, indent=1, sort_keys=True)
    log('%s %s: %s  violations(new)=%d known=%d wall=%.1fs' % (
        prop, tier, {k: v for k, v in cov.items() if isinstance(v, (int, bool))}, len(seen), len(old), time.time() - t0))
    cleanup_scratch()
    sys.exit(1 if seen else 0)


def merge_counts(results, keys):
    out = {}
    for k in keys:
        out[k] = sum(int(r.get(k, 0) or 0) for r in results if r)
    return out
