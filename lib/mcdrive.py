"""Driver for the properties decided by monitors on the mc exploration
(C06, C12, C13, C14, C15, C17c ...): level-synchronised BFS coordinated here,
expansion done by worker processes running the in-package explorer."""
import json, os, subprocess, sys, time
import vlib

MC_BIN = os.path.join(vlib.BUILD, 'mc.test')


def build_mc(rt=False):
    name = 'mcrt' if rt else 'mc'
    ov = vlib.make_overlay(name, harness=['ircserver'], engines=(['rt'] if rt else []), rt=rt)
    out = os.path.join(vlib.BUILD, name + '.test')
    return vlib.build_test('./internal/ircserver', out, ov, tags='verif verifrt' if rt else 'verif')


def reexecute(binary, v, count=5, test='TestVerifMC', fresh_each=False):
    """Replay one violation `count` times from scratch in a fresh process (fresh_each: one process per
    re-execution, for findings that depend on what the process executed before)."""
    sd = vlib.scratch_dir()
    p = os.path.join(sd, 'replay-in.json')
    o = os.path.join(sd, 'replay-out.json')
    json.dump(v, open(p, 'w'))

    def once(n):
        if os.path.exists(o):
            os.remove(o)
        env = dict(os.environ)
        env.update({'VERIF_REPLAY': p, 'VERIF_REPLAY_COUNT': str(n), 'VERIF_OUT': o})
        r = subprocess.run([binary, '-test.run', '^' + test + '$', '-test.timeout', '0'], env=env, cwd=sd,
                           stdout=subprocess.PIPE, stderr=subprocess.STDOUT, text=True)
        if not os.path.exists(o):
            sys.stderr.write(r.stdout[-3000:])
            raise SystemExit('HARNESS-REPLAY-FAILED for %s' % v.get('sig'))
        return json.load(open(o))
    if not fresh_each:
        return once(count)
    out = {'runs': [], 'reproduced': True, 'identical': True}
    for _ in range(count):
        r = once(1)
        out['runs'] += r['runs']
        out['reproduced'] = out['reproduced'] and r['reproduced']
    out['identical'] = all(x == out['runs'][0] for x in out['runs'])
    return out


def run_mc(prop, tier, monitors, assumptions, rule, binary=None, extra_env=None, level='model_checking', pre_violations=(), extra_cov=None, t0=None, deep_quick=4, deep_thorough=5):
    t0 = t0 or time.time()
    binary = binary or build_mc()
    mons = ','.join(monitors)
    # The exploration drives a mirror of the glue of statemachine.go.  Its verdict speaks for the repository only
    # while the two agree: every scenario state x reduced alphabet x entry kinds is applied through both and the
    # states and outputs are compared.  A disagreement is not a verdict about the property (exit 3).
    from checks import c01 as _c01
    glue = vlib.run_workers(_c01.build_glue(), 'TestVerifGlueConformance', vlib.NCPU)
    bad = [v for r in glue for v in (r.get('violations') or []) if v.get('prop') == 'glue']
    if bad:
        raise SystemExit('HARNESS-OUT-OF-DATE: the glue that the exploration drives disagrees with (*FSM).applyRobustMessage of statemachine.go (%s; scenario %s): the exploration would not speak for the repository' % (bad[0].get('desc'), bad[0].get('scenario')))
    extra_cov = dict(extra_cov or {})
    extra_cov['glue_conformance'] = {'histories': sum(r.get('histories', 0) for r in glue), 'entries_compared': sum(r.get('entries_compared', 0) for r in glue)}
    budget = float(os.environ.get('VERIF_BUDGET_S', '240' if tier == 'quick' else '3000'))
    deadline = int(t0 + budget)
    base_env = {'VERIF_MONS': mons, 'VERIF_DEADLINE': str(deadline)}
    base_env.update(extra_env or {})
    sd = vlib.scratch_dir()

    levels = [('full', None)]           # level 1: all scenarios, full alphabet
    if tier == 'quick':
        plan = [('reduced', 1)]         # level 2: mutator successors x reduced alphabet
    else:
        # level 2 with the full alphabet (~8 k entries per state).  A third level is out of reach (the depth-2
        # frontier has millions of states) and emitting that frontier exhausted the memory of the machine, so
        # the thorough tier does not emit it; depth beyond 2 is the business of the deep tier below.
        plan = [('full', 1)]
    all_results = []
    violations = list(pre_violations)
    seen_keys = set()
    frontier = None
    per_level = []
    exhaustive = True
    notes = []

    def run_level(alpha, work, emit):
        env = dict(base_env)
        env['VERIF_ALPHA'] = alpha
        env['VERIF_EMIT'] = '1' if emit else '0'
        n = vlib.NCPU
        pwe = None
        if work is not None:
            n = max(1, min(vlib.NCPU, len(work)))
            run_level.count += 1
            pwe = vlib.shard_work(work, n, 'work-%d' % run_level.count)
        return vlib.run_workers(binary, 'TestVerifMC', n, env=env, per_worker_env=pwe)
    run_level.count = 0

    # level 1
    res = run_level('full', None, True)
    all_results += res
    lvl = 1
    while True:
        nxt = []
        for r in res:
            for k in r.get('keys') or []:
                seen_keys.add(k)
        for r in res:
            for n_ in r.get('next') or []:
                if n_['key'] in seen_keys:
                    continue
                seen_keys.add(n_['key'])
                nxt.append(n_['work'])
            r.pop('next', None); r.pop('keys', None)   # keep the coordinator small
        per_level.append({'level': lvl, 'states': sum(r['states'] for r in res), 'transitions': sum(r['transitions'] for r in res),
                          'new_successor_states': len(nxt)})
        if not plan:
            break
        alpha, _ = plan.pop(0)
        if not nxt:
            break
        if time.time() > deadline:
            exhaustive = False
            notes.append('time budget reached before level %d; %d frontier states not expanded' % (lvl + 1, len(nxt)))
            break
        # deterministic order; VERIF_SEED only rotates the shard assignment
        seed = int(os.environ.get('VERIF_SEED', '0') or 0)
        if seed and nxt:
            k = seed % len(nxt)
            nxt = nxt[k:] + nxt[:k]
        lvl += 1
        res = run_level(alpha, nxt, bool(plan))
        all_results += res

    # ---- deep tier: breadth-first search with the focused mutator alphabet from a few base scenarios,
    # states deduplicated on the time-abstracted canonical key, to depth 3 (quick) / 5 (thorough)
    deep_depth = int(os.environ.get('VERIF_DEEP_DEPTH', deep_quick if tier == 'quick' else deep_thorough))
    deep_levels = []
    deep_seen = set()
    frontier = [{'Scenario': sc} for sc in ('three-users', 'services', 'chan-op-member', 'invite-only')]
    deep_complete = True
    for d in range(1, deep_depth + 1):
        if not frontier:
            break
        if time.time() > deadline:
            deep_complete = False
            notes.append('deep tier: time budget reached before depth %d (%d frontier states not expanded)' % (d, len(frontier)))
            break
        lvl_res = run_level('focused', frontier, d < deep_depth)
        all_results += lvl_res
        nxt = []
        for r in lvl_res:
            for k in r.get('keys') or []:
                deep_seen.add(k)
        for r in lvl_res:
            for n_ in r.get('next') or []:
                if n_['key'] in deep_seen:
                    continue
                deep_seen.add(n_['key'])
                nxt.append(n_['work'])
            r.pop('next', None); r.pop('keys', None)
        deep_levels.append({'depth': d, 'states_expanded': sum(r['states'] for r in lvl_res), 'transitions': sum(r['transitions'] for r in lvl_res), 'new_states': len(nxt)})
        per_level.append({'level': 'deep-%d' % d, 'states': sum(r['states'] for r in lvl_res), 'transitions': sum(r['transitions'] for r in lvl_res), 'new_successor_states': len(nxt)})
        frontier = nxt
    if not deep_complete:
        exhaustive = False

    for r in all_results:
        if not r.get('exhaustive', True):
            exhaustive = False
            if r.get('note'):
                notes.append(r['note'])
        for v in r.get('violations') or []:
            violations.append(v)
    notes = sorted(set(notes))
    for n_ in notes:
        if n_.startswith('HARNESS-OUT-OF-DATE'):
            print(n_)
            raise SystemExit(3)

    # merge by signature, then re-execute every distinct NEW one five times from scratch
    bysig = {}
    for v in violations:
        if v['sig'] in bysig:
            bysig[v['sig']]['count'] += v['count']
        else:
            bysig[v['sig']] = v
    merged = list(bysig.values())
    new, _old = vlib.classify(prop, merged)
    for v in new[:40]:
        if v.get('prop') not in monitors:
            continue  # found by a dedicated deterministic test, not by an mc monitor
        rr = reexecute(binary, v, 5)
        if not rr['identical'] or not rr['reproduced']:
            print('HARNESS-NONDETERMINISM: %s did not reproduce identically in 5 re-executions: %s' % (v['sig'], rr['runs']))
            raise SystemExit(3)

    counters = {}
    for r in all_results:
        for k, c in (r.get('counters') or {}).items():
            counters[k] = counters.get(k, 0) + c
    samples = []
    for r in all_results:
        samples += r.get('samples') or []
    cov = {
        'states': sum(r['states'] for r in all_results),
        'transitions': sum(r['transitions'] for r in all_results),
        'distinct_state_keys': len(seen_keys),
        'mutator_transitions': sum(r['mutators'] for r in all_results),
        'traces_validated_against_impl': sum(r['replays'] for r in all_results),
        'levels': per_level,
        'deep_tier': {'alphabet': 'focused mutator lines (53 client, 12+15n services) + DeleteSession', 'depth': deep_depth, 'levels': deep_levels, 'distinct_states': len(deep_seen), 'complete': deep_complete},
        'counters': counters,
        'samples': samples[:12],
        'exhaustive': exhaustive,
        'notes': notes,
        'rule': rule,
        'bounds': 'deep tier: BFS with the focused alphabet to depth %d from 4 base scenarios; ' % deep_depth + 'scenarios x full alphabet (depth 1), mutator successors x %s alphabet (depth 2)%s' % (
            'reduced' if tier == 'quick' else 'full', ''),
    }
    if extra_cov:
        cov.update(extra_cov)
    vlib.finish(prop, tier, level, cov, merged, t0, assumptions=assumptions)
