import json, os, subprocess, time
import vlib

ASSUME = [
    'peer side (TestVerifC19Status): the measurement model assumes that a peer reads its clock while it serves the request; the real status handler (GET / with Accept: application/json on an in-process node) is asked 22 times back to back and with pauses of 1 ms .. 1.1 s, and CurrentTime must lie between the start and the end of its own request (wall-clock readings of one process)',
    'a measurement is (local Start=T, peer reads its clock T+d1+delta when answering, local End=T+d1+d2); delays are non-negative and the clocks do not step during one measurement',
    'grid bounds: delta in [-4s,+4s] plus +-10s, 1min, 1h, 24h-1s, 24h, 24h+1s, 25h, 72h, 1 year, 45 years; (step 50ms quick / 10ms thorough) plus 0, +-1ns, +-2s, +-2s+-1ns; d1,d2 in {0,1ns,1ms,100ms,999ms,1s,1999ms,2s,3s}; 0..3 peers; '
    'one peer: full grid; two peers: all ordered pairs over the full delay grid x a reduced offset set of 25 values (thorough: the 50ms offset grid); three peers: all ordered triples of a smaller sub-grid (11 offsets quick / 25 thorough x 4 delays each way)',
    'a peer that did not answer is the zero timeResult that collectTime leaves in its slot; the grid tier does not execute the HTTP collection (getServerTime/collectTime), the collection tier does (loopback HTTPS peers)',
    'a peer is "named" by an error when the String() of its measurement occurs in the error text (peers are given distinct local start times so the strings are distinct)',
    'the election timeout of the oracle is the 2s of the property text, not the package constant',
]
RULE = ('exhaustive grid (no sampling): true offset x request delay x response delay per peer, x answering/silent, x 0..3 peers, x -disable_timesafeguard; '
        'measurements are built from the physics and the real synchronizedWithNetwork decides. distinct_nontrivial = number of distinct outcome classes '
        '(#peers, per-peer truth category silent / in sync and provable from the measurement / in sync but not provable / out of sync, decision, set of named peers) '
        'observed with the safeguard enabled and at least one answering peer; evaluations = calls of synchronizedWithNetwork')


def _build():
    ov = vlib.make_overlay('c19', harness=['timesafeguard'])
    return vlib.build_test('./internal/timesafeguard', os.path.join(vlib.BUILD, 'c19.test'), ov)


def prebuild():
    import apidrive
    _build()
    apidrive.build()


def run(tier):
    t0 = time.time()
    binary = _build()
    rs = vlib.run_workers(binary, 'TestVerifC19', vlib.NCPU, env={'VERIF_TIER': tier})
    bysig = {}
    for r in rs:
        for v in r.get('violations') or []:
            if v['sig'] in bysig:
                bysig[v['sig']]['count'] += v.get('count', 1)
            else:
                bysig[v['sig']] = v
    classes, by_peers = {}, {}
    for r in rs:
        for k, c in (r.get('classes') or {}).items():
            classes[k] = classes.get(k, 0) + c
        for k, c in (r.get('by_peers') or {}).items():
            by_peers[k] = by_peers.get(k, 0) + c
    nontrivial = [k for k in classes if 'disabled=false' in k and 'truth=[]' not in k
                  and any(c != 'silent' for c in k.split('truth=[')[1].split(']')[0].split(','))]
    samples, seen = [], set()
    for r in rs:
        for s in r.get('samples') or []:
            kind = s.split(':')[0]
            if kind not in seen:
                seen.add(kind)
                samples.append(s)
    cov = vlib.merge_counts(rs, ['evaluations', 'accepted', 'refused', 'disabled_nil', 'trivial_sync_accepted',
                                 'conservative_refusals', 'boundary_evaluations'])
    cov.update({
        'distinct_nontrivial': len(nontrivial),
        'outcome_classes_total': len(classes),
        'outcome_classes': {k: classes[k] for k in sorted(classes)} if len(classes) <= 400 else len(classes),
        'evaluations_by_peers': by_peers,
        'grid': rs[0].get('grid'),
        'rule': RULE,
        'samples': samples[:16],
        'exhaustive': True,
    })
    # collection tier: the exported entry points against real HTTPS peers on the loopback interface
    rn = vlib.run_workers(binary, 'TestVerifC19Net', 4)
    for r in rn:
        for v in r.get('violations') or []:
            if v['sig'] in bysig:
                bysig[v['sig']]['count'] += v.get('count', 1)
            else:
                bysig[v['sig']] = v
    outcomes = {}
    for r in rn:
        for k, c in (r.get('outcomes') or {}).items():
            outcomes[k] = outcomes.get(k, 0) + c
    cov['collection_tier'] = {'cases': sum(r['cases'] for r in rn), 'refused': sum(r['refused'] for r in rn), 'accepted': sum(r['accepted'] for r in rn),
                              'refusals_of_an_all_good_network': sum(r['refusals_of_an_all_good_network'] for r in rn), 'outcomes': outcomes,
                              'samples': sum([r.get('samples') or [] for r in rn], [])[:3]}
    cov['evaluations'] += cov['collection_tier']['cases']
    # peer side: the real status handler must report a clock reading taken while serving the request
    import apidrive
    rp = vlib.run_workers(apidrive.build(), 'TestVerifC19Status', 1, env={'GOMAXPROCS': '2'})
    for r in rp:
        if r.get('harness_error'):
            print('HARNESS-ERROR: ' + r['harness_error']); raise SystemExit(3)
        for v in r.get('violations') or []:
            if v['sig'] not in bysig:
                bysig[v['sig']] = v
    cov['peer_side'] = {'status_requests': sum(r.get('ops', 0) for r in rp)}
    vlib.finish('C19', tier, 'exploration', cov, list(bysig.values()), t0, assumptions=ASSUME)


def replay(path):
    binary = _build()
    env = dict(os.environ)
    env['VERIF_REPLAY'] = os.path.abspath(path)
    p = subprocess.run([binary, '-test.run', '^TestVerifC19Replay$', '-test.v'], env=env)
    return 1 if p.returncode else 0


MANIFEST = dict(engine='grid', level='exploration',
  technique='bounded-exhaustive grid over clock offset x request/response delay x peers x flag, measurements constructed from the physics, soundness oracle',
  text='The real synchronizedWithNetwork is called on every combination of a grid of true clock offsets (to +-4s, with the exact boundary values around 2s and 0), request and response delays '
       '(0 to 3s), one to three peers each answering or silent, and both settings of -disable_timesafeguard. Each measurement is derived from the true offset and the two delays the way a real '
       'exchange produces it, so the oracle knows the truth: a nil error with the safeguard enabled requires every answering peer to be off by less than 2s; an error must list every answering peer '
       'that is off by 2s or more, at least one peer, and never a silent one; the verdict over several peers must be the combination of the verdicts for each peer alone (silent peers change nothing) '
       'and list exactly the peers refused alone; with the safeguard disabled the result is always nil.',
  note='Refusals of peers that are in fact within 2s are allowed and only counted (the bound of the code, |Result-Start| + round trip, is more conservative than what the measurement proves). '
       'Acceptance of the trivially synchronous case is a non-vacuity counter. The network collection is covered by a second tier: SynchronizedWithNetwork / SynchronizedWithMasterAndNetwork against real HTTPS peers on the loopback interface, all tuples of 1-3 peers over {in sync, 1h ahead, 1h behind, silent} x flag; only "joins although an answering peer is one hour off" and "refuses although disabled" are oracles there. Peer side: CurrentTime of the real status handler must lie inside its request; collection tier with peers in every raft state and a slow answering peer.')
