import json
import vlib, mcdrive
from checks.c06 import replay

ASSUME = [
    'API tier: every line is posted twice through the real handler, once directly and once the way a trusted bridge posts (X-Bridge-Auth with a configured key, X-Forwarded-For)',
    'POST body sanitising is mirrored (cut at first LF) in the state-machine tier; the API tier checks the mirror against the real handler',
    'a prefix is optional but must be well formed when present (ERROR and the server-to-services burst carry none by protocol); relayed client lines are tied to the sender prefix by C12',
    'text alphabet: CR, NUL, LF, 600-byte multi-byte, 520-byte ASCII, colon-leading, in every echoed position',
]
RULE = 'every output message of every transition of the mc exploration: <=510 bytes, no LF/CR/NUL, head = [":" prefix SP] command (letters or 3 digits)'

def prebuild():
    import apidrive
    apidrive.build()

def run(tier):
    import time, apidrive
    t0 = time.time()
    # API tier first: the real POST/DELETE/GET handlers on an in-process node
    binary = apidrive.build()
    ra = vlib.run_workers(binary, 'TestVerifC15Api', vlib.NCPU, env={'GOMAXPROCS': '2'})
    mism = sum([r.get('mirror_mismatches') or [] for r in ra], [])
    viols = sum([r.get('violations') or [] for r in ra], [])
    if mism and not viols:
        print('HARNESS-OUT-OF-DATE: the sanitiser mirror of the state-machine tier disagrees with the real handlers although every delivered line is well formed: %s' % mism[:3])
        raise SystemExit(3)
    extra = {'api_tier': {'posts': sum(r['posts'] for r in ra), 'posts_via_trusted_bridge': sum(r.get('posts_via_trusted_bridge', 0) for r in ra), 'deletes': sum(r['deletes'] for r in ra), 'delivered_lines_checked': sum(r['delivered_lines_checked'] for r in ra),
                          'posts_changed_by_sanitising': sum(r['posts_changed_by_sanitising'] for r in ra), 'mirror_mismatches': len(mism),
                          'samples': sum([r.get('samples') or [] for r in ra], [])[:3]}}
    mcdrive.run_mc('C15', tier, ['C15'], ASSUME, RULE, pre_violations=viols, extra_cov=extra, t0=t0)

MANIFEST = {'engine': 'mc', 'level': 'model_checking', 'technique': 'explicit-state BFS over the real IRCServer; every output line of every transition checked against the RFC 1459 line shape; text alphabet with CR/NUL/LF/long/multibyte in every echoed position', 'text': 'Every message produced by every transition of the bounded exploration must be <=510 bytes, free of LF/CR/NUL and start with an optional well-formed prefix and a command. The POST/DELETE sanitising is mirrored in the harness and tied to the real handlers by the API tier.', 'note': 'Same bounds as C06. Prefix-less ERROR and server-to-services burst lines are accepted (protocol); sender prefix identity is C12.'}
