import json, os
import vlib, apidrive

ASSUME = [
    'non-leader tier (TestVerifC10Follower): a node that is not the leader and knows no leader (raft states Follower and Candidate) has applied a log; the retry of every session\'s last message is answered 200 by that node from its own marker and nothing is appended',
    'single-node network in-process: real hashicorp/raft (in-memory transport), real FSM, real LevelDB raftlog/irclog, FileSnapshotStore, real api.HTTP handlers via httptest',
    'the retry arrives after the first copy has been applied on the node that handles it (property wording); client message ids are non-zero and distinct per message',
    'a replica fed by the log = the node restarted (replays the durable log); a replica fed by a snapshot = forced raft snapshot followed by a restart',
    'message of death: an entry of type MessageOfDeath carrying the client message id reaches the FSM (what a replay of a marked entry looks like)',
]
RULE = 'second pass over {pingA (a PING line), junkA (a prefix without a command), pastA (a message stamped 1.5 s before the session\'s last activity), retryA, deathA, snapshot, foldsnapshot, restart}; all sequences of the given depth over {postA, retryA,  postB, retryB, postS, retryS (S = a services link whose lines carry a prefix), deathA, snapshot, foldsnapshot (compaction time far in the future: every entry is folded into the snapshot state), restart}; oracle after every operation (log entries per client message id == 1, marker == last id, retry answered 200) and delivery exactly once in post order at the end'

def prebuild():
    apidrive.build()

def run(tier):
    os.environ.setdefault('VERIF_BUDGET_S', '300' if tier == 'quick' else '3000')  # a cap that is hit ends the run with exhaustive:false, exit 0
    # upgrade path: a network that started with the legacy JSON encoding and is restarted with protobuf (the stores
    # are converted when they are opened), one operation shallower
    variants = [('json store converted to protobuf at the first restart', {'VERIF_ENCODING': 'json-upgrade', 'VERIF_DEPTH': '3'}), ('kinds of last message', {'VERIF_C10_ALPHA': 'kinds'}), ('', {})]
    if tier == 'thorough':
        # the legacy JSON encoding (messages, store values, snapshots) at the quick depth, then protobuf one deeper
        variants = [('json encoding', {'VERIF_ENCODING': 'json', 'VERIF_DEPTH': '4'}), ('json store converted to protobuf at the first restart', {'VERIF_ENCODING': 'json-upgrade', 'VERIF_DEPTH': '4'}), ('', {})]
    # a retry that reaches a non-leader node which knows no leader (both raft states): answered from the node's own marker
    binary = apidrive.build()
    rf = vlib.run_workers(binary, 'TestVerifC10Follower', 1, env={'GOMAXPROCS': '2'})
    apidrive.run_seq('C10', tier, 'TestVerifC10', ASSUME, RULE, variants=variants, pre_results=rf)

def replay(path):
    import subprocess
    b = apidrive.build(); sd = vlib.scratch_dir(); o = os.path.join(sd, 'c10r.json')
    env = dict(os.environ); env.update({'VERIF_REPLAY': path, 'VERIF_OUT': o, 'TMPDIR': sd})
    subprocess.run([b, '-test.run', '^TestVerifC10$', '-test.timeout', '0'], env=env, cwd=sd)
    r = json.load(open(o)); print(json.dumps(r.get('violations')))
    if r.get('violations'):
        print('VIOLATION property=C10 replay=%s' % path); return 1
    return 0

MANIFEST = dict(engine='api-seq', level='model_checking',
  technique='exhaustive enumeration of operation sequences (depth 4/5) against the real HTTP handlers on an in-process single-node raft network, oracle on the durable log, the duplicate-detection marker and the delivered streams',
  text='Every sequence of posts, retries with the same client message id, traffic of another session, message-of-death entries, forced snapshots and restarts up to the depth bound is executed on real raft + real handlers; after every operation each client message id must occur exactly once in the durable log and the marker must equal the last id, every retry must be answered 200, and at the end every message must have been delivered exactly once in post order.',
  note='Single node (leader) only; fail-over to another replica is modelled by restart (log replay) and snapshot+restart. hashicorp/raft trusted.')
