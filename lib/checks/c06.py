import json, os, sys
import vlib, mcdrive

ASSUME = [
    'bounds: <=3 client sessions + <=2 services links, alphabet of DESIGN.md 1.2 (all valid UTF-8), histories = scenario prefix + <=2 (quick) / <=3 (thorough) further entries',
    'services links send only protocol-conforming lines (prefixed, anope parameter counts)',
    'glue mirror VerifApply == (*FSM).applyRobustMessage (checked by the C01 conformance tier); in addition every scenario state x the reduced alphabet and the non-line entries (DeleteSession of unknown / ended sessions, Config, messages of death ...) go through the real applyRobustMessage of statemachine.go under recover()',
]
RULE = ('every reachable state of the scenario/BFS exploration x every alphabet line x every live session (plus non-line entries); '
        'oracle: recover() around the real ProcessMessage glue; a transition is non-trivial when it changed the state (mutator)')

def prebuild():
    from checks import c01
    mcdrive.build_mc()
    c01.build_glue()

def run(tier):
    import time
    from checks import c01
    t0 = time.time()
    # the real glue of statemachine.go (the exploration below drives a mirror of it): every scenario state x the
    # reduced alphabet and the non-line entries through (*FSM).applyRobustMessage, recover() around it
    glue = vlib.run_workers(c01.build_glue(), 'TestVerifGlueConformance', vlib.NCPU, env={'VERIF_GLUE_PROP': 'C06'})
    viols = [v for r in glue for v in (r.get('violations') or []) if v.get('prop') == 'C06glue']
    extra = {'real_glue': {'histories': sum(r.get('histories', 0) for r in glue), 'entries_applied': sum(r.get('entries_compared', 0) for r in glue)}}
    mcdrive.run_mc('C06', tier, ['C06'], ASSUME, RULE, pre_violations=viols, extra_cov=extra, t0=t0)

def replay(path):
    v = json.load(open(path))
    binary = mcdrive.build_mc()
    rr = mcdrive.reexecute(binary, v, 1)
    print(json.dumps(rr))
    if rr['reproduced']:
        print('VIOLATION property=%s replay=%s' % (v.get('prop'), path))
        return 1
    return 0

MANIFEST = {'engine': 'mc', 'level': 'model_checking', 'technique': 'explicit-state BFS over the real IRCServer (scenario fan-out, all lines x all sessions, depth 2/3) with a recover() oracle on every transition', 'text': 'Every reachable state of a bounded exploration (31 scripted scenarios + BFS successors) x every alphabet line x every live session is executed on the real ProcessMessage glue; any panic is a violation with a replayable history. Exhaustive within the stated alphabet and depth; no sampling.', 'note': 'Bounds: <=3 clients + <=2 services links, alphabet of DESIGN.md 1.2, depth = scenario prefix + 2 (quick) / 3 (thorough). Trusted: glue mirror equals statemachine.go (checked by conformance test), Go runtime. Every transition is also applied to a twin that went through Marshal/Unmarshal, and every scenario state x reduced alphabet and non-line entries go through the real applyRobustMessage of statemachine.go.'}
