import json, os, sys
import vlib, mcdrive

ASSUME = [
    'bounds: <=3 client sessions + <=2 services links, alphabet of DESIGN.md 1.2 (all valid UTF-8), histories = scenario prefix + <=2 (quick) / <=3 (thorough) further entries',
    'services links send only protocol-conforming lines (prefixed, anope parameter counts)',
    'glue mirror VerifApply == (*FSM).applyRobustMessage (checked by the C01 conformance tier)',
]
RULE = ('every reachable state of the scenario/BFS exploration x every alphabet line x every live session (plus non-line entries); '
        'oracle: recover() around the real ProcessMessage glue; a transition is non-trivial when it changed the state (mutator)')

def run(tier):
    mcdrive.run_mc('C06', tier, ['C06'], ASSUME, RULE)

def replay(path):
    v = json.load(open(path))
    binary = mcdrive.build_mc()
    rr = mcdrive.reexecute(binary, v, 1)
    print(json.dumps(rr))
    if rr['reproduced']:
        print('VIOLATION property=%s replay=%s' % (v.get('prop'), path))
        return 1
    return 0

MANIFEST = {'engine': 'mc', 'level': 'model_checking', 'technique': 'explicit-state BFS over the real IRCServer (scenario fan-out, all lines x all sessions, depth 2/3) with a recover() oracle on every transition', 'text': 'Every reachable state of a bounded exploration (31 scripted scenarios + BFS successors) x every alphabet line x every live session is executed on the real ProcessMessage glue; any panic is a violation with a replayable history. Exhaustive within the stated alphabet and depth; no sampling.', 'note': 'Bounds: <=3 clients + <=2 services links, alphabet of DESIGN.md 1.2, depth = scenario prefix + 2 (quick) / 3 (thorough). Trusted: glue mirror equals statemachine.go (checked by conformance test), Go runtime.'}
