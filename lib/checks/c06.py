import json, os, sys
import vlib, mcdrive

ASSUME = [
    'bounds: <=3 client sessions + <=2 services links, alphabet of DESIGN.md 1.2 (all valid UTF-8), histories = scenario prefix + <=2 (quick) / <=3 (thorough) further entries',
    'services links send only protocol-conforming lines (prefixed, anope parameter counts)',
    'glue mirror VerifApply == (*FSM).applyRobustMessage (checked by the C01 conformance tier)',
]
RULE = ('every reachable state of the scenario/BFS exploration x every alphabet line x every live session (plus non-line entries); '
        'oracle: recover() around the real ProcessMessage glue; a transition is non-trivial when it changed the state (mutator)')

def run(tier):
    mcdrive.run_mc('C06', tier, ['C06'], ASSUME, RULE)

def replay(path):
    v = json.load(open(path))
    binary = mcdrive.build_mc()
    rr = mcdrive.reexecute(binary, v, 1)
    print(json.dumps(rr))
    if rr['reproduced']:
        print('VIOLATION property=%s replay=%s' % (v.get('prop'), path))
        return 1
    return 0
