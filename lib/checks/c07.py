import json, os
import vlib, apidrive

ASSUME = [
    'the crash is injected with the test-only PANIC command in child processes (the test binary re-executed with ROBUSTIRC_TESTING_ENABLE_PANIC_COMMAND=1); real FSM.Apply, real raftlog/irclog LevelDB stores, real output stream, FileSnapshotStore',
    'raft driver model: entries are stored in the raft log before they are applied; a restart restores the newest snapshot (if any) and applies every entry of the durable log above its index',
    'histories x every position x every session role present at that position (registered, operator; unregistered and services as negative cases) x encoding (protobuf, JSON) x snapshot placement (none, before the crash, after the restart without folding anything, after the restart folding the whole log including the marked entry)',
]
RULE = ('cases = history x crash position x role x encoding x client message id (above or below every earlier id of the session) x snapshot placement; per case up to three child processes (crash run, restart, second restart); '
        'oracle: exit status, durable raft log (only the crashing entry changed, to type message-of-death, identity preserved), state/outputs/marker after each restart == replay that skips exactly that entry, a further entry applies normally')

def prebuild():
    apidrive.build()

def run(tier):
    apidrive.run_seq('C07', tier, 'TestVerifC07', ASSUME, RULE, level='fault_enumeration',
                     extra_cov=None)

def replay(path):
    print('re-run bin/check C07 (cases are enumerated deterministically)'); return 0

MANIFEST = dict(engine='child-process grid', level='fault_enumeration',
  technique='exhaustive enumeration of crash points: histories x position and role of the panicking entry x encoding x snapshot placement, each executed in child processes on the real FSM and stores, followed by restart children; differential oracle against a replay that skips exactly that entry',
  text='Every position and session role of a PANIC entry in several histories, in both encodings and with a snapshot before the crash / after the restart / not at all, is executed in a child process through the real FSM.Apply; the parent checks that the child died, that exactly that entry became a message of death in the durable raft log with its identity intact, and that two successive restart children (log replay, snapshot restore) neither crash nor deviate from a replay that only advances the duplicate-detection marker for that entry.',
  note='raft itself is replaced by a small driver (store-then-apply, restore newest snapshot + tail); glog.Fatalf terminates the child like it terminates a node.')
