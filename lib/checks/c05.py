import json, os
import vlib, apidrive

ASSUME = [
    'tier 2 (this check): a real single-node network (real hashicorp/raft with in-memory transport, real FSM, real LevelDB raftlog/irclog, FileSnapshotStore, real HTTP handlers) runs in a child process; SIGKILL is delivered between operations and, for the post-then-kill operation, while a POST is in flight',
    'a POST that was not answered before the kill is unacknowledged: it may be part of the history or not, but never twice; the bridge retries with the same client message id',
    '"all nodes deliver the same sequence" is checked as: the stream served after a fault extends the stream served before it (the node before and after the crash are two servers of the same log)',
    'NOT covered (stated limit of this family): a three-node network of real binaries (real time, TLS listeners, election timing) cannot be enumerated exhaustively; raft consensus (leader election, log matching) is trusted; leader fail-over is represented by restart = replay of the durable log / snapshot restore, as in C10',
]
RULE = ('all sequences of the given depth over {postA, postB, retryA, snapshot, SIGKILL+restart, graceful restart, post-then-SIGKILL}; after every operation both sessions read their whole stream through the real GET handler: '
        'acknowledged messages exactly once in post order, unacknowledged at most once, stream after a fault extends the stream before; at the end no client message id twice in the durable log')

def prebuild():
    apidrive.build()

def run(tier):
    apidrive.run_seq('C05', tier, 'TestVerifC05', ASSUME, RULE, level='fault_enumeration')

def replay(path):
    import subprocess
    b = apidrive.build(); sd = vlib.scratch_dir(); o = os.path.join(sd, 'c05r.json')
    env = dict(os.environ); env.update({'VERIF_REPLAY': path, 'VERIF_OUT': o, 'TMPDIR': sd})
    subprocess.run([b, '-test.run', '^TestVerifC05$', '-test.timeout', '0'], env=env, cwd=sd, stdout=subprocess.DEVNULL, stderr=subprocess.DEVNULL)
    r = json.load(open(o)); print(json.dumps(r.get('violations')))
    if r.get('violations'):
        print('VIOLATION property=C05 replay=%s' % path); return 1
    return 0

MANIFEST = dict(engine='api-seq + child processes', level='fault_enumeration',
  technique='exhaustive enumeration of fault/operation sequences (depth 4/5) against a real single-node network running in a child process that is SIGKILLed and restarted; oracle on the streams served by the real GET handler before and after every fault',
  text='Every sequence of posts, retries, forced snapshots, SIGKILL+restart, graceful restart and post-then-SIGKILL up to the depth bound is executed against real raft + real stores + real handlers in a child process; after every operation every session reads its complete stream: acknowledged messages exactly once and in post order, unacknowledged at most once, and the stream after a fault must extend the stream served before it.',
  note='Single node; the multi-process three-node part of the property is outside what bounded exhaustive exploration can decide and is stated as not covered; raft consensus trusted.')
