import json, os, sys
import vlib, apidrive

ASSUME = [
    'single-node tier: every sequence starts on a network that has been running for a while: after the setup (configuration, three sessions, joins) a snapshot that folds everything is taken and the node is restarted, so that configuration and sessions live in the snapshot state and not in the log',
    'single-node tier: the forced snapshots are taken "20 minutes later" (compaction time = now + 20 min, flag -canary_compaction_start): with the configured session expiration of 30 minutes nothing is old enough to be folded, so every acknowledged message must still be served afterwards; a node whose compaction horizon fell back to the default would drop them',
    'tier 2 (this check): a real single-node network (real hashicorp/raft with in-memory transport, real FSM, real LevelDB raftlog/irclog, FileSnapshotStore, real HTTP handlers) runs in a child process; SIGKILL is delivered between operations and, for the post-then-kill operation, while a POST is in flight',
    'a POST that was not answered before the kill is unacknowledged: it may be part of the history or not, but never twice; the bridge retries with the same client message id',
    '"all nodes deliver the same sequence" is checked as: the stream served after a fault extends the stream served before it (the node before and after the crash are two servers of the same log)',
    'fresh-network tier (TestVerifC05Fresh): a brand-new network without any history: all sequences of the same depth over {POST /session, POST /config, snapshot, snapshot+graceful restart as one step, SIGKILL+restart, graceful restart}, in the quick tier in both encodings (protobuf and legacy JSON); every acknowledged session must still exist and the acknowledged config revision must be in force after every operation, and the newest session posts at the end (short histories: the snapshot sees zero, one or two entries); a further pass over {POST /session, POST /config, SIGKILL between FSM.Snapshot and Persist of a snapshot that folds every entry but the newest, snapshot+restart, SIGKILL+restart}',
    'network tier (TestVerifC05Net, harness/localnet): three REAL robustirc binaries started by the repository\'s own launcher (internal/localnet: TLS listeners, rafthttp transport, main()\'s bootstrap and join code, real timers) on loopback; all sequences of depth 2 (quick) / 3 (thorough) over {post, retry, SIGKILL leader, SIGKILL leader and post at once (the followers still proxy to the dead leader), SIGKILL a follower, restart the dead nodes, forced snapshot on every node, SIGKILL all + restart all}, each framed by a post before and after; after every operation EVERY live node serves the reader\'s complete stream up to a marker: acknowledged messages exactly once in post order, the same sequence on all nodes, each node\'s stream extends what it served before',
    'network tier, quorum loss (TestVerifC05NetQuorum): both followers are killed, a POST and -- while it is pending -- its retry are sent to the leader that cannot commit, the leader is killed, the followers return, elect a leader and commit, the old leader returns and its uncommitted entry is overwritten: whatever was answered with success must be served by every node afterwards, nothing twice',
    'limit of the network tier: fault SEQUENCES are enumerated exhaustively, the timing inside an operation (which instant of an election or replication a kill hits) is whatever the run produces, not enumerated; at most one node is dead at a time (except crash-all); raft consensus itself is trusted; a wait that exceeds its bound (60-90 s) makes the run inconclusive (exhaustive:false, exit 0), never a violation',
]
RULE = ('single-node tier: all sequences of the given depth over {postA, postB, retryA, snapshot, snapshot with a JOIN/PART of A posted between FSM.Snapshot and Persist (Persist is held back by a wrapper around the FSM handed to raft), SIGKILL+restart, graceful restart, post-then-SIGKILL}; after every operation both sessions read their whole stream through the real GET handler: '
        'acknowledged messages exactly once in post order, unacknowledged at most once, stream after a fault extends the stream before; at the end no client message id twice in the durable log')

def build_net():
    """The network tier runs the repository's own launcher (internal/localnet) against a real robustirc binary."""
    import subprocess
    ov = vlib.make_overlay('c05net', harness=['localnet'])
    tb = vlib.build_test('./internal/localnet', os.path.join(vlib.BUILD, 'c05net.test'), ov)
    bindir = os.path.join(vlib.BUILD, 'bin')
    os.makedirs(bindir, exist_ok=True)
    p = subprocess.run(['go', 'build', '-o', os.path.join(bindir, 'robustirc'), '.'], cwd=vlib.REPO, env=vlib.GOENV, stdout=subprocess.PIPE, stderr=subprocess.STDOUT, text=True)
    if p.returncode != 0:
        sys.stderr.write(p.stdout)
        raise SystemExit('HARNESS-BUILD-FAILED: go build of the robustirc binary (exit %d)' % p.returncode)
    return tb, bindir

def prebuild():
    apidrive.build()
    build_net()

def run(tier):
    import time
    t0 = time.time()
    # child processes: give the tiers room on a loaded machine (a cap that is hit ends the run with exhaustive:false, exit 0)
    os.environ.setdefault('VERIF_BUDGET_S', '420' if tier == 'quick' else '3600')
    budget = float(os.environ['VERIF_BUDGET_S'])
    # network tier: three real binaries per sequence; mostly waiting (elections), so more workers than cores are fine
    tb, bindir = build_net()
    env = {'VERIF_TIER': tier, 'PATH': bindir + os.pathsep + os.environ.get('PATH', ''), 'VERIF_DEADLINE': str(int(t0 + budget * 0.6)), 'GOMAXPROCS': '2'}
    try:
        rn = vlib.run_workers(tb, 'TestVerifC05Net', 24, env=env)
        rn += vlib.run_workers(tb, 'TestVerifC05NetQuorum', 1, env=env)
    finally:
        # the servers run in their own process groups: make sure none outlives a worker that died
        import subprocess
        subprocess.run(['pkill', '-9', '-f', 'robustirc .*-raftdir=' + vlib.scratch_dir()], stdout=subprocess.DEVNULL, stderr=subprocess.DEVNULL)
    net = {'sequences': sum(r.get('sequences', 0) for r in rn), 'operations': sum(r.get('ops', 0) for r in rn), 'depth': rn[0].get('depth'),
           'sigkills': sum(r.get('kills', 0) for r in rn), 'restarts': sum(r.get('restarts', 0) for r in rn), 'snapshots': sum(r.get('snapshots', 0) for r in rn),
           'leader_changes': sum(r.get('leader_changes', 0) for r in rn), 'streams_read': sum(r.get('streams_read', 0) for r in rn),
           'inconclusive': sorted(set(r['harness_error'] for r in rn if r.get('harness_error')))[:3]}
    variants = None
    if tier == 'thorough':
        # single-node tiers once more with the legacy JSON encoding (messages, store values, snapshots) at the quick depth
        variants = [('json encoding', {'VERIF_ENCODING': 'json'}), ('', {})]
    # the fresh-network tier also with the legacy JSON encoding (messages, store values, snapshots) in the quick tier
    binary = apidrive.build()
    ej = {'VERIF_TIER': tier, 'VERIF_ENCODING': 'json', 'VERIF_DEADLINE': str(int(t0 + budget)), 'GOMAXPROCS': '2'}
    rj = vlib.run_workers(binary, 'TestVerifC05Fresh', vlib.NCPU, env=ej) if tier == 'quick' else []
    for r in rj:
        for v in r.get('violations') or []:
            v['sig'] += ' [json encoding]'
    # the fresh-network tier with a SIGKILL in the window between FSM.Snapshot and Persist of a compacting snapshot
    ew = {'VERIF_TIER': tier, 'VERIF_C05_ALPHA': 'window', 'VERIF_DEADLINE': str(int(t0 + budget)), 'GOMAXPROCS': '2'}
    rw = vlib.run_workers(binary, 'TestVerifC05Fresh', vlib.NCPU, env=ew)
    rj = rj + rw
    apidrive.run_seq('C05', tier, ['TestVerifC05', 'TestVerifC05Fresh'], ASSUME, RULE, level='fault_enumeration', pre_results=rn + rj, extra_cov={'network_tier': net, 'fresh_tier_json_encoding_sequences': sum(r.get('sequences', 0) for r in rj) - sum(r.get('sequences', 0) for r in rw), 'fresh_tier_kill_in_snapshot_window_sequences': sum(r.get('sequences', 0) for r in rw), 'kills_between_snapshot_and_persist': sum((r.get('end_states') or {}).get('(kills between FSM.Snapshot and Persist)', 0) for r in rw)}, t0=t0, variants=variants)

def replay(path):
    import subprocess
    b = apidrive.build(); sd = vlib.scratch_dir(); o = os.path.join(sd, 'c05r.json')
    env = dict(os.environ); env.update({'VERIF_REPLAY': path, 'VERIF_OUT': o, 'TMPDIR': sd})
    subprocess.run([b, '-test.run', '^TestVerifC05Fresh$' if (json.load(open(path)).get('seq') or [''])[0] == 'fresh' else '^TestVerifC05$', '-test.timeout', '0'], env=env, cwd=sd, stdout=subprocess.DEVNULL, stderr=subprocess.DEVNULL)
    r = json.load(open(o)); print(json.dumps(r.get('violations')))
    if r.get('violations'):
        print('VIOLATION property=C05 replay=%s' % path); return 1
    return 0

MANIFEST = dict(engine='api-seq + child processes + network of real binaries', level='fault_enumeration',
  technique='exhaustive enumeration of fault/operation sequences: (1) depth 4/5 against a real single-node network in a child process that is SIGKILLed and restarted, (2) depth 4/5 on a brand-new network (first session/config, snapshot, kill), (3) depth 2/3 against a three-node network of real robustirc binaries (SIGKILL leader/follower/all, restart, forced snapshots); oracle on the streams served by the real GET handler of every live node after every operation',
  text='Every sequence of posts, retries, forced snapshots, SIGKILL+restart, graceful restart and post-then-SIGKILL up to the depth bound is executed against real raft + real stores + real handlers in a child process; every sequence of leader/follower/all-node SIGKILLs, restarts, snapshots, posts and retries up to the bound is executed against three real binaries on loopback. After every operation every session reads its complete stream (from every live node): acknowledged messages exactly once and in post order, unacknowledged at most once, the same sequence on all nodes, and the stream after a fault must extend the stream served before it.',
  note='In the three-node tier the fault sequences are enumerated, the timing inside an operation (where in an election or replication a kill lands) is not; raft consensus trusted; waits that exceed their bound make the run inconclusive (exhaustive:false), never a violation. Fresh-network tier also with a SIGKILL between FSM.Snapshot and Persist; the single-node histories contain entries whose effect depends on the time between entries (SVSHOLD of 1 ms).')
