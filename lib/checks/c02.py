import json, os
import vlib, apidrive

ASSUME = [
    'encodings: protobuf everywhere; the legacy JSON encoding for all logs in the thorough tier and for the logs old-new and gaps in the quick tier',
    'macro schedules (TestVerifC02Macro): the same operations with the usual combinations as single steps (A = apply next chunk, A+P = apply then snapshot+persist, A+F = apply then snapshot whose persist fails, P, F, R = restore newest snapshot on the live FSM + tail, X = restart), all enabled schedules of length 5 (6) on the logs all-old and gaps (thorough: all logs)',
    'two-node tier (TestVerifC02Cluster): leader and follower with their own directories and FSMs (package globals switched per node), one committed log; the follower may lag, install the snapshot the LEADER persisted (FSM.Restore of a foreign snapshot) and continue with the tail, snapshot and restart itself; schedules of length 5 (7); each node vs its own twin, and both nodes must serve equal output for inputs both retain; rolling-upgrade variant (logs all-old and old-new, thorough: all): the leader runs with the protobuf encoding, the follower with the legacy JSON encoding, all schedules of length 6 (8) in which the follower installs the leader\'s snapshot and performs at least two more operations',
    'real FSM.Apply/Snapshot/Restore, robustSnapshot.Persist, LevelDB irclog, output stream and raft FileSnapshotStore; the raft driver (which index a snapshot gets, which entries are replayed after a restore/restart) is a 40-line model: restore the newest snapshot, then apply every entry above its index',
    'logs: 12 (thorough 14) logs of 2-5 chunks with index gaps (raft-internal entries) and age patterns all-old / old-new / old-new-old / all-new / exactly one too-new last entry / a marked message of death as the last message of its session / a ban on a session host (stored as two patterns) / a PING from a stale unregistered session (which closes it) / a services link with a pseudo-client that acts after it was folded; the compaction time is chosen per age class (inclusive), "nothing old", and one time that puts the newest chunk between 10 min and the configured 30 min expiration',
    'the compaction horizon of the oracle is the configured session expiration (from the twin) + 10 s',
    'operations: apply next chunk, Snapshot(compaction time), Persist ok, Persist failing at the 0th / 2nd sink write, restore newest snapshot on the live FSM + tail, restart (fresh FSM and globals on the same directory, restore newest snapshot + tail); a kill is modelled between operations',
    'twin: glue mirror on a plain IRCServer that never snapshots (mirror validated against statemachine.go in C01)',
]
RULE = ('all enabled schedules of the given length per log; after every operation: canonical state == twin, dropped log-copy entries form a prefix and are not newer than the horizon, retained entries byte-identical, '
        'output store has exactly the retained inputs with the twin replies, FirstIndex/LastIndex consistent; distinct end states = (log, applied, retained, snapshots persisted)')

def prebuild():
    apidrive.build()

def run(tier):
    os.environ.setdefault('VERIF_BUDGET_S', '300' if tier == 'quick' else '2400')  # a cap that is hit ends the run with exhaustive:false, exit 0
    apidrive.run_seq('C02', tier, ['TestVerifC02', 'TestVerifC02Cluster', 'TestVerifC02Macro'], ASSUME, RULE)

def replay(path):
    import subprocess
    b = apidrive.build(); sd = vlib.scratch_dir(); o = os.path.join(sd, 'c02r.json')
    env = dict(os.environ); env.update({'VERIF_REPLAY': path, 'VERIF_OUT': o, 'TMPDIR': sd, 'VERIF_DEPTH': '99'})
    subprocess.run([b, '-test.run', '^TestVerifC02$', '-test.timeout', '0'], env=env, cwd=sd, stdout=subprocess.DEVNULL, stderr=subprocess.DEVNULL)
    r = json.load(open(o)); print(json.dumps(r.get('violations')))
    if r.get('violations'):
        print('VIOLATION property=C02 replay=%s' % path); return 1
    return 0

MANIFEST = dict(engine='fsm-seq', level='model_checking',
  technique='exhaustive enumeration of Apply/Snapshot/Persist(fail)/Restore/restart schedules (length 5/6) of fixed logs on the real FSM with real stores, differential oracle against a twin that never snapshots',
  text='For each of several logs (index gaps, old/new timestamp patterns) every enabled schedule of applies, snapshots at chosen compaction times, persists (successful and failing), restores and restarts up to the length bound runs on the real FSM, LevelDB stores, output stream and FileSnapshotStore; after every operation the state, the log copy, the output store and the index accessors are compared with a never-snapshotted twin and with the compaction horizon.',
  note='raft calling order modelled (validated against real raft by the API-tier checks that snapshot and restart a real node); kills only between operations (Restore wipes the log copy, so partial compaction is repaired by the next restore); hashicorp/raft and goleveldb trusted. Length sweep: 4..260 (thorough 520) old entries in front of one recent entry, snapshot+persist, restart.')
