"""C18: every writer/reader pair of the on-disk and on-wire formats round-trips.

Four in-package test binaries (robust, raftstore, outputstream, main), each enumerating a full
cartesian value grid (no sampling), sharded over the cores:
  message  TestVerifC18Message  robust.Message  <-> 'p'+protobuf (ProtoMessage / CopyToProtoMessage) and JSON
  store    TestVerifC18Store    raft.Log        <-> LevelDB store values (JSON / protobuf / StoreLogProto / ConvertToProto)
  fsm      TestVerifC18FSM      FSM.Apply -> irclog -> {GetLog, raftlog.FromBytes, text-log dump, Snapshot, Persist+Restore}
  batch    TestVerifC18Batch    output batches  <-> messageBatch codec and OutputStream Add/Get
"""
import json, os, time
import vlib

PARTS = [
    # (key, harness dir, go package, test function); codec-level parts first
    ('message', 'robust', './internal/robust', 'TestVerifC18Message'),
    ('batch', 'outputstream', './internal/outputstream', 'TestVerifC18Batch'),
    ('store', 'raftstore', './internal/raftstore', 'TestVerifC18Store'),
    ('fsm', 'main', '.', 'TestVerifC18FSM'),
]

ASSUME = [
    'size sweep (TestVerifC18Sizes): 1301 client messages whose texts grow one byte at a time (stored entries of every size from about 90 to 1500 bytes), all retained, go through FSM.Apply -> Snapshot -> Persist -> Restore in both encodings; every one must be in the restored log copy with the payload it was stored with',
    'node tier (TestVerifC18Cache): twelve messages of alternating lengths are posted through the real handler of an in-process node (protobuf and JSON); after every one, every earlier entry is read through the durable log store and through raft\'s log cache in front of it (from which lagging followers are served): same bytes, and both decode to the message that was posted',
    'messages: the 9 declared robust.Type values, valid UTF-8 text only (protobuf string fields and JSON are not defined on other bytes); InterestingFor is not part of either encoding; '
    'robust.MessageOffset is 0 in the test binary (the offset is applied by the caller through IdFromRaftIndex, not by the decoder)',
    'raft entries, store level: all readers below package main (GetLog into a fresh and a reused raft.Log, raftlog.FromBytes on the bulk-iterator value); ConvertToProto is exercised on stores written '
    'entirely by a JSON store (its early return on a store that already starts with converted commands is not part of this property); commands with an empty payload are excluded from ConvertToProto (it decodes the message)',
    'raft entries, package main: written by the real (*FSM).Apply; only LogCommand entries with a decodable message payload (Apply never stores other types, Snapshot and the dump reject them); '
    'type State is excluded (Restore treats it as the snapshot state by design)',
    'the decoding loop of (*FSM).Snapshot only uses Type, Data and Index of an entry: it is observed through the compaction decision (timestamp = UnixNano, else id, else index) and the sessions that compacted '
    'CreateSession entries leave in the snapshot state; Term/Extensions/AppendedAt are observed through Persist+Restore; the entries that Restore writes (verbatim for a protobuf snapshot, also on a node running with the JSON encoding: rolling upgrade) are read again by a second Snapshot that folds everything old enough. The compaction cut is pinned with the repository flag -canary_compaction_start (no wall clock in any expected value)',
    'text-log dump: dumpLogToDisk1 is called in-process on the real store and output stream; only IRCFromClient entries and their replies produce rows; rows are read back with encoding/csv (texts containing CR are not used there because CSV readers normalise CRLF)',
    'output batches: a recipient set is the set of keys mapped to true (ircserver never stores false); batches with 0 messages and batch id 0 go through the codec only (Add indexes msgs[0]; id 0 is the sentinel batch of the stream); '
    'NextID on the Add/Get path is owned by the stream and checked on the predecessor batch',
    'each package is built with only this check\'s harness file mounted (other checks keep harness files in the same directories that need a different overlay); LevelDB, protobuf, encoding/json and encoding/csv are trusted',
]

RULE = ('bounded-exhaustive: every point of the cartesian product of the value sets listed in coverage.parts.*.dims is executed (contiguous shards, no sampling). '
        'evaluations = number of individual comparisons (one decoded value / one read entry / one CSV row / one compaction decision against its expected value). '
        'distinct_nontrivial = number of distinct encoded artefacts with content, measured by SHA-1 inside every worker and summed over the disjoint shards: '
        'distinct \'p\'+protobuf encodings of messages with at least one non-default field + distinct stored raft-log values with a non-empty payload (store and fsm parts) + distinct output batches (canonical form) with >=1 message')


def _overlay(key, hdir):
    """Mount only harness/<hdir>/c18_test.go (see the last assumption)."""
    dst = os.path.normpath(os.path.join(vlib.REPO, vlib.HARNESS_PKGS[hdir], 'zz_verif_c18_test.go'))
    return vlib.make_overlay('c18' + key, extra={dst: os.path.join(vlib.VERIF, 'harness', hdir, 'c18_test.go')})


def _build(key, hdir, pkg):
    return vlib.build_test(pkg, os.path.join(vlib.BUILD, 'c18%s.test' % key), _overlay(key, hdir))


def prebuild():
    import apidrive
    for key, hdir, pkg, _ in PARTS:
        _build(key, hdir, pkg)
    apidrive.build()


COUNT_KEYS = {
    'message': ['messages', 'id_defaulted'],
    'store': ['entries_written', 'reads_compared', 'entries_converted'],
    'fsm': ['rounds', 'entries_applied', 'store_reads_compared', 'dump_rows_compared', 'snapshot_entries_compacted',
            'snapshot_entries_retained', 'restored_entries_compared', 'sessions_checked'],
    'batch': ['batches', 'codec_roundtrips', 'stream_roundtrips'],
}


def run(tier):
    t0 = time.time()
    only = [p for p in os.environ.get('VERIF_C18_PARTS', '').split(',') if p]
    bysig = {}
    parts = {}
    samples = []
    evaluations = 0
    distinct = 0
    failures = []
    for key, hdir, pkg, test in PARTS:
        if only and key not in only:
            continue
        binary = _build(key, hdir, pkg)
        tp = time.time()
        try:
            rs = vlib.run_workers(binary, test, vlib.NCPU, env={'VERIF_TIER': tier})
        except SystemExit as ex:
            # a worker died (e.g. the unchecked decoders of the repository allocating from garbage lengths);
            # this is a harness error unless another part pins the cause down as a violation
            failures.append((key, ex))
            vlib.log('C18 %s: %s' % (key, ex))
            continue
        for r in rs:
            for v in r.get('violations') or []:
                if v['sig'] in bysig:
                    bysig[v['sig']]['count'] += v.get('count', 1)
                else:
                    v = dict(v)
                    v['part'] = key
                    bysig[v['sig']] = v
        info = {'grid_size': rs[0].get('grid_size', 0), 'dims': rs[0].get('dims', {}), 'wall_s': round(time.time() - tp, 2)}
        info['evaluations'] = sum(r.get('evaluations', 0) for r in rs)
        info['distinct_nontrivial'] = sum(r.get('distinct_nontrivial', 0) for r in rs)
        for k in COUNT_KEYS[key]:
            info[k] = sum(r.get(k, 0) for r in rs)
        parts[key] = info
        evaluations += info['evaluations']
        distinct += info['distinct_nontrivial']
        ps = sum([r.get('samples') or [] for r in rs], [])
        samples += ['[%s] %s' % (key, s) for s in ps[:3]]
        vlib.log('C18 %s: grid %d, %d comparisons, %d distinct non-trivial, %.1fs' % (key, info['grid_size'], info['evaluations'], info['distinct_nontrivial'], time.time() - tp))
    # node tier: what the API hands to raft, read back through the log store and through the log cache in front of it
    if not only:
        import apidrive
        rc = vlib.run_workers(apidrive.build(), 'TestVerifC18Cache', 1, env={'GOMAXPROCS': '2'})
        rc += vlib.run_workers(apidrive.build(), 'TestVerifC18Sizes', 1, env={'GOMAXPROCS': '2'})
        for r in rc:
            for v in r.get('violations') or []:
                if v['sig'] not in bysig:
                    v = dict(v); v['part'] = 'node'; bysig[v['sig']] = v
        parts['node'] = {'grid_size': sum(r.get('sequences', 0) for r in rc), 'evaluations': sum(r.get('ops', 0) for r in rc), 'distinct_nontrivial': sum(r.get('ops', 0) for r in rc), 'dims': {'encodings': 2, 'messages': 12}}
        evaluations += parts['node']['evaluations']
    if failures and not bysig:
        raise failures[0][1]
    cov = {
        'evaluations': evaluations,
        'distinct_nontrivial': distinct,
        'rule': RULE,
        'samples': samples,
        'exhaustive': not only and not failures,
        'parts': parts,
    }
    if failures:
        cov['parts_not_completed'] = {k: str(ex) for k, ex in failures}
    for key, info in parts.items():
        cov[key + '_grid_points'] = info['grid_size']
    vlib.finish('C18', tier, 'exploration', cov, list(bysig.values()), t0, assumptions=ASSUME)


def replay(path):
    v = json.load(open(path))
    print('C18 violation class: %s' % v.get('sig'))
    print('  input: %s' % v.get('input'))
    print('  %s' % v.get('desc'))
    print('the grids are deterministic: re-run `bin/check C18` (VERIF_C18_PARTS=%s runs only the part that found it)' % v.get('part', ''))
    return 0


MANIFEST = dict(engine='grid', level='exploration',
  technique='bounded-exhaustive value grids through every writer/reader pair of the log, snapshot and output-store codecs, field-by-field comparison',
  text='(1) a full cartesian grid of robust.Message values (all 9 types, ids/integers 0, 1 and maximal, multi-byte/long/quote-backslash-NUL/\'p\'-leading texts, server lists, every optional field) is encoded as \'p\'+protobuf through '
       'ProtoMessage and through CopyToProtoMessage into a reused destination (as ConvertToProto does) and as JSON; both protobuf encodings must be byte-identical and NewMessageFromBytes must return the message field by field '
       'from all three, the id replaced by the raft index exactly when it is 0. (2) a grid of raft.Log entries (index, term, type, payload, extensions, append time) is written by the real LevelDB store as JSON, as protobuf, '
       'through StoreLogProto, through ConvertToProto, and by the real FSM.Apply, and read back by GetLog, raftlog.FromBytes, the text-log dump, the decoding loop of FSM.Snapshot and Persist+Restore (protobuf, JSON, JSON snapshot '
       'restored by a protobuf node, protobuf snapshot restored by a JSON node), and the entries written by Restore are decoded once more by a second Snapshot on the restored node whose state must contain every session it folded; every reader must see the stored entry. (3) output batches of 0..3 messages x 0..3 recipients x texts x ids x NextID go through messageBatch.marshal/unmarshalMessageBatch and through '
       'OutputStream Add/Get (LevelDB and cache) and must keep ids, text bytes, recipient set and NextID.',
  note='Bounds: the value sets listed in the evidence (coverage.parts.*.dims); thorough adds values per dimension (negative timestamps, 75 kB texts, all six raft log types, more recipients). '
       'The Snapshot decoder is observed through its compaction decisions and the resulting session state (it does not use the remaining fields).')
