import json
import vlib, mcdrive
from checks.c06 import replay  # same replay mechanism

ASSUME = [
    'bounds: <=3 client sessions + <=2 services links with <=3 pseudo-clients, alphabet of DESIGN.md 1.2, histories = scenario prefix + <=2 (quick) / <=3 (thorough) entries',
    'SVSNICK only onto nicknames nobody owns is in the alphabet (property wording); services lines protocol-conforming',
    'limits are "exceeded" only by an entry that makes the count grow (lowering a limit by config below the current count is not a violation)',
]
RULE = ('invariants (unique nicks under case mapping, valid names, symmetric membership, no empty channel, members live and indexed, no deleted session left, limits) '
        'evaluated on the real IRCServer after every transition and on its Marshal/Unmarshal round trip after every state change; NAMES/LIST probes on every channel after every state change')

def run(tier):
    mcdrive.run_mc('C14', tier, ['C14'], ASSUME, RULE, deep_quick=3)

MANIFEST = {'engine': 'mc', 'level': 'model_checking', 'technique': 'explicit-state BFS over the real IRCServer with an invariant walk (in-package) on every reached state, its snapshot round trip, and NAMES/LIST probes', 'text': 'The invariants of C14 are evaluated on the real data structures after every transition of the bounded exploration and again on the Marshal/Unmarshal image of every changed state; NAMES and LIST are probed on every channel of every changed state and compared with the membership relation.', 'note': 'Same bounds as C06. SVSNICK only onto free nicknames; limits count as exceeded only when an entry makes the count grow. The invariants are also checked on a twin that was restored from a snapshot of the pre-state.'}
