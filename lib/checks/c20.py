import json, os, subprocess, sys, time
import vlib

REWRITE = ['statemachine.go', 'internal/api/api.go', 'internal/ircserver/ircserver.go', 'internal/outputstream/outputstream.go', 'internal/raftstore/leveldb.go']

ASSUME = [
    'the repository files that take locks (%s) are compiled with "sync" redirected to the race-mode scheduler shim; the shim forwards every operation to the real primitive and passes the token with plain memory accesses in norace code (GOMAXPROCS=1), so the race detector sees only the program\'s own synchronisation' % ', '.join(REWRITE),
    'oracle: the Go race detector (happens-before, TSan runtime) per enumerated schedule; its bounded access history is the stated limit; LevelDB and raft internals keep their real synchronisation',
    'operations: 16 state-machine-side operations (apply of each entry kind, stream Add/Delete, store writes, ReplaceState, Unmarshal into the spare server) x 19 HTTP-side operations (ThrottleUntil, lookups, Marshal, config reads, expiry sweep, stream reads, store reads, stable store, status pages), plus all HTTP x HTTP pairs; the state-machine side is a single goroutine, so FSM x FSM pairs are excluded',
    'a deadlock state reached by a schedule is not a C20 violation (counted as deadlocks_seen)',
]
RULE = 'operation pairs x every interleaving of their lock operations within the preemption bound; a pair is non-trivial when both operations touch the same object'

def build():
    ov = vlib.make_overlay('c20', harness=['main', 'ircserver', 'outputstream', 'api'], engines=['vsyncr'], rewrite_sync=REWRITE,
                           rewrite_harness=[('outputstream', 'export.go')], vsync_pkg='vsyncr')
    # the outputstream harness dir also holds scheduler-mode tests that import internal/verif/vsync: mount only what is needed
    ovj = json.load(open(ov))
    for k in list(ovj['Replace']):
        if ('/internal/outputstream/zz_verif_' in k or '/internal/api/zz_verif_' in k) and not k.endswith('zz_verif_export.go'):
            del ovj['Replace'][k]
    json.dump(ovj, open(ov, 'w'), indent=1)
    return vlib.build_test('.', os.path.join(vlib.BUILD, 'c20.test'), ov, race=True, tags='verif verifrace')

def prebuild():
    build()

def run(tier):
    t0 = time.time()
    budget = float(os.environ.get('VERIF_BUDGET_S', '120' if tier == 'quick' else '1200'))
    binary = build()
    sd = vlib.scratch_dir()
    def wenv(i):
        d = os.path.join(sd, 'race%d' % i); os.makedirs(d, exist_ok=True)
        return {'GORACE': 'halt_on_error=0 log_path=%s/race' % d, 'VERIF_RACE_LOG': '%s/race' % d}
    env = {'VERIF_TIER': tier, 'VERIF_DEADLINE': str(int(t0 + budget)), 'GOMAXPROCS': '1'}
    rs = vlib.run_workers(binary, 'TestVerifC20', vlib.NCPU, env=env, per_worker_env=wenv)
    bysig = {}
    for r in rs:
        for v in r.get('violations') or []:
            if v['sig'] in bysig: bysig[v['sig']]['count'] += v.get('count', 1)
            else: bysig[v['sig']] = v
    outcomes = {}
    for r in rs:
        for k, c in r['outcomes'].items(): outcomes[k] = outcomes.get(k, 0) + c
    truncated = sum(r['pairs_truncated'] for r in rs)
    cov = {
        'states': sum(r['pairs'] for r in rs), 'transitions': sum(r['points'] for r in rs),
        'traces_validated_against_impl': sum(r['executions'] for r in rs),
        'operation_pairs': sum(r['pairs'] for r in rs), 'schedules': sum(r['executions'] for r in rs), 'scheduling_points': sum(r['points'] for r in rs),
        'schedule_outcomes': outcomes, 'deadlocks_seen': sum(r['deadlocks_seen'] for r in rs),
        'preemption_bound': rs[0]['preemption_bound'], 'pairs_truncated_by_cap': truncated,
        'samples': sum([r.get('samples') or [] for r in rs], [])[:8], 'exhaustive': truncated == 0, 'rule': RULE,
    }
    vlib.finish('C20', tier, 'model_checking', cov, list(bysig.values()), t0, assumptions=ASSUME)

def replay(path):
    v = json.load(open(path)); print(v.get('report', '')[:3000]); print('re-run: VERIF_C20_PAIR="%s|%s" bin/check C20' % tuple(v.get('pair', ['', '']))); return 0

MANIFEST = dict(engine='sched (race mode) + TSan', level='model_checking',
  technique='systematic enumeration of the interleavings of operation pairs on the real code under a scheduler that is invisible to the race detector; the Go race detector decides raciness of each enumerated happens-before relation',
  text='Every pair of operations that the running system executes concurrently (state-machine side x HTTP side, HTTP x HTTP) runs on a shared two-session state under every schedule of their lock operations with at most 1 (quick) / 2 (thorough) preemptions; the locks are the real ones (the scheduler shim only decides who goes next and forwards), so each schedule yields one happens-before relation and the race detector reports unsynchronised conflicting accesses of that relation.',
  note='Limits: TSan access history, GOMAXPROCS=1, operations on one fixture shape; the expiry sweep and restore wiring inside main() are represented by the calls they make (ExpireSessions, ReplaceState). Fixture with a services link; the real POST handler and Apply(SERVER) are among the operations.')
