import json, os, time
import vlib, mcdrive

ASSUME = [
    'cut points: every scripted scenario state and every distinct mutator successor state of the depth-1 exploration; continuations: reduced alphabet (quick) / full alphabet (thorough)',
    'continuations of length 1 over the whole alphabet (full on scenario states, reduced on successor states)',
    'comparison: complete canonical dump (all fields incl. index maps, config, markers), reply ids/bytes/order/recipient sets, and the exported accessors OriginWhitelisted/TrustedBridge/LastPostMessage/GetSession',
]
RULE = 'states x {Marshal->Unmarshal into a fresh instance} x alphabet continuations; a cut is non-trivial when the state has >=1 session'

def run(tier):
    t0 = time.time()
    budget = float(os.environ.get('VERIF_BUDGET_S', '240' if tier == 'quick' else '3000'))
    deadline = int(t0 + budget)
    binary = mcdrive.build_mc()
    sd = vlib.scratch_dir()
    env = {'VERIF_DEADLINE': str(deadline), 'VERIF_ALPHA': 'full'}
    r1 = vlib.run_workers(binary, 'TestVerifC03', vlib.NCPU, env=env)
    # successor states from the mc explorer
    work = []
    seen = set()
    # cut points: every distinct successor of the depth-1 exploration.  (A second level has millions of states:
    # it cannot be worked off in any budget and its work list exhausted the memory of the machine.)  The thorough
    # tier continues every cut point with the FULL alphabet instead of the reduced one.
    frontier_env = {'VERIF_ALPHA': 'full', 'VERIF_EMIT': '1', 'VERIF_MONS': ''}
    rm = vlib.run_workers(binary, 'TestVerifMC', vlib.NCPU, env=frontier_env)
    for r in rm:
        for n_ in r.get('next') or []:
            if n_['key'] in seen: continue
            seen.add(n_['key']); work.append(n_['work'])
    del rm
    seed = int(os.environ.get('VERIF_SEED', '0') or 0)
    if seed and work:
        k = seed % len(work); work = work[k:] + work[:k]
    env2 = dict(env); env2.update({'VERIF_ALPHA': 'reduced' if tier == 'quick' else 'full'})
    r2 = vlib.run_workers(binary, 'TestVerifC03', vlib.NCPU, env=env2, per_worker_env=vlib.shard_work(work, vlib.NCPU, 'c03-work'))
    allr = r1 + r2
    viols = []
    for r in allr: viols += r.get('violations') or []
    bysig = {}
    for v in viols:
        if v['sig'] in bysig: bysig[v['sig']]['count'] += v.get('count', 1)
        else: bysig[v['sig']] = v
    counters = {}
    for r in allr:
        for k, c in (r.get('counters') or {}).items(): counters[k] = counters.get(k, 0) + c
    cov = {
        'states': sum(r['states'] for r in allr), 'transitions': sum(r['transitions'] for r in allr),
        'traces_validated_against_impl': sum(r['replays'] for r in allr),
        'cut_points': sum(r['states'] for r in allr), 'continuations_compared': sum(r['transitions'] for r in allr),
        'counters': counters, 'samples': sum([r.get('samples') or [] for r in allr], [])[:8],
        'exhaustive': all(r.get('exhaustive', True) for r in allr), 'rule': RULE,
    }
    vlib.finish('C03', tier, 'model_checking', cov, list(bysig.values()), t0, assumptions=ASSUME)

def replay(path):
    v = json.load(open(path)); print('replay of C03 violations: re-run bin/check C03 (the cut state is %s + %d entries)' % (v.get('scenario'), len(v.get('hist', [])))); return 0

MANIFEST = dict(engine='mc', level='model_checking',
  technique='explicit-state exploration of the real IRCServer; every explored state is serialized and loaded into a fresh instance, twin execution of every alphabet continuation with a complete-state and reply comparison',
  text='Every state of the bounded exploration is a cut point: the real Marshal/Unmarshal image must have the same canonical dump (every field, index maps and config included) and must answer every continuation entry of the alphabet with the same replies, recipients and resulting state as the never-serialized twin.',
  note='Continuations of length 1; bounds as C06. Differential oracle: no hand-written expected value.')
