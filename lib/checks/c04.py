import json, os, subprocess, sys, time
import vlib

ASSUME = [
    'the real api.getMessages and outputstream.go are compiled with "sync"/time.Sleep redirected to the scheduler-controlled vsync (regenerated from the current tree at check time)',
    'output histories: 1-3 batches (thorough 4) of the shapes C, O, CC, COC, OC (thorough also CCC); the client session is 1, batch ids 10,20,..',
    'disconnect points: every prefix of the client filtered sequence (between and inside batches); lag: the node reconnected to has applied 0..n batches, an applier thread adds the rest while the request runs',
    'the consumer of the message channel (handleGetMessages loop) is mirrored: always ready, filters by recipient; the HTTP layer is not part of this tier',
    'resume points are newer than the compaction horizon (no Delete in these programs)',
    'API tier (TestVerifC04Api): three histories are applied by the real in-process node (real FSM and sendMessages, so the stored batches are the real ones: bursts, replies nobody receives, several recipients); for every session and EVERY message of the stream it was served, GET ...?lastseen=<that id> through the real handler must deliver exactly the rest; on the live node and after a restart',
]
RULE = ('cases = history x cut x lag; every schedule of {getMessages reader || applier} within the preemption bound; oracle at quiescence: already received prefix + '
        'messages delivered on the new connection == messages addressed to the session, in id order, none missing, none twice; a case is non-trivial when its schedules yield >=2 distinct observations')

def build():
    ov = vlib.make_overlay('c04', harness=['api', 'outputstream'], engines=['vsync'],
                           rewrite_sync=['internal/outputstream/outputstream.go', 'internal/api/getmessages.go'],
                           rewrite_harness=[('outputstream', 'export.go')])
    return vlib.build_test('./internal/api', os.path.join(vlib.BUILD, 'c04.test'), ov)

def prebuild():
    import apidrive
    build()
    apidrive.build()

def reexec(binary, v, count=5):
    sd = vlib.scratch_dir()
    p = os.path.join(sd, 'c04-replay-in.json'); o = os.path.join(sd, 'c04-replay-out.json')
    json.dump(v, open(p, 'w'))
    if os.path.exists(o): os.remove(o)
    env = dict(os.environ); env.update({'VERIF_REPLAY': p, 'VERIF_REPLAY_COUNT': str(count), 'VERIF_OUT': o, 'TMPDIR': sd, 'GOMAXPROCS': '1'})
    r = subprocess.run([binary, '-test.run', '^TestVerifC04$', '-test.timeout', '0'], env=env, cwd=sd, stdout=subprocess.PIPE, stderr=subprocess.STDOUT, text=True)
    if not os.path.exists(o):
        sys.stderr.write(r.stdout[-3000:]); raise SystemExit('HARNESS-REPLAY-FAILED for %s' % v.get('sig'))
    return json.load(open(o))

def run(tier):
    t0 = time.time()
    budget = float(os.environ.get('VERIF_BUDGET_S', '100' if tier == 'quick' else '1200'))
    env = {'VERIF_TIER': tier, 'VERIF_DEADLINE': str(int(t0 + budget)), 'GOMAXPROCS': '1'}
    sched_error = None
    try:
        binary = build()
        rs = vlib.run_workers(binary, 'TestVerifC04', vlib.NCPU, env=env)
    except SystemExit as e:
        # the scheduler tier calls getMessages directly; when it no longer builds (signature changed) the API
        # tier below still decides what it can: a violation it demonstrates is reported, otherwise exit 3
        if not isinstance(e.code, str) or 'HARNESS-BUILD-FAILED' not in e.code:
            raise
        sched_error, rs, binary = e.code, [], None
    bysig = {}
    for r in rs:
        for v in r.get('violations') or []:
            if v['sig'] in bysig: bysig[v['sig']]['count'] += v.get('count', 1)
            else: bysig[v['sig']] = v
    merged = list(bysig.values())
    new, _ = vlib.classify('C04', merged)
    for v in new[:10]:
        rr = reexec(binary, v, 5)
        if not rr['identical'] or not rr['reproduced']:
            print('HARNESS-NONDETERMINISM: %s did not reproduce identically: %s' % (v['sig'], rr['runs'])); raise SystemExit(3)
    # API tier: resume at every position of real streams (real FSM, real sendMessages, real handler)
    import apidrive
    ra = vlib.run_workers(apidrive.build(), 'TestVerifC04Api', 6, env={'GOMAXPROCS': '2'})
    herr = [r['harness_error'] for r in ra if r.get('harness_error')]
    if herr:
        print('HARNESS-ERROR: ' + herr[0]); raise SystemExit(3)
    for r in ra:
        for v in r.get('violations') or []:
            if v['sig'] in bysig: bysig[v['sig']]['count'] += v.get('count', 1)
            else:
                bysig[v['sig']] = v; merged.append(v)
    streams = {}
    for r in ra:
        for k, c in (r.get('end_states') or {}).items(): streams[k] = streams.get(k, 0) + c
    if sched_error:
        if not merged:
            print(sched_error); raise SystemExit(3)
        cov = {'states': len(streams), 'transitions': sum(r.get('ops', 0) for r in ra), 'traces_validated_against_impl': sum(r.get('ops', 0) for r in ra),
               'api_tier': {'nodes': sum(r.get('sequences', 0) for r in ra), 'resume_points': sum(r.get('ops', 0) for r in ra), 'streams': streams},
               'exhaustive': False, 'notes': ['scheduler tier not built: ' + sched_error[:200]], 'rule': RULE}
        vlib.finish('C04', tier, 'model_checking', cov, merged, t0, assumptions=ASSUME)
        return
    outcomes = {}
    for r in rs:
        for k, c in r['outcomes'].items(): outcomes[k] = outcomes.get(k, 0) + c
    truncated = sum(r['cases_truncated'] for r in rs)
    cov = {
        'states': sum(r['distinct_observations'] for r in rs), 'transitions': sum(r['points'] for r in rs),
        'traces_validated_against_impl': sum(r['executions'] for r in rs),
        'cases': sum(r['cases'] for r in rs), 'schedules': sum(r['executions'] for r in rs), 'scheduling_points': sum(r['points'] for r in rs),
        'schedule_outcomes': outcomes, 'cases_with_2plus_observations': sum(r['cases_with_2plus_observations'] for r in rs),
        'preemption_bound': rs[0]['preemption_bound'], 'cases_truncated_by_cap': truncated,
        'api_tier': {'nodes': sum(r.get('sequences', 0) for r in ra), 'resume_points': sum(r.get('ops', 0) for r in ra), 'streams': streams},
        'samples': sum([r.get('samples') or [] for r in rs], [])[:8], 'exhaustive': truncated == 0, 'rule': RULE,
    }
    vlib.finish('C04', tier, 'model_checking', cov, merged, t0, assumptions=ASSUME)

def replay(path):
    v = json.load(open(path)); rr = reexec(build(), v, 1); print(json.dumps(rr))
    if rr['reproduced']:
        print('VIOLATION property=C04 replay=%s' % path); return 1
    return 0

MANIFEST = dict(engine='sched + vsync', level='model_checking',
  technique='stateless model checking of the real api.getMessages over the real OutputStream under a controlled scheduler: histories x disconnect points x node lag x all interleavings of reader and applier within a preemption bound',
  text='For every output history (batches with mixed recipients), every disconnect point (between and inside batches) and every lag of the node the client reconnects to, the real getMessages runs against a real output stream while an applier thread adds the missing batches; all schedules with at most 2/3 preemptions are executed and at quiescence the concatenation of what the client received must be exactly the messages addressed to it, in order, once.',
  note='The recipient filter and the channel consumer of handleGetMessages are mirrored (3 lines); HTTP framing is out of scope of this tier. No compaction (resume points newer than the horizon). An API tier resumes at every position of streams produced by the real node (live, restarted, restored in the middle of a history) and compares everything the node stores and serves with a never-restored twin state machine.')
