import json, os, sys, time
import vlib, mcdrive

ASSUME = [
    'goroutine timing: the workers run with GOMAXPROCS=1 and the number of goroutines is compared before and after: an entry that starts a goroutine (work that continues after Apply returned) is reported; everything else in the state machine runs on the applying goroutine',
    'receiving node: every transition is also executed the way the node executes it whose HTTP handler received the POSTs (ThrottleUntil called ten times per client line with the wall clock 1 ms behind the previous message of the session: the one IRCServer mutator the handlers call outside the log); outputs and state must equal the node that only applied the log, the throttle counter itself is masked',
    'every transition is first executed twice without any deviation on fresh instances in the same process: a different result is reported as a violation (process-global state left behind by an earlier execution influences the result); such findings are re-executed in five fresh processes',
    'map iteration order is owned through the overlaid runtime (tools/rtpatch.py): every range over a map with >=2 elements on the harness goroutine is a choice point; for maps of <=8 elements the alternatives are all rotations the runtime can produce (8<<B start positions, capped at 16 for larger maps)',
    'wall clock owned through the overlaid time.Now; replica B runs shifted by +400d 3h 7m 11s and was constructed with another server start time (the start time itself is masked: numeric 003 and the state field)',
    'deviation bound: one deviating choice point per transition (all pairs in the thorough tier); the prefix is replayed with default choices',
    'numeric 003 (server start time) is masked; recipient sets are compared as sets',
    'glue mirror VerifApply == (*FSM).applyRobustMessage, established by TestVerifGlueConformance (package main, real FSM glue) in the same check',
]
RULE = ('every transition (scenario prefixes entry by entry, scenario states x full alphabet, mutator successors x reduced alphabet) is executed 1 + (sum over choice points of alternatives) + 1 (shifted clock) times '
        'from scratch and compared on reply ids, bytes, order, recipient sets and the canonical dump; baseline digests of the depth-1 tier are compared between two worker processes with different environment')

def prebuild():
    mcdrive.build_mc(rt=True)
    build_glue()

def build_glue():
    ov = vlib.make_overlay('glue', harness=['ircserver', 'main'])
    return vlib.build_test('.', os.path.join(vlib.BUILD, 'glue.test'), ov)

def run(tier):
    t0 = time.time()
    budget = float(os.environ.get('VERIF_BUDGET_S', '600' if tier == 'quick' else '3600'))
    deadline = int(t0 + budget)
    rtbin = mcdrive.build_mc(rt=True)
    mcbin = mcdrive.build_mc()
    sd = vlib.scratch_dir()
    # GOMAXPROCS=1: a goroutine that an entry starts cannot finish before it is counted (goroutine check)
    # (process A runs 11 h west of UTC, process B 14 h east: every timestamp falls on different calendar days)
    env = {'VERIF_DEADLINE': str(deadline), 'VERIF_ALPHA': 'full', 'GOMAXPROCS': '1', 'TZ': 'Pacific/Pago_Pago'}
    if tier == 'thorough':
        env['VERIF_C01_PAIRS'] = '1'
    # level 1, process A
    ra = vlib.run_workers(rtbin, 'TestVerifC01', vlib.NCPU, env=env)
    # level 1, process B: different environment (cwd, GOMAXPROCS, env noise); only digests are used
    envb = dict(env); envb.update({'GOMAXPROCS': '3', 'VERIF_NOISE': 'replica-b', 'TZ': 'Pacific/Kiritimati', 'VERIF_C01_PAIRS': '0'})
    os.makedirs(os.path.join(sd, 'replica-b'), exist_ok=True)
    rb = vlib.run_workers(rtbin, 'TestVerifC01', vlib.NCPU, env=envb, cwd=os.path.join(sd, 'replica-b'))
    viols = []
    da, db = {}, {}
    for r in ra: da.update(r.get('digests') or {})
    for r in rb: db.update(r.get('digests') or {})
    mism = [k for k in da if k in db and da[k] != db[k]]
    for k in sorted(mism)[:5]:
        viols.append({'sig': 'C01:result differs between two worker processes', 'desc': 'transition %s: digest %s vs %s' % (k, da[k], db[k]), 'prop': 'C01x', 'count': len(mism), 'hist': [], 'scenario': k.split('|')[0]})
    # level 2: successors of the reduced-alphabet mutators (quick) / all mutators (thorough), reduced alphabet
    lvl2 = []
    if time.time() < deadline:
        menv = {'VERIF_ALPHA': 'reduced' if tier == 'quick' else 'full', 'VERIF_EMIT': '1', 'VERIF_MONS': ''}
        rm = vlib.run_workers(mcbin, 'TestVerifMC', vlib.NCPU, env=menv)
        seen = set()
        work = []
        for r in rm:
            for n_ in r.get('next') or []:
                if n_['key'] in seen: continue
                seen.add(n_['key']); work.append(n_['work'])
        seed = int(os.environ.get('VERIF_SEED', '0') or 0)
        if seed and work:
            k = seed % len(work); work = work[k:] + work[:k]
        env2 = dict(env); env2.update({'VERIF_ALPHA': 'reduced'})
        lvl2 = vlib.run_workers(rtbin, 'TestVerifC01', vlib.NCPU, env=env2, per_worker_env=vlib.shard_work(work, vlib.NCPU, 'c01-work'))
    allr = ra + lvl2
    unstable = any(('identical re-execution' in v.get('sig', '') or 'leaves a goroutine running' in v.get('sig', '')) for r in allr for v in (r.get('violations') or []))
    for r in allr:
        # (when the baseline itself is unstable -- reported as a violation -- deviating runs cannot line up either)
        if 'HARNESS-NONDETERMINISM' in (r.get('note') or '') and not unstable:
            print(r['note']); raise SystemExit(3)
    exhaustive = all(r.get('exhaustive', True) for r in allr) and bool(lvl2)
    for r in allr:
        viols += r.get('violations') or []
    bysig = {}
    for v in viols:
        if v['sig'] in bysig: bysig[v['sig']]['count'] += v.get('count', 1)
        else: bysig[v['sig']] = v
    merged = list(bysig.values())
    new, _ = vlib.classify('C01', merged)
    goroutines = any('leaves a goroutine running' in v.get('sig', '') for v in merged)
    for v in new[:20]:
        if v.get('prop') != 'C01': continue
        rr = mcdrive.reexecute(rtbin, v, 5, test='TestVerifC01', fresh_each='identical re-execution' in v['sig'])
        if (not rr['identical'] or not rr['reproduced']) and goroutines and 'goroutine' not in v['sig']:
            # work that an entry leaves running on another goroutine (reported, and reproduced, as such) makes every
            # other observation of that history unstable: it is dropped, not taken for a harness problem
            merged = [x for x in merged if x is not v]
            continue
        if not rr['identical'] or not rr['reproduced']:
            print('HARNESS-NONDETERMINISM: %s did not reproduce identically: %s' % (v['sig'], rr['runs'])); raise SystemExit(3)
    # glue conformance (real statemachine.go glue vs mirror)
    glue = vlib.run_workers(build_glue(), 'TestVerifGlueConformance', vlib.NCPU)
    for r in glue:
        merged += r.get('violations') or []
    cov = {
        'states': sum(r['states'] for r in allr),
        'transitions': sum(r['transitions'] for r in allr),
        'executions': sum(r['executions'] for r in allr) + sum(r['executions'] for r in rb),
        'choice_points': sum(r['choice_points'] for r in allr),
        'transitions_with_choice_points': sum(r['transitions_with_choice_points'] for r in allr),
        'max_alternatives_at_a_choice_point': max([r['max_alternatives'] for r in allr] + [0]),
        'choice_points_beyond_bound': sum(r['choice_points_beyond_bound'] for r in allr),
        'cross_process_digests_compared': len([k for k in da if k in db]),
        'traces_validated_against_impl': sum(r.get('entries_compared', 0) for r in glue),
        'glue_conformance': {'histories': sum(r.get('histories', 0) for r in glue), 'entries_compared': sum(r.get('entries_compared', 0) for r in glue)},
        'deviation_bound_completed': 2 if tier == 'thorough' else 1,
        'samples': sum([r.get('samples') or [] for r in allr], [])[:8],
        'exhaustive': exhaustive,
        'rule': RULE,
    }
    vlib.finish('C01', tier, 'model_checking', cov, merged, t0, assumptions=ASSUME)

def replay(path):
    v = json.load(open(path))
    rr = mcdrive.reexecute(mcdrive.build_mc(rt=True), v, 1, test='TestVerifC01')
    print(json.dumps(rr))
    if rr['reproduced']:
        print('VIOLATION property=C01 replay=%s' % path); return 1
    return 0

MANIFEST = dict(engine='mc + rt', level='model_checking',
  technique='explicit-state exploration of the real IRCServer with every map-iteration choice point (overlaid runtime) and the wall clock (overlaid time.Now) enumerated per transition; cross-process digest comparison; conformance of the glue mirror against the real FSM glue',
  text='For every transition of the bounded exploration the entry is re-executed from scratch once per alternative start position of every map iteration it performs (all rotations the runtime can produce for maps <=8 entries), once with the clock shifted by 400 days, and in a second process with a different environment; reply ids, bytes, order, recipient sets and the complete canonical state must agree.',
  note='Bounds: <=3 clients + <=2 links, one deviating choice point per transition (two in thorough). Trusted: the overlaid runtime behaves like the stock one apart from the three replaced rand() uses. Also: every transition once as on the node that received the POSTs (handler-side ThrottleUntil), once as on the leader (ExpireSessions called between all entries), the two worker processes 25 h apart in local time, with another server start time for the shifted replica, twice undeviated in one process (process-global state), and with the goroutine count compared around Apply.')
