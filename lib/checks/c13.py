import json
import vlib, mcdrive
from checks.c06 import replay

ASSUME = [
    'bounds as C06; scenarios rich in privilege history (ops lost by -o/PART+JOIN/nick change, consumed invitation, bans by mask and robust/0x form, keys, OPER via OPER and PASS oper=, services passwords, captcha tokens valid/mutated/unsolved/expired/foreign secret/other channel)',
    'captcha definition taken from verifyCaptcha and TestCaptchaJoin: not bound to channel or session, one minute grace after a solved captcha; the oracle re-implements it independently',
    'on +x channels the captcha takes the place of the key; for invited users on +x+k channels either behaviour is accepted',
    'ban matching uses the stored regular expressions with unanchored search, as the server defines a ban',
]
RULE = ('diff monitor on every transition: entitlement from the pre-state view (chanop, operator, services, invitations, modes/key/bans, configured credentials), '
        'every change of membership by others, closures, channel modes/key/bans/op flags, topic, invitations, network bans, operator/services status and every gated JOIN must be entitled')

def run(tier):
    mcdrive.run_mc('C13', tier, ['C13'], ASSUME, RULE)

MANIFEST = dict(engine='mc', level='model_checking',
  technique='explicit-state BFS over the real IRCServer with a pre/post state diff monitor checking every privileged effect against the pre-state entitlement',
  text='For every transition of the bounded exploration the difference between pre- and post-state (members removed, sessions closed, channel modes/keys/bans/op flags, topics, invitations, network bans, operator and services status, new memberships through JOIN) is checked against the entitlement of the acting session computed from the pre-state, including an independent captcha verifier and ban matcher.',
  note='Bounds as C06. Effects caused by services links are accepted once the link authenticated with a configured password (checked when the status is granted). Requests without effect are repeated on a node restored from a snapshot of the same state: a different answer together with a state change there is a grant the node refused.')
