import json, os, time
import vlib

ASSUME = [
    'a second store of the same process (production runs raftlog and irclog side by side) holds entries at the same indexes; after every operation on the store under test it takes one unrelated write and must still hold all of them',
    'robust.MessageOffset is the default of the binary (4648398125000000000), so that a raft index and the message id derived from it differ',
    'every sequence is executed twice: once with all accessors compared after every operation, once with the accessors called only after the last operation (an accessor that leaves state behind -- a cached index -- must not be kept consistent by the observer)',
    'the bulk iterator (a RobustIRC-specific accessor, not part of raft.LogStore) is compared on the log entries it yields; stable-store keys that a range spanning 0x7374... yields on a store that also holds stable keys are skipped: the repository only bulk-iterates the IRC log copy, which holds none',
    'alphabet: 12 stores (StoreLog / StoreLogs batch of 2 / StoreLogProto; indexes 1,2,3,7,2^40,2^63; LogCommand/LogNoop/LogConfiguration; payload protobuf message, JSON message, empty, opaque bytes with and without a leading p; term/extensions/append time zero and set), 8 DeleteRange ranges (single, prefix, only-missing, middle, min>max, single large, suffix, all), 6 stable writes (Set/SetUint64 on CurrentTerm, LastVoteCand and 8-byte keys equal to the big-endian indexes 7 and 2^63), Close+reopen as JSON and as protobuf; every sequence is run from an empty database opened as JSON and as protobuf',
    'reopen transitions json->json, json->protobuf (ConvertToProto), protobuf->protobuf and protobuf->json (a downgrade: the store then holds both encodings, every reader decides per value)',
    'LogCommand payloads are robust messages (JSON or p+protobuf) as everywhere in the repository (robust.NewMessageFromBytes panics on anything else, so does ConvertToProto); empty and opaque payloads are used with the other entry types only',
    'append time is compared with time.Equal (location and monotonic reading are not part of the stored value); nil and empty byte slices are the same value; StoreLogProto is always given an AppendedAt timestamp, like its two callers do',
    'after a reopen as protobuf (ConvertToProto ran) LogCommand payloads may differ in bytes but must decode (robust.NewMessageFromBytes) to the same message; everything else stays byte-identical',
    'DeleteRange(_, 2^64-1) is outside the alphabet (raft never issues it; max+1 wraps around); GetUint64 is only compared for keys that are absent or hold 8 bytes',
    'kill = the process disappears between or inside operations, the page cache survives (directory copied without LOCK; journal of the last operation cut at every byte / on a grid for the longest sequences); power loss (unsynced writes) and a kill inside the leveldb open/recovery itself are not modelled',
    'once the store differs from the model, longer sequences with that prefix are not explored (counted in prefixes_pruned_after_violation)',
]

SEQ_DEPTH = {'quick': 3, 'thorough': 4}
CRASH_DEPTH = {'quick': 2, 'thorough': 3}


def _build():
    ov = vlib.make_overlay('c09', harness=['raftstore'])
    return vlib.build_test('./internal/raftstore', os.path.join(vlib.BUILD, 'c09.test'), ov)


def prebuild():
    _build()


def _merge(viols):
    bysig = {}
    for v in viols:
        o = bysig.get(v['sig'])
        if o is None:
            bysig[v['sig']] = dict(v)
            continue
        n = o['count'] + v.get('count', 1)
        if (len(v.get('ops') or []), v.get('desc', '')) < (len(o.get('ops') or []), o.get('desc', '')):
            o = dict(v)
            bysig[v['sig']] = o
        o['count'] = n
    return sorted(bysig.values(), key=lambda v: (len(v.get('ops') or []), v['sig']))


def run(tier):
    t0 = time.time()
    binary = _build()
    budget = float(os.environ.get('VERIF_BUDGET_S', '240' if tier == 'quick' else '1800'))
    deadline = str(int(t0 + budget))
    sdepth = int(os.environ.get('VERIF_C09_SEQ_DEPTH', SEQ_DEPTH[tier]))
    cdepth = int(os.environ.get('VERIF_C09_CRASH_DEPTH', CRASH_DEPTH[tier]))
    nsh = vlib.NCPU * (4 if tier == 'thorough' else 1)
    runs = []
    rs = vlib.run_workers(binary, 'TestVerifC09Seq', nsh, env={'VERIF_C09_DEPTH': str(sdepth), 'VERIF_DEADLINE': deadline})
    runs.append(('seq depth %d, full alphabet' % sdepth, rs))
    rc = vlib.run_workers(binary, 'TestVerifC09Crash', nsh, env={'VERIF_C09_DEPTH': str(cdepth), 'VERIF_C09_EVERYBYTE': '2', 'VERIF_DEADLINE': deadline})
    runs.append(('crash depth %d, full alphabet' % cdepth, rc))
    rl = vlib.run_workers(binary, 'TestVerifC09Lengths', vlib.NCPU, env={'VERIF_DEADLINE': deadline})
    runs.append(('one DeleteRange over n entries, n = 1..40 and around round numbers up to 4096, head/middle/tail, both encodings', rl))
    if tier == 'thorough':
        r5 = vlib.run_workers(binary, 'TestVerifC09Seq', nsh, env={'VERIF_C09_DEPTH': str(sdepth + 1), 'VERIF_C09_ALPHA': 'core', 'VERIF_DEADLINE': deadline})
        runs.append(('seq depth %d, core alphabet (12 operations)' % (sdepth + 1), r5))
    allr = sum((r for _, r in runs), [])
    viols = []
    states = set()
    for r in allr:
        viols += r.get('violations') or []
        states.update(r.get('states') or [])
    phases = {}
    for name, rr in runs:
        phases[name] = {k: sum(int(r.get(k, 0) or 0) for r in rr) for k in (
            'sequences', 'sequences_reexecuted_with_reads_only_at_the_end', 'second_store_checks', 'operations', 'reads_compared', 'crash_images', 'journal_cuts', 'cuts_op_absent', 'cuts_op_present',
            'journal_cut_skipped', 'prefixes_pruned_after_violation', 'skipped_protobuf_to_json')}
        phases[name]['alphabet'] = rr[0].get('alphabet')
        phases[name]['exhaustive'] = all(r.get('exhaustive', True) for r in rr)
    tot = lambda k: sum(p[k] for p in phases.values())
    cov = {
        'states': len(states),
        'transitions': tot('operations'),
        'traces_validated_against_impl': tot('sequences'),
        'reads_compared': tot('reads_compared'),
        'sequences_reexecuted_with_reads_only_at_the_end': tot('sequences_reexecuted_with_reads_only_at_the_end'),
        'crash_images': tot('crash_images'),
        'journal_cuts': tot('journal_cuts'),
        'journal_cuts_operation_absent': tot('cuts_op_absent'),
        'journal_cuts_operation_present': tot('cuts_op_present'),
        'journal_cut_skipped': tot('journal_cut_skipped'),
        'prefixes_pruned_after_violation': tot('prefixes_pruned_after_violation'),
        'phases': phases,
        'samples': sum([r.get('samples') or [] for r in allr], [])[:8],
        'exhaustive': all(p['exhaustive'] for p in phases.values()),
        'bounds': 'all sequences of exactly %d operations (every prefix is compared too) from both initial encodings; crash images for all sequences of 1..%d operations' % (sdepth, cdepth),
    }
    vlib.finish('C09', tier, 'model_checking', cov, _merge(viols), t0, assumptions=ASSUME)


def replay(path):
    v = json.load(open(path))
    print('C09 replay: %s' % v.get('sig'))
    for i, o in enumerate(v.get('ops') or []):
        print('  %d. %s' % (i, o))
    for d in v.get('detail') or []:
        print('  => %s' % d)
    print('re-run: bin/check C09 --tier quick (the sequence is part of the exhaustive enumeration)')
    return 0


MANIFEST = dict(engine='seq', level='model_checking',
  technique='exhaustive enumeration of operation sequences (depth 3/4) on the real LevelDBStore against an in-memory map model, with reopen/convert transitions and crash images (every journal cut) of the last operation',
  text='Every sequence of 3 (quick) / 4 (thorough, plus 5 over a 12-operation core) operations over 12 stores, 8 range deletions, 6 stable writes and close+reopen as JSON / as protobuf (ConvertToProto) is executed on a fresh LevelDBStore from both initial encodings; after every operation FirstIndex, LastIndex, GetLog of every alphabet index and of never-stored ones (into a dirty raft.Log), the bulk iterator over [0,2^64-1) and over [first,last+1), and Get/GetUint64 of every stable key are compared with plain maps. For all sequences of up to 2 (quick) / 3 (thorough) operations the database directory is copied at every operation boundary and reopened, and the journal bytes appended by the last operation are cut at every byte (grid for the longest sequences): the reopened store must equal the model before or after that operation.',
  note='Indexes 1,2,3,7,2^40,2^63 so that index keys sort on both sides of the stablestore- keys. protobuf->json reopen, DeleteRange up to 2^64-1, power loss and non-message LogCommand payloads are outside the bounds. Every sequence runs a second time with the accessors called only after the last operation; a second store of the same process must stay untouched; all four reopen transitions. Length sweep: one DeleteRange over n entries (1..40 and around round numbers up to 4096) at head/middle/tail in both encodings, before and after a reopen.')
