import json
import vlib, mcdrive
from checks.c06 import replay

ASSUME = [
    'delivery tier: the recipient sets computed by the state machine are what getmessages.go filters by; four histories on the real in-process node, every session reads its stream from the start and from every resume point (either session first, live and restarted node): every line served must be addressed to the reader in the stored batch',
    'bounds as C06 (<=3 clients, <=2 services links, alphabet of DESIGN.md 1.2, depth 2/3)',
    'services-link session ids (current or former) are ignored in recipient sets ("apart from services links")',
    'notification rules (JOIN/PART/KICK/TOPIC/MODE/NICK/QUIT) are upper bounds as the property words them; channel PRIVMSG/NOTICE is exact',
    'membership relation = pre-state view, tied to the announced events on every transition (announced => reflected, changed => announced); closing a session counts as leaving',
]
RULE = ('every output message of every transition: recipient set checked against the rule of its class (channel message exact, private message, numeric, ERROR, '
        'channel/user notifications), client prefix must state the pre-entry nick/user/id of a session and may differ from the actor only for services/operator actions; '
        'announcements and membership changes must agree')

def prebuild():
    import apidrive
    mcdrive.build_mc()
    apidrive.build()

def run(tier):
    import time, apidrive
    t0 = time.time()
    # delivery tier: what the real GET handler serves (from the start and resumed at every position, live node
    # and restarted node, either reader first) must be addressed to the reader by the state machine
    ra = vlib.run_workers(apidrive.build(), 'TestVerifC04Api', 8, env={'GOMAXPROCS': '2', 'VERIF_API_PROP': 'C12'})
    herr = [r['harness_error'] for r in ra if r.get('harness_error')]
    if herr:
        print('HARNESS-ERROR: ' + herr[0]); raise SystemExit(3)
    viols = []
    for r in ra:
        for v in r.get('violations') or []:
            v['prop'] = 'C12api'   # not replayable on the state-machine engine
            viols.append(v)
    extra = {'delivery_tier': {'nodes': sum(r.get('sequences', 0) for r in ra), 'streams_read_from_a_resume_point': sum(r.get('ops', 0) for r in ra)}}
    mcdrive.run_mc('C12', tier, ['C12'], ASSUME, RULE, pre_violations=viols, extra_cov=extra, t0=t0)

MANIFEST = dict(engine='mc', level='model_checking',
  technique='explicit-state BFS over the real IRCServer; per-output recipient/identity oracle against the announcement-tied membership relation',
  text='For every transition of the bounded exploration every emitted message is classified (channel/private message, numeric, ERROR, notification, services relay) and its recipient set and prefix are checked against the membership/ownership relation of the pre-state, which is itself tied to the announced JOIN/PART/KICK/QUIT/NICK events on every step.',
  note='Bounds as C06. Unclassifiable lines are held to the strictest rule (causing session only). Services link ids ignored in recipient sets. Delivery tier: what the real GET handler serves (from the start and from every resume point) is compared with a twin state machine; a member\'s channel message must be relayed.')
