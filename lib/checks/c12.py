import json
import vlib, mcdrive
from checks.c06 import replay

ASSUME = [
    'bounds as C06 (<=3 clients, <=2 services links, alphabet of DESIGN.md 1.2, depth 2/3)',
    'services-link session ids (current or former) are ignored in recipient sets ("apart from services links")',
    'notification rules (JOIN/PART/KICK/TOPIC/MODE/NICK/QUIT) are upper bounds as the property words them; channel PRIVMSG/NOTICE is exact',
    'membership relation = pre-state view, tied to the announced events on every transition (announced => reflected, changed => announced); closing a session counts as leaving',
]
RULE = ('every output message of every transition: recipient set checked against the rule of its class (channel message exact, private message, numeric, ERROR, '
        'channel/user notifications), client prefix must state the pre-entry nick/user/id of a session and may differ from the actor only for services/operator actions; '
        'announcements and membership changes must agree')

def run(tier):
    mcdrive.run_mc('C12', tier, ['C12'], ASSUME, RULE)

MANIFEST = dict(engine='mc', level='model_checking',
  technique='explicit-state BFS over the real IRCServer; per-output recipient/identity oracle against the announcement-tied membership relation',
  text='For every transition of the bounded exploration every emitted message is classified (channel/private message, numeric, ERROR, notification, services relay) and its recipient set and prefix are checked against the membership/ownership relation of the pre-state, which is itself tied to the announced JOIN/PART/KICK/QUIT/NICK events on every step.',
  note='Bounds as C06. Unclassifiable lines are held to the strictest rule (causing session only). Services link ids ignored in recipient sets.')
