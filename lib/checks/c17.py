import json, os, time
import vlib, mcdrive
from checks.c06 import replay

ASSUME = [
    '(a) lagging node = fresh instance that applied a prefix of the history (by replay, and restored from a snapshot of that prefix); ids queried: every id of the history +-1, 0, 2^63',
    "(a) 'not yet seen' for an id that is dead and not newer than the applied position is accepted (conservative answer); 'no such session' must imply dead-forever and id <= newest applied id",
    '(a, API tier) a node that is not the leader (two-server configuration whose other member does not exist) gets every prefix of two logs (create/delete/QUIT, index gaps) applied to its FSM and is asked through the real GET messages / POST message / DELETE handlers about every session of the whole log with the correct secret and about ids beyond the applied position: never 404 or 200 for a session not yet seen, never 404 for a live one, never 200 for an ended one',
    '(a, leader tier) a single-node leader: 11 quit messages (client-chosen, among them the words of the expiry sweep) x 5 previous activities; a DELETE answered 200 must end the session for the state machine and for the POST / GET handlers',
    '(b, network tier) the sweep itself is a loop in main(): three real robustirc binaries (internal/localnet) with SessionExpiration 3 s; an idle session must be expired by the first leader and, after that leader was killed once every node had passed a sweep interval, by the new leader too (bound 75 s each for what takes about 13 s; a wait for the network itself that runs out is inconclusive)',
    '(b) wall clock pinned by the rt engine (time.Now overlaid); services links (Reply==0) are client sessions of the API and expire like them',
    '(c) monitor on the mc exploration, bounds as C06',
]
RULE = ('(a) histories x prefixes x queried ids x {replayed, snapshot-restored}; (b) scenario states x sessions x 8 exact clock positions around the expiration; '
        '(c) every transition of the mc exploration: recipients are live sessions, ended sessions left nick index and channels, NICK probe')

def prebuild():
    import apidrive
    from checks import c05
    mcdrive.build_mc(rt=True)
    apidrive.build()
    c05.build_net()

def run(tier):
    t0 = time.time()
    binary = mcdrive.build_mc()
    rtbin = mcdrive.build_mc(rt=True)
    ra = vlib.run_workers(binary, 'TestVerifC17a', vlib.NCPU)
    rb = vlib.run_workers(rtbin, 'TestVerifC17b', vlib.NCPU)
    # network tier (runs beside the other tiers, it mostly waits): the expiry sweep of main() on three real binaries
    import threading
    from checks import c05
    netres = {}
    def net():
        try:
            tb, bindir = c05.build_net()
            netres['r'] = vlib.run_workers(tb, 'TestVerifC17Net', 1, env={'PATH': bindir + os.pathsep + os.environ.get('PATH', ''), 'GOMAXPROCS': '2'})
        except BaseException as ex:
            netres['err'] = ex
    th = threading.Thread(target=net); th.start()
    # API tier: what the real public handlers of a lagging, non-leader node answer
    import apidrive
    rc = vlib.run_workers(apidrive.build(), 'TestVerifC17Api', vlib.NCPU, env={'GOMAXPROCS': '2'})
    # leader tier: DELETE through the real handler, quit messages x previous activity
    rl = vlib.run_workers(apidrive.build(), 'TestVerifC17Leader', 1, env={'GOMAXPROCS': '2'})
    rc = rc + rl
    herr = [r['harness_error'] for r in rc if r.get('harness_error')]
    if herr:
        print('HARNESS-ERROR: ' + herr[0])
        raise SystemExit(3)
    viols = []
    for r in ra + rb:
        viols += r.get('violations') or []
    for r in rc:
        for v in r.get('violations') or []:
            v['prop'] = 'C17api'  # not replayable on the state-machine engine
            viols.append(v)
    th.join()
    if 'err' in netres:
        raise netres['err']
    rnet = netres['r']
    for r in rnet:
        for v in r.get('violations') or []:
            v['prop'] = 'C17net'; v['sig'] = v['sig'].replace('C05:', 'C17:', 1)
            viols.append(v)
    net_inconclusive = sorted(set(r['harness_error'] for r in rnet if r.get('harness_error')))
    answers = {}
    for r in rc:
        for k, c in (r.get('end_states') or {}).items(): answers[k] = answers.get(k, 0) + c
    extra = {
        'c17net': {'networks': sum(r.get('sequences', 0) for r in rnet), 'leader_changes': sum(r.get('leader_changes', 0) for r in rnet), 'outcomes': {k: v for r in rnet for k, v in (r.get('end_states') or {}).items()}, 'inconclusive': net_inconclusive},
        'c17leader': {'deletes': sum(r.get('sequences', 0) for r in rl), 'outcomes': {k: v for r in rl for k, v in (r.get('end_states') or {}).items()}},
        'c17api': {'lagging_nodes': sum(r.get('sequences', 0) for r in rc) - sum(r.get('sequences', 0) for r in rl), 'requests': sum(r.get('ops', 0) for r in rc), 'answers': answers},
        'c17a': {'histories': sum(r['histories'] for r in ra), 'prefixes': sum(r['prefixes'] for r in ra), 'queries': sum(r['queries'] for r in ra),
                 'outcomes': {k: sum(r['outcomes'].get(k, 0) for r in ra) for k in set(sum([list(r['outcomes']) for r in ra], []))},
                 'samples': sum([r.get('samples') or [] for r in ra], [])[:4]},
        'c17b': {'states': sum(r['states'] for r in rb), 'sweeps': sum(r['sweeps'] for r in rb), 'expired': sum(r['expired'] for r in rb), 'kept': sum(r['kept'] for r in rb),
                 'distinct_outcomes': len(set(sum([list(r['outcomes']) for r in rb], []))), 'samples': sum([r.get('samples') or [] for r in rb], [])[:3]},
    }
    mcdrive.run_mc('C17', tier, ['C17'], ASSUME, RULE, binary=binary, pre_violations=viols, extra_cov=extra, t0=t0)

MANIFEST = dict(engine='mc + rt', level='model_checking',
  technique='exhaustive enumeration: histories x prefixes x ids for the lookup, pinned-clock grid for the expiry sweep, per-transition monitor on the explicit-state BFS for the end of sessions',
  text='(a) every prefix of every scripted history (with and without a snapshot restore) is queried for every id around the ids of the history and compared with the liveness the full history defines; (b) the real ExpireSessions is run with the wall clock pinned at exact distances (+-1ns, +-1s, 3x) from every session last activity in every scenario state; (c) a monitor on every transition of the mc exploration checks that ended sessions are out of the nick index and channels, that their nickname can be taken, and that no output ever names a session that is not live.',
  note='Bounds as C06 for (c); (a) histories <= 40 entries; (b) clock pinned through the overlaid time.Now (trusted to behave like the stock one otherwise). API tier on a non-leader node (Follower and Candidate); leader tier: the real DELETE handler of a single-node leader with 11 client-chosen quit messages x 5 previous activities; network tier: the expiry loop of main() on three real binaries across a leader change.')
