"""C11: session routes need the secret of exactly that session, private routes need the network password.

Exhaustive request matrix on the real HTTP dispatchers (harness/main/c11_test.go)."""
import json, os, re, subprocess, sys, time
import vlib, apidrive

TEST = 'TestVerifC11'

ASSUME = [
    'request body (TestVerifC11Body): a POST on the attacker\'s own session with its own correct secret whose body carries, besides Data and ClientMessageId, the other members of the replicated message structure (Session, Id, Type, RemoteAddr, UnixNano, Revision) naming the victim: applied to, and committed for, the authenticated session only',
    'open connection (TestVerifC11Open): the victim has a GetMessages request parked at the end of its stream; GET / POST / DELETE on its session id with a missing / wrong / foreign / one-character credential; a message sent to the victim afterwards must still arrive on that same connection',
    'parked requests (TestVerifC11Park): GET messages / POST message / DELETE on the id the NEXT session will get (message offset + next raft index), with a wrong / another session\'s / a same-length / a one-character credential, sent before the victim creates exactly that session, logs in and is sent a private message: never answered 200, never carries the victim\'s messages, never ends the session, never committed',
    'single-node network in-process: real hashicorp/raft (in-memory transport), real FSM, real LevelDB raftlog/irclog, FileSnapshotStore; the real api.HTTP.DispatchPublic / DispatchPrivate are called through httptest (no TLS listener, no net/http mux: the mux of robustirc.go sends /robustirc/v1/ to DispatchPublic and everything else to DispatchPrivate, the harness does the same)',
    'the node is the raft leader: a request for a session that is "not yet seen" is answered locally (404 / 500) instead of being proxied to the leader',
    'a refused request is one whose status is not 2xx; "no effect" = last raft log index, number of command and configuration entries, canonical dump of the IRC state, output stream position, cluster size and the deletestate file are equal before and after',
    'leak oracle: the response (body and headers) of a refused request contains none of the message texts posted in the world, no session secret and not the network password, except a value the request carried itself',
    'with the correct network password only GET routes and POST /config are exercised (/quit, /join, /part, /kill and /raft/ are never called with valid credentials); every refused private request uses a fresh api.HTTP object so that the wrong-password back-off stays at 1 ms; no time is measured',
    'id spellings other than the canonical 0x.. form that denote the same number may be accepted or refused with the correct secret (both are fine), but are never accepted with anything else',
]
RULE = ('all cells of: {history: quick = none, post, config change, snapshot+restart; thorough = every sequence of <= 3 operations over post, config change, forced snapshot, restart} x {13 session states: fresh, logged in, deleted by DELETE / QUIT / admin kill / oper KILL (each also with a younger session speaking last), never existed, id 0, far-future id} x {10 denoting + 6 garbage id spellings} x {6 route shapes + 23 off-route method/path shapes} x {credential variants in X-Session-Auth}, '
        'followed by the accepted life cycle GET/POST/GET/DELETE with the correct secret and the once-correct secret afterwards; '
        '{private paths} x {GET, POST, DELETE, PUT} x {17 wrong basic-auth variants, correct}; {private paths below /robustirc/v1/} x 4 methods x 3 credentials through the public dispatcher. '
        'distinct_nontrivial = number of distinct (matrix part, route, session state/history, id spelling, credential, observed status, effect) classes observed by the run')


def parse_routes():
    """The switch of DispatchPrivateWithoutAuth, as {'GET': [...], 'POST': [...], 'PREFIX:POST': ['/raft/']}."""
    src = open(os.path.join(vlib.REPO, 'internal', 'api', 'api.go')).read()
    m = re.search(r'func \(api \*HTTP\) DispatchPrivateWithoutAuth\(.*?\n}\n', src, re.S)
    if not m:
        return None
    body = m.group(0)
    out = {}
    # split at the method cases of the outer switch
    parts = re.split(r'\n\tcase http\.Method(\w+):', body)
    for i in range(1, len(parts), 2):
        method = parts[i].upper()
        block = parts[i + 1]
        for p in re.findall(r'case\s+((?:"[^"]*"\s*,\s*)*"[^"]*")\s*:', block):
            for q in re.findall(r'"([^"]*)"', p):
                out.setdefault(method, []).append(q)
        for p in re.findall(r'strings\.HasPrefix\(r\.URL\.Path,\s*"([^"]+)"\)', block):
            out.setdefault('PREFIX:' + method, []).append(p)
    # anything that routes outside a method case (would be reachable with every method)
    for p in re.findall(r'strings\.HasPrefix\(r\.URL\.Path,\s*"([^"]+)"\)', parts[0]):
        out.setdefault('PREFIX:ANY', []).append(p)
    for p in re.findall(r'case\s+"(/[^"]*)"\s*:', parts[0]):
        out.setdefault('ANY', []).append(p)
    return out


def _build():
    """The shared API-node binary; a run against another tree (VERIF_REPO) gets a binary and overlay of its own so that
    checks running concurrently on the default tree never pick up a foreign build."""
    if os.path.realpath(vlib.REPO) == '/repo':
        return apidrive.build()
    ov = vlib.make_overlay('apinode-c11alt', harness=['main', 'ircserver'])
    return vlib.build_test('.', os.path.join(vlib.BUILD, 'apinode-c11alt.test'), ov)


def prebuild():
    apidrive.build()


def _kill_children():
    me = os.getpid()
    for pid in os.listdir('/proc'):
        if not pid.isdigit():
            continue
        try:
            st = open('/proc/%s/stat' % pid).read()
            ppid = int(st.rsplit(')', 1)[1].split()[1])
            cmd = open('/proc/%s/cmdline' % pid).read()
        except Exception:
            continue
        if ppid == me and TEST in cmd:
            try:
                os.kill(int(pid), 9)
            except Exception:
                pass


def _crash_violation(binary, msg):
    """A worker died without a result: was it inside a handler?  -> violation dict or None."""
    m = re.search(r'shard (\d+) exit (\S+)', msg)
    if not m:
        return None
    shard = int(m.group(1))
    out = os.path.join(vlib.scratch_dir(), '%s.%s.%d.json' % (os.path.basename(binary), TEST, shard))
    try:
        lines = [l for l in open(out + '.progress', errors='replace').read().split('\n') if l]
    except Exception:
        return None
    if not lines or not lines[-1].startswith('REQ '):
        return None
    unit = [l for l in lines if l.startswith('UNIT ')]
    tail = ''
    try:
        tail = open(out + '.log', errors='replace').read()[-1500:]
    except Exception:
        pass
    return {'sig': 'C11:handler crashed the process', 'prop': 'C11', 'count': 1,
            'desc': 'the process exited (%s) while serving %s' % (m.group(2), lines[-1][4:]),
            'unit': unit[-1][5:].split(' | ') if unit else [], 'log_tail': tail}


def _progress_stats(binary, nshards):
    """What the workers had done when one of them died, measured from their progress files."""
    n, classes, sample = 0, set(), []
    for i in range(nshards):
        f = os.path.join(vlib.scratch_dir(), '%s.%s.%d.json.progress' % (os.path.basename(binary), TEST, i))
        try:
            lines = open(f, errors='replace').read().split('\n')
        except Exception:
            continue
        for a, b in zip(lines, lines[1:]):
            if a.startswith('REQ ') and b.startswith('DONE '):
                n += 1
                m = re.match(r'REQ (\S+) (\S+)\s+\[credential: ([^;\]]*)', a)
                if m:
                    path = re.sub(r'/robustirc/v1/[^/?]*', '/robustirc/v1/<id>', m.group(2).split('?')[0])
                    classes.add((m.group(1), path, m.group(3), b[5:]))
                    if len(sample) < 3:
                        sample.append(a[4:] + ' -> ' + b[5:])
    return n, len(classes), sample


def run(tier):
    t0 = time.time()
    routes = parse_routes()
    if not routes or not routes.get('GET') or not routes.get('POST'):
        print('HARNESS-OUT-OF-DATE route table: cannot find the switch of DispatchPrivateWithoutAuth in internal/api/api.go')
        raise SystemExit(3)
    budget = float(os.environ.get('VERIF_BUDGET_S', '75' if tier == 'quick' else '1100'))
    binary = _build()
    env = {'VERIF_TIER': tier, 'VERIF_DEADLINE': str(int(t0 + budget)), 'GOMAXPROCS': '2',
           'VERIF_C11_ROUTES': json.dumps(routes)}
    nshards = int(os.environ.get('VERIF_C11_SHARDS', vlib.NCPU))
    viols = []
    try:
        rs = vlib.run_workers(binary, TEST, nshards, env=env)
    except SystemExit as e:
        msg = str(e.code)
        if 'HARNESS-WORKER-FAILED' not in msg:
            raise
        v = _crash_violation(binary, msg)
        _kill_children()
        if v is None:
            print(msg)
            raise SystemExit(3)
        n, classes, sample = _progress_stats(binary, nshards)
        cov = {'evaluations': n + 1, 'distinct_nontrivial': classes, 'samples': [v['desc']] + sample, 'exhaustive': False,
               'rule': 'run aborted because a worker process died inside a request handler; counts are the completed requests and the distinct (method, path shape, credential, status) classes in the progress files of all workers at that moment',
               'aborted': 'a worker process died inside a request handler'}
        vlib.finish('C11', tier, 'exploration', cov, [v], t0, assumptions=ASSUME)
        return
    diff = [r['route_table_diff'] for r in rs if r.get('route_table_diff')]
    if diff:
        print('HARNESS-OUT-OF-DATE route table: ' + diff[0])
        raise SystemExit(3)
    herr = sorted(set(r['harness_error'] for r in rs if r.get('harness_error')))
    if herr:
        print('HARNESS-ERROR: ' + '; '.join(herr[:3]))
        raise SystemExit(3)
    bysig = {}
    for r in rs:
        for v in r.get('violations') or []:
            if v['sig'] in bysig:
                bysig[v['sig']]['count'] += v.get('count', 1)
            else:
                bysig[v['sig']] = v
    viols = list(bysig.values())
    # parked requests: a request on a session id that does not exist yet, then the victim creates that session
    rp = vlib.run_workers(binary, 'TestVerifC11Park', 12, env={'GOMAXPROCS': '2'})
    rp += vlib.run_workers(binary, 'TestVerifC11Open', 12, env={'GOMAXPROCS': '2'})
    rp += vlib.run_workers(binary, 'TestVerifC11Body', 1, env={'GOMAXPROCS': '2'})
    perr = [r['harness_error'] for r in rp if r.get('harness_error')]
    if perr:
        print('HARNESS-ERROR: ' + perr[0])
        raise SystemExit(3)
    parked = {}
    for r in rp:
        for k, c in (r.get('end_states') or {}).items(): parked[k] = parked.get(k, 0) + c
        for v in r.get('violations') or []:
            if v['sig'] not in bysig:
                bysig[v['sig']] = v; viols.append(v)
    died = [r for r in rs if r.get('in_flight') and r.get('_rc')]
    if died:
        viols.append({'sig': 'C11:handler crashed the process', 'prop': 'C11', 'count': len(died),
                      'desc': 'the process exited (%s) while serving %s' % (died[0].get('_rc'), died[0]['in_flight']),
                      'unit': ['private', 'h0', '', '/quit']})
    outcomes, status, parts, lost = {}, {}, {}, {}
    for r in rs:
        for src, dst in ((r.get('outcomes'), outcomes), (r.get('status'), status), (r.get('parts'), parts), (r.get('world_lost'), lost)):
            for k, c in (src or {}).items():
                dst[k] = dst.get(k, 0) + c
    samples = []
    for r in rs:
        for s in r.get('samples') or []:
            if len(samples) < 12 and s not in samples:
                samples.append(s)
    capped = any(r.get('capped') for r in rs) or bool(died)
    cov = {
        'evaluations': sum(r.get('requests', 0) for r in rs),
        'distinct_nontrivial': len(outcomes),
        'rule': RULE, 'samples': samples, 'exhaustive': not capped,
        'units': sum(r.get('units', 0) for r in rs), 'worlds': sum(r.get('worlds', 0) for r in rs),
        'refused': sum(r.get('refused', 0) for r in rs), 'accepted': sum(r.get('accepted', 0) for r in rs),
        'restarts': sum(r.get('restarts', 0) for r in rs), 'snapshots': sum(r.get('snapshots', 0) for r in rs),
        'requests_by_part': parts, 'status_by_part': status,
        'private_paths': max(r.get('private_paths', 0) for r in rs),
        'private_routes_parsed_from_source': routes,
        'worlds_lost_by_history_operation': lost,
        'off_route_requests_with_effect': sum(r.get('off_route_accepted', 0) for r in rs),
        'parked_requests': parked,
    }
    vlib.finish('C11', tier, 'exploration', cov, viols, t0, assumptions=ASSUME)


def replay(path):
    b = _build(); sd = vlib.scratch_dir(); o = os.path.join(sd, 'c11r.json')
    env = dict(os.environ); env.update({'VERIF_REPLAY': os.path.abspath(path), 'VERIF_OUT': o, 'TMPDIR': sd, 'VERIF_TIER': 'thorough'})
    p = subprocess.run([b, '-test.run', '^' + TEST + '$', '-test.timeout', '0'], env=env, cwd=sd)
    if not os.path.exists(o):
        print('the process died while replaying (handler crash)')
        print('VIOLATION property=C11 replay=%s' % path); return 1
    r = json.load(open(o))
    if r.get('harness_error'):
        print('HARNESS-ERROR: ' + r['harness_error']); return 3
    print(json.dumps(r.get('violations')))
    if r.get('violations'):
        print('VIOLATION property=C11 replay=%s' % path); return 1
    return 0


MANIFEST = dict(engine='api-matrix', level='exploration',
  technique='exhaustive request matrix (routes x methods x credentials x session states x id spellings) on the real HTTP dispatchers over an in-process raft node, with before/after state, log and body-leak oracles',
  text='Every combination of session state (fresh, logged in with messages waiting, deleted in four ways, never existed, id 0, not yet seen), id spelling (hex, decimal, other bases, overflow, slash, garbage, empty), route (POST message, GET messages with and without lastseen, DELETE, and all off-route method/path shapes) and credential (absent, empty, one character off, truncated, extended, upper case, other live session, deleted session, network password) is sent to the real public dispatcher; anything but the correct secret must get a non-2xx answer, add nothing to the raft log, leave the state dump and the output stream untouched and reveal neither message texts nor secrets. The correct secret must be accepted and effective, and refused once the session is deleted. Every private path (parsed from the switch in api.go at check time and compared with the harness table) is sent with four methods and seventeen wrong basic-auth variants: 401 with WWW-Authenticate, no effect, no leak; private paths below /robustirc/v1/ must not be served by the public dispatcher. A handler that takes the process down is detected through a per-request progress file.',
  note='Single leader node only: the proxy-to-leader path of followers for unknown sessions is not exercised. TLS, the net/http mux and real sockets are outside the harness. Timing side channels (non-constant-time comparison of secrets) are not examined. quick runs the matrix from four histories (plain, one more post, config change, snapshot+restart), thorough from all 85 sequences of at most three history operations. Further tiers: requests on the id the next session will get, refused requests while the victim has a stream open, members of the replicated message structure in the request body, the network password as basic auth on session routes.')
