import json, os, subprocess, sys, time
import vlib

ASSUME = [
    'the real outputstream.go is compiled with its import of "sync" redirected to the scheduler-controlled vsync (regenerated from the current tree at check time); LevelDB is real and trusted',
    'scheduling points = every Lock/Unlock/RLock/RUnlock/Cond.Wait/Broadcast of the stream; RWMutex writer preference is modelled (an announced writer blocks new readers)',
    'bounds: <=3 threads, <=3 operations each, initial streams of 0-3 batches, preemption bound 2 (quick) / 3 (thorough); positions x <= newest id added before the call',
    'oracle: sorted-map model with a version timeline; a result is legal when some linearization of the Add/Delete calls consistent with their call/return order contains a state, existing during the call, in which it is correct',
    'sequential tier: all programs up to length 5 (quick) / 7 (thorough) with Delete of any existing id',
    'small-cache build: the limits of the decoded-batch cache (1000 / 500 entries) are rewritten to 1 / 1 in the regenerated copy of outputstream.go, so that bounded programs reach the eviction branch; on that build all sequential programs of the same length with reads chained behind reads (reads fill and evict the cache), thorough: also the concurrent programs',
]
RULE = ('programs of 2-3 threads over Add / Delete(oldest-first, possibly reaching the tail) / Delete(non-existing) / GetNext(x) / Get / cancel+InterruptGetNext, '
        'every schedule within the preemption bound; plus all sequential programs up to the length bound; a program is non-trivial when its schedules produce >=2 distinct observations')

def build():
    ov = vlib.make_overlay('c08', harness=['outputstream'], engines=['vsync'], rewrite_sync=['internal/outputstream/outputstream.go'], rewrite_harness=[('outputstream', 'export.go')])
    return vlib.build_test('./internal/outputstream', os.path.join(vlib.BUILD, 'c08.test'), ov)

def build_small():
    """The same build with the size limits of the batch cache shrunk from 1000/500 to 1/1 entries, so that
    bounded programs reach the eviction branch.  The constants are rewritten in the regenerated copy of
    outputstream.go; when they are not found (the code was restructured) the tier is skipped with a note."""
    ov = vlib.make_overlay('c08small', harness=['outputstream'], engines=['vsync'], rewrite_sync=['internal/outputstream/outputstream.go'], rewrite_harness=[('outputstream', 'export.go')])
    repl = json.load(open(ov))['Replace']
    src = os.path.join(vlib.REPO, 'internal/outputstream/outputstream.go')
    f = repl.get(src)
    if not f:
        return None
    t = open(f).read()
    if t.count('len(os.messagesCache) > 1000') != 1 or t.count('len(os.messagesCache) < 500') != 1:
        return None
    t = t.replace('len(os.messagesCache) > 1000', 'len(os.messagesCache) > 1').replace('len(os.messagesCache) < 500', 'len(os.messagesCache) < 1')
    open(f, 'w').write(t)
    return vlib.build_test('./internal/outputstream', os.path.join(vlib.BUILD, 'c08small.test'), ov)

def prebuild():
    build()
    build_small()

def reexec(binary, v, count=5):
    sd = vlib.scratch_dir()
    p = os.path.join(sd, 'c08-replay-in.json'); o = os.path.join(sd, 'c08-replay-out.json')
    json.dump(v, open(p, 'w'))
    if os.path.exists(o): os.remove(o)
    env = dict(os.environ); env.update({'VERIF_REPLAY': p, 'VERIF_REPLAY_COUNT': str(count), 'VERIF_OUT': o, 'TMPDIR': sd})
    r = subprocess.run([binary, '-test.run', '^TestVerifC08$', '-test.timeout', '0'], env=env, cwd=sd, stdout=subprocess.PIPE, stderr=subprocess.STDOUT, text=True)
    if not os.path.exists(o):
        sys.stderr.write(r.stdout[-3000:]); raise SystemExit('HARNESS-REPLAY-FAILED for %s' % v.get('sig'))
    return json.load(open(o))

def run(tier):
    t0 = time.time()
    budget = float(os.environ.get('VERIF_BUDGET_S', '100' if tier == 'quick' else '1200'))
    binary = build()
    env = {'VERIF_TIER': tier, 'VERIF_DEADLINE': str(int(t0 + budget)), 'GOMAXPROCS': '1'}
    rc = vlib.run_workers(binary, 'TestVerifC08', vlib.NCPU, env=env)
    rs = vlib.run_workers(binary, 'TestVerifC08Seq', vlib.NCPU, env=env)
    # small-cache build: sequential programs in which reads are chained (they fill and evict the cache),
    # and the concurrent programs once more
    small = build_small()
    small_cov = {'skipped': 'cache size constants not found in outputstream.go'}
    if small:
        e2 = dict(env); e2['VERIF_C08_CHAIN'] = '1'
        rss = vlib.run_workers(small, 'TestVerifC08Seq', vlib.NCPU, env=e2)
        rcs = vlib.run_workers(small, 'TestVerifC08', vlib.NCPU, env=env) if tier == 'thorough' else []
        for r in rss + rcs:
            for v in r.get('violations') or []:
                v['sig'] += ' (cache limited to 1 entry)'
                v['prop'] = 'C08small'
        small_cov = {'cache_limit': 1, 'sequential_programs_with_chained_reads': sum(r['sequential_programs'] for r in rss),
                     'concurrent_schedules': sum(r['executions'] for r in rcs)}
        rs_small = rss + rcs
    else:
        rs_small = []
    viols = []
    for r in rc + rs + rs_small: viols += r.get('violations') or []
    bysig = {}
    for v in viols:
        if v['sig'] in bysig: bysig[v['sig']]['count'] += v.get('count', 1)
        else: bysig[v['sig']] = v
    merged = list(bysig.values())
    new, _ = vlib.classify('C08', merged)
    for v in new[:10]:
        if v.get('prop') != 'C08': continue
        rr = reexec(binary, v, 5)
        if not rr['identical'] or not rr['reproduced']:
            print('HARNESS-NONDETERMINISM: %s did not reproduce identically: %s' % (v['sig'], rr['runs'])); raise SystemExit(3)
    outcomes = {}
    for r in rc:
        for k, c in r['outcomes'].items(): outcomes[k] = outcomes.get(k, 0) + c
    truncated = sum(r['programs_truncated'] for r in rc)
    cov = {
        'states': sum(r['distinct_observations'] for r in rc) + sum(r['distinct_model_states'] for r in rs),
        'transitions': sum(r['points'] for r in rc) + sum(r['sequential_ops'] for r in rs),
        'traces_validated_against_impl': sum(r['executions'] for r in rc) + sum(r['sequential_programs'] for r in rs),
        'concurrent_programs': sum(r['programs'] for r in rc), 'schedules': sum(r['executions'] for r in rc), 'scheduling_points': sum(r['points'] for r in rc),
        'schedule_outcomes': outcomes, 'programs_with_2plus_observations': sum(r['programs_with_2plus_observations'] for r in rc),
        'distinct_observations': sum(r['distinct_observations'] for r in rc),
        'preemption_bound': rc[0]['preemption_bound'], 'programs_truncated_by_cap': truncated,
        'sequential_programs': sum(r['sequential_programs'] for r in rs), 'sequential_max_len': rs[0]['max_len'],
        'small_cache_build': small_cov,
        'samples': (sum([r.get('samples') or [] for r in rc], [])[:6] + sum([r.get('samples') or [] for r in rs], [])[:3]),
        'exhaustive': truncated == 0, 'rule': RULE,
    }
    vlib.finish('C08', tier, 'model_checking', cov, merged, t0, assumptions=ASSUME)

def replay(path):
    v = json.load(open(path))
    rr = reexec(build(), v, 1); print(json.dumps(rr))
    if rr['reproduced']:
        print('VIOLATION property=C08 replay=%s' % path); return 1
    return 0

MANIFEST = dict(engine='sched + vsync', level='model_checking',
  technique='stateless model checking of the real outputstream.go under a controlled scheduler (sync redirected to vsync): every interleaving of the lock/condition steps within a preemption bound, linearizability-style oracle against a sorted-map version timeline; exhaustive sequential programs against the model',
  text='The real output stream (real LevelDB) runs bounded 2-3 thread programs under a cooperative scheduler that owns every Lock/Unlock/Wait/Broadcast; all schedules with at most 2 (quick) / 3 (thorough) preemptions are executed and each call/return history is checked: GetNext results must be the smallest existing successor at some instant of the call, blocked readers are legal only if no successor exists at quiescence, cancelled+woken readers must have returned, no panic. Additionally every sequential program up to length 5/7 is compared with a sorted map.',
  note='Scheduler models Go RWMutex writer preference and sync.Cond wait-set semantics; memory-model effects below lock granularity are out of scope here (C20). LevelDB trusted.')
