import json, os
import vlib, apidrive

ASSUME = [
    'single-node network in-process: real hashicorp/raft (in-memory transport), real FSM, real LevelDB raftlog/irclog, FileSnapshotStore, real api.HTTP handlers via httptest; operations are issued one after another',
    'a replica fed by the log = the node restarted (replays the durable log); a replica fed by a snapshot = forced raft snapshot that folds every entry but the last one into the serialized state (cut pinned with the repository flag -canary_compaction_start), followed by a restart',
    'reference model: revision (0 at start), configuration in force (hand-written literals for the default configuration and for the two posted configurations A and B, not produced by the repository parser) and the GLINE bans; an accepted post replaces the whole configuration including [Banned]',
    'postStale uses revision-in-force minus one; while the revision in force is 0 the header carries 18446744073709551615 (0-1 in uint64)',
    'the GLINE operator authenticates with the credentials of the configuration in force; without configured operators the GLINE must be refused (481) and change nothing; each GLINE bans a fresh victim address',
    'captcha tokens for configuration B are produced by the harness with the secret of the model (the current wall clock is only an input of the token, never an expected value)',
]
RULE = ('all sequences of the given depth over {postA, postB, postHuge (a valid document of more than 64 KiB: a ban list of 1700 entries), postHugeBad (more than 64 KiB with the syntax error behind byte 65536), postInvalid, postWrongType, postStale, postFuture, postNoHeader, gline, traffic, snapshot, restart, fsmBad}; '
        'oracle after every operation: status code (200 accepted / 400 rejected), exactly one Config log entry with revision+1 on acceptance, no log entry / identical canonical state dump / identical GET /config on rejection, '
        'GET /config revision header and body (field by field) equal to the model, FSM compaction window equal to the configured expiration, and config-dependent behaviour '
        '(login with/without captcha, captcha URL and secret, OPER with the credentials of A and B, trusted bridge keys, allowed origins, ban enforcement for every configured and GLINE ban; the traffic operation adds services passwords, MaxChannels and MaxSessions)')

def prebuild():
    apidrive.build()

def run(tier):
    variants = None
    if tier == 'thorough':
        variants = [('json encoding', {'VERIF_ENCODING': 'json', 'VERIF_DEPTH': '3'}), ('', {})]
    apidrive.run_seq('C16', tier, 'TestVerifC16', ASSUME, RULE, variants=variants)

def replay(path):
    import subprocess
    b = apidrive.build(); sd = vlib.scratch_dir(); o = os.path.join(sd, 'c16r.json')
    env = dict(os.environ); env.update({'VERIF_REPLAY': path, 'VERIF_OUT': o, 'TMPDIR': sd})
    subprocess.run([b, '-test.run', '^TestVerifC16$', '-test.timeout', '0'], env=env, cwd=sd)
    r = json.load(open(o)); print(json.dumps(r.get('violations')))
    if r.get('violations'):
        print('VIOLATION property=C16 replay=%s' % path); return 1
    return 0

MANIFEST = dict(engine='api-seq', level='model_checking',
  technique='exhaustive enumeration of config-post/GLINE/traffic/snapshot/restart sequences on the real handlers over an in-process raft node against a revision+config reference model',
  text='Every sequence (depth 3 quick / 4 thorough) over twelve operations - two valid configurations posted with the revision in force, invalid TOML, a wrong value type, a stale revision, a future revision, a missing revision header, a GLINE by an operator of the configuration in force, config-dependent traffic, a compacting snapshot, a restart, and an unparsable Config entry placed directly in the log - is executed on real raft + real FSM + real handlers next to a reference model (revision, configuration in force, GLINE bans). After every operation: the status code, the durable log (exactly one Config entry with revision+1 on acceptance, none on rejection), the canonical state dump and GET /config (unchanged on rejection), GET /config header and body field by field against the model (operators, services, limits, expiration, cool-off, captcha URL/secret/flag, trusted bridges, allowed origins, bans incl. GLINE), the FSM compaction window, and behaviour that depends on the configuration (captcha login, OPER 381/464, X-Forwarded-For honoured per bridge key, Access-Control-Allow-Origin, ERROR for every banned address, services link, MaxChannels, MaxSessions 429) must agree with the model - also on the log-fed (restart) and the snapshot-fed (snapshot+restart) replica.',
  note='Single node; other replicas are modelled by restart (log replay) and compacting snapshot + restart (state through IRCServer.Marshal/Unmarshal). hashicorp/raft and the TOML library are trusted. Known finding reported under a fixed signature: WhitelistedOrigins is not part of the snapshot schema.')
