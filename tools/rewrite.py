#!/usr/bin/env python3
"""Produce a copy of a repository Go file whose import of "sync" is redirected to the
scheduler-controlled vsync package and whose calls of time.Sleep go through vsync.Sleep.
Nothing else changes.  Fails loudly when the file does not contain what is expected."""
import re, sys

VSYNC = 'github.com/robustirc/robustirc/internal/verif/vsync'

def rewrite_text(src, path='<input>', VSYNC=VSYNC):
    n_sync = len(re.findall(r'^\s*"sync"\s*$', src, flags=re.M))
    n_sleep = src.count('time.Sleep(')
    if n_sync == 0 and n_sleep == 0:
        sys.exit('rewrite: %s neither imports "sync" nor calls time.Sleep' % path)
    if n_sync > 1:
        sys.exit('rewrite: %s imports "sync" %d times' % (path, n_sync))
    out = src
    if n_sync == 1:
        out = re.sub(r'^(\s*)"sync"\s*$', r'\1sync "%s"' % VSYNC, out, count=1, flags=re.M)
        out = out.replace('time.Sleep(', 'sync.Sleep(')
    else:
        m = re.search(r'^import \(\n', out, flags=re.M)
        if not m:
            sys.exit('rewrite: %s has no import block' % path)
        out = out[:m.end()] + '\tvsyncsleep "%s"\n' % VSYNC + out[m.end():]
        out = out.replace('time.Sleep(', 'vsyncsleep.Sleep(')
    # "time" may have become unused; keep the import alive
    if n_sleep and re.search(r'^\s*"time"\s*$', out, flags=re.M) and not re.search(r'\btime\.(?!Sleep\()', out):
        out += '\nvar _ = time.Second\n'
    return out

def rewrite_file(src_path, out_path, pkg='vsync'):
    src = open(src_path).read()
    open(out_path, 'w').write(rewrite_text(src, src_path, VSYNC.rsplit('/', 1)[0] + '/' + pkg))

if __name__ == '__main__':
    rewrite_file(sys.argv[1], sys.argv[2])
