#!/usr/bin/env python3
"""Generate patched copies of runtime/map.go and time/time.go from the installed GOROOT.

runtime: every rand() that seeds a map (hash0) or picks an iteration start is routed
through verifMapRand, which consults a hook only on the goroutine that armed it.
time: Now() adds a process-global offset (seconds) set by the harness.
Fails loudly if the expected expressions are not found exactly as often as expected.
"""
import os, subprocess, sys

def goroot():
    return subprocess.check_output(['go', 'env', 'GOROOT'], text=True).strip()

MAP_HELPER = '''
// ---- verif: controlled map iteration order (added by /verif/tools/rtpatch.py) ----

var (
	verifMapG    *g
	verifMapFn   func(count int, b uint8) uint64
	verifMapBusy bool
)

// verifSetMapHook arms (fn != nil) or disarms the hook for the calling goroutine.
//
//go:linkname verifSetMapHook time.verifSetMapHook
func verifSetMapHook(fn func(count int, b uint8) uint64) {
	if fn == nil {
		verifMapG = nil
		verifMapFn = nil
		return
	}
	verifMapFn = fn
	verifMapG = getg()
}

func verifIterRand(h *hmap) uintptr {
	if verifMapFn != nil && getg() == verifMapG && !verifMapBusy {
		verifMapBusy = true
		r := verifMapFn(h.count, h.B)
		verifMapBusy = false
		return uintptr(r)
	}
	return uintptr(rand())
}

func verifHash0() uint32 {
	if verifMapFn != nil && getg() == verifMapG {
		return 0x5eed5eed
	}
	return uint32(rand())
}
'''

def patch_map(src):
    n_h = src.count('h.hash0 = uint32(rand())')
    if n_h != 4:
        sys.exit('rtpatch: expected 4 hash0 seeds in runtime/map.go, found %d' % n_h)
    src = src.replace('h.hash0 = uint32(rand())', 'h.hash0 = verifHash0()')
    it = 'r := uintptr(rand())\n\tit.startBucket = r & bucketMask(h.B)'
    if src.count(it) != 1:
        sys.exit('rtpatch: mapiterinit start expression not found exactly once')
    src = src.replace(it, 'r := verifIterRand(h)\n\tit.startBucket = r & bucketMask(h.B)')
    return src + MAP_HELPER

def patch_time(src):
    old = 'func Now() Time {\n\tsec, nsec, mono := now()\n'
    if src.count(old) != 1:
        sys.exit('rtpatch: time.Now prologue not found exactly once')
    src = src.replace(old, 'func Now() Time {\n\tif VerifFixedNano != 0 {\n\t\treturn Unix(0, VerifFixedNano)\n\t}\n\tsec, nsec, mono := now()\n' + '\tsec += VerifOffsetSec\n')
    return src + '\n// VerifOffsetSec is added to the wall clock read by Now; VerifFixedNano, when non-zero,\n// replaces it altogether (verif harness only).\nvar VerifOffsetSec int64\nvar VerifFixedNano int64\n\n// verifSetMapHook is provided by the (patched) runtime via linkname.\nfunc verifSetMapHook(fn func(count int, b uint8) uint64)\n\n// VerifSetMapHook arms (fn != nil) or disarms the map-iteration hook for the calling goroutine.\nfunc VerifSetMapHook(fn func(count int, b uint8) uint64) { verifSetMapHook(fn) }\n'

def main(outdir):
    gr = goroot()
    os.makedirs(outdir, exist_ok=True)
    m = open(os.path.join(gr, 'src/runtime/map.go')).read()
    t = open(os.path.join(gr, 'src/time/time.go')).read()
    open(os.path.join(outdir, 'runtime_map.go.txt'), 'w').write(patch_map(m))
    open(os.path.join(outdir, 'time_time.go.txt'), 'w').write(patch_time(t))
    return {os.path.join(gr, 'src/runtime/map.go'): os.path.join(outdir, 'runtime_map.go.txt'),
            os.path.join(gr, 'src/time/time.go'): os.path.join(outdir, 'time_time.go.txt')}

if __name__ == '__main__':
    print(main(sys.argv[1]))
